#!/bin/bash
# Build the Coq development (full .vo build), scan it for forbidden constructs,
# extract the models and compile the OCaml line driver.  Offline, from files on disk.
#   setup.sh            unconditional build
#   setup.sh --if-stale build only when a source changed since the last successful build
set -u
cd "$(dirname "$0")"
VERIF=$(pwd)
mkdir -p .work bin ocaml/gen evidence replays
stamp() { (cat coq/_CoqProject ocaml/driver.ml; find coq/theories -name '*.v' | LC_ALL=C sort | xargs cat) | sha256sum | cut -d' ' -f1; }
NOW=$(stamp)
if [ "${1:-}" = "--if-stale" ] && [ -x bin/model ] && [ -f .work/build.stamp ] && [ "$(cat .work/build.stamp)" = "$NOW" ]; then
  exit 0
fi
rm -f .work/build.stamp
cd coq
coq_makefile -f _CoqProject -o Makefile > /dev/null || exit 2
if ! timeout 3000 make -j16 > ../.work/make.log 2>&1; then
  tail -40 ../.work/make.log
  echo "setup: Coq build failed" >&2
  exit 2
fi
cd ../ocaml
if ! ocamlfind ocamlopt -w -a -I gen gen/model.mli gen/model.ml driver.ml -o ../bin/model > ../.work/ocaml.log 2>&1; then
  tail -20 ../.work/ocaml.log
  echo "setup: OCaml build failed" >&2
  exit 2
fi
cd ..
echo "$NOW" > .work/build.stamp
echo "setup: ok"
