#!/usr/bin/env python3
"""Build corpus/<Cxx>/*.json from the failing inputs this project has seen: the replays of repaired defects
(findings/) and the failing inputs found for seeded changes (seeded/*/replay-Cxx.json).  core.load_corpus runs
them first in every check: a repaired defect or a seeded change that comes back is met by its own minimal input."""
import glob, json, os, re
V = os.path.dirname(os.path.dirname(os.path.abspath(__file__)))
n = 0
for f in sorted(glob.glob(os.path.join(V, "findings", "C*.json")) + glob.glob(os.path.join(V, "seeded", "*", "replay-C*.json"))):
    if os.path.getsize(f) > 300000:
        continue
    try:
        r = json.load(open(f))
    except Exception:
        continue
    if "case" not in r or not r.get("property"):
        continue
    pid = r["property"]
    if "seeded" in f:
        name = "seed-" + os.path.basename(os.path.dirname(f))
    else:
        name = "finding-" + os.path.basename(f)[:-5]
    d = os.path.join(V, "corpus", pid)
    os.makedirs(d, exist_ok=True)
    json.dump({"case": r["case"], "origin": os.path.relpath(f, V), "signature": r.get("signature")},
              open(os.path.join(d, name + ".json"), "w"), indent=1)
    n += 1
print("corpus cases:", n)
