#!/usr/bin/env python3
"""Regenerates MANIFEST.json from the table below (run after adding a check)."""
import json
import os

VERIF = os.path.dirname(os.path.dirname(os.path.abspath(__file__)))

COMMON_NOTE = ("Trusted: Coq 8.16.1 kernel (vm_compute used, native_compute not), no axioms (Print Assumptions parsed on every run), "
               "extraction with ExtrOcamlBasic only + ocaml/driver.ml (cross-checked per run against vm_compute), the Python "
               "correspondence harness. The theorem is about a hand-written Gallina model; the model is tied to /repo's current "
               "working tree by executing both on the same generated cases on every run. ")

def load_checks():
    import importlib
    import sys
    sys.path.insert(0, VERIF)
    out = {}
    for fn in sorted(os.listdir(os.path.join(VERIF, "harness"))):
        m = __import__("re").match(r"^(c\d\d)\.py$", fn)
        if m:
            mod = importlib.import_module("harness." + m.group(1))
            if hasattr(mod, "MANIFEST"):
                out[mod.PID] = mod.MANIFEST
    return out


CHECKS = load_checks()

ALL = ["C%02d" % i for i in range(1, 21)]


def main():
    checks = []
    for pid in ALL:
        if pid not in CHECKS:
            continue
        c = CHECKS[pid]
        checks.append({
            "property_id": pid,
            "quick_cmd": "./check %s quick" % pid,
            "thorough_cmd": "./check %s thorough" % pid,
            "evidence_file": "/verif/evidence/%s.json" % pid,
            "replay_cmd_template": "./check %s --replay {path}" % pid,
            "engine": "coq-model-correspondence",
            "level_claimed": {"category": "proof", "text": c["text"], "design_ref": "DESIGN.md section " + c["ref"]},
            "level_note": COMMON_NOTE + c["note"],
            "technique": c["technique"],
        })
    na = [{"property_id": pid, "reason": "check not built yet (work in progress; no property is considered out of reach of the technique, see DESIGN.md section 7)"}
          for pid in ALL if pid not in CHECKS]
    m = {
        "version": 1,
        "setup_cmd": "./setup.sh",
        "hooks": {
            "guard": "BAIZE_VERIF",
            "enable": "no hooks were needed: every observation point is reachable from outside; checks export BAIZE_VERIF=1 anyway",
            "baseline_off_cmd": "cd /repo && env -u BAIZE_VERIF /venv/bin/python -m pytest -ra -q -p no:cacheprovider --timeout=900 --continue-on-collection-errors",
            "source_commits": [],
            "add_only": True,
        },
        "engines": [{
            "name": "coq-model-correspondence",
            "path": "/verif/check",
            "serves_properties": [c["property_id"] for c in checks],
            "kind_free_text": "Coq 8.16 theorems about hand-written executable Gallina models (coq/theories), extracted to OCaml and "
                              "run against the implementation on generated cases by harness/*.py; property oracles search for failing inputs",
        }],
        "checks": checks,
        "not_applicable": na,
        "notes": "See DESIGN.md. known_findings.json lists repaired (fixed:) and recorded defects.",
    }
    with open(os.path.join(VERIF, "MANIFEST.json"), "w") as f:
        json.dump(m, f, indent=1)
        f.write("\n")


if __name__ == "__main__":
    main()
