#!/usr/bin/env python3
"""Source-level translator tie for C12: the header accessors of MoreInfoFromHeaderMixin (baize/requests.py):
accepted_types, accepts, content_length, date, referrer.

Each accessor is re-read with `ast` from the CURRENT source (BAIZE_REPO, default /repo) and emitted as a Gallina function
that is structurally the Python and returns C12.Model.outcome (Ok value | Http | Documented | Crash exception-class):

  * statements are `let`s in statement order; what follows an `if` / a `try` is repeated in the branches;
    `if x is None:` on the result of `self.headers.get(K, None)` is the match on the option;
  * every call of a stdlib parser is a match on the answer of an ORACLE argument (inl value | inr exception-class):
        int(x)                       int_of x
        parsedate_to_datetime(x)     parsedate x          (the value: isoformat() and whether tzinfo is None)
        URL(url=x)                   urlsplit_ok x        (the value: x)
        u.port                       port_ok u
    in evaluation order.  Outside a `try` the inr answer is `Crash e`.  Inside `try: ... except (A, B): H` it is
    `if catches [A; B] e then <H> else <what the enclosing try does, or Crash e>` with the class list READ FROM THE SOURCE
    (C12.Model.catches: isinstance along Python's class hierarchy);
  * MediaType(x) and m.match(y) are the function arguments media_type_new / media_match (the class lives in
    baize/datastructures.py; C12/Translated.v instantiates them with the model's own media_type / media_match);
  * self.accepted_types inside accepts is the call of the translated accepted_types (a cached_property of the same class);
  * str methods are Lib/PyStr.v's (== str_eqb, .strip() strip_ws, .split(c) split, truthiness negb is_empty), compared
    with the interpreter by pystr_check on every run; max(a, b) is Z.max;
  * self.headers.get(K, D): C12/PyLib.v get_or / get_opt on the lower-cased constant K (Headers.__getitem__ is checked to
    be `self._dict[key.lower()]` still).

coqc then re-checks C12/Translated.v (translated = the model's function for EVERY answer of the oracles, declared or
not; no translated accessor yields Crash for answers inside the declared classes) against the fresh text.

Fail-closed: anything outside this subset is a refusal (obligation not applicable), never a guess.

    python3 tools/py2coq_c12.py --emit      print the generated file (what C12/Generated_ref.v is a copy of)
    python3 tools/py2coq_c12.py --check     run the obligations
"""
import ast
import importlib.util
import os
import re
import sys

VERIF = os.path.dirname(os.path.dirname(os.path.abspath(__file__)))


def _base():
    spec = importlib.util.spec_from_file_location("py2coq", os.path.join(VERIF, "tools", "py2coq.py"))
    m = importlib.util.module_from_spec(spec)
    spec.loader.exec_module(m)
    return m


P = _base()
Unsupported = P.Unsupported

PID = "C12"
FILE = "baize/requests.py"
DS_FILE = "baize/datastructures.py"
CLASS = "MoreInfoFromHeaderMixin"

# the constructors of C12.Model.exc (Python's class names)
EXC = """ValueError UnicodeError UnicodeDecodeError UnicodeEncodeError LookupError KeyError IndexError TypeError
ArithmeticError OverflowError ZeroDivisionError OSError FileNotFoundError NotADirectoryError PermissionError
IsADirectoryError RuntimeError RecursionError AttributeError AssertionError MemoryError""".split()

ORACLE_SIG = {
    "int_of": "(int_of : text -> Z + exc)",
    "parsedate": "(parsedate : text -> datetime + exc)",
    "urlsplit_ok": "(urlsplit_ok : text -> unit + exc)",
    "port_ok": "(port_ok : text -> unit + exc)",
    "media_type_new": "(media_type_new : text -> M)",
    "media_match": "(media_match : M -> text -> bool)",
}
COQ_TYPE = {"text": "text", "Z": "Z", "bool": "bool", "datetime": "datetime", "url": "text", "media": "M",
            "list:media": "list M", "list:text": "list text"}

# name -> the oracles the generated function takes (fixed: the theorems apply them), the Python parameters after self,
# (return kind, type): optional = `return None` is None and `return v` is Some v; the decorator
TARGETS = [
    ("accepted_types", dict(oracles=["media_type_new"], params=[], ret=("plain", "list:media"), deco="cached_property")),
    ("accepts", dict(oracles=["media_type_new", "media_match"], params=[("media_type", "text")], ret=("plain", "bool"), deco=None)),
    ("content_length", dict(oracles=["int_of"], params=[], ret=("optional", "Z"), deco="cached_property")),
    ("date", dict(oracles=["parsedate"], params=[], ret=("optional", "datetime"), deco="cached_property")),
    ("referrer", dict(oracles=["urlsplit_ok", "port_ok"], params=[], ret=("optional", "url"), deco="cached_property")),
]
# global name -> where it must come from
IMPORTS = {
    "parsedate_to_datetime": ("email.utils", 0, "parsedate_to_datetime"),
    "timezone": ("datetime", 0, "timezone"),
    "URL": ("datastructures", 1, "URL"),
    "MediaType": ("datastructures", 1, "MediaType"),
    "cached_property": ("utils", 1, "cached_property"),
}
BUILTINS = ["int", "max", "any"] + EXC
SPECIAL = set(BUILTINS) | set(IMPORTS) | {"self"}

HEADER = """(* GENERATED by tools/py2coq_c12.py from baize/requests.py (class MoreInfoFromHeaderMixin) — do not edit.
   Structurally the Python: statements are lets in statement order, what follows an if / a try is repeated in the
   branches, every stdlib parser is a match on the answer of an oracle argument, `except (A, B)` is
   `catches [A; B] e` with the classes read from the source. *)
From Coq Require Import List NArith ZArith Bool.
From Baize Require Import Lib.Wire Lib.PyStr C12.Model C12.PyLib.
Import ListNotations.

"""


def U(node, why):
    return Unsupported(node, why)


def is_name(n, s=None):
    return isinstance(n, ast.Name) and (s is None or n.id == s)


def is_none(n):
    return isinstance(n, ast.Constant) and n.value is None


def textlit(s):
    return "[" + "; ".join("%d%%N" % ord(c) for c in s) + "]" if s else "([] : text)"


def paren(s):
    return s if re.fullmatch(r"[\w.']+|\[.*\]|\(.*\)", s, re.S) and not (s.startswith("(") and s.count("(") != s.count(")")) else "(" + s + ")"


def indent(text, n):
    pad = " " * n
    return "\n".join(pad + l if l else l for l in text.split("\n"))


class Ctx:
    """a try level: its handlers [(classes, body)], the variables known when the try is entered, what follows the try
    statement, the enclosing level"""

    def __init__(self, handlers, env, cont, outer):
        self.handlers, self.env, self.cont, self.outer = handlers, env, cont, outer


class K:
    """what is executed when a block falls through its end"""

    def __init__(self, stmts, ctx, k):
        self.stmts, self.ctx, self.k = stmts, ctx, k


class Accessor:
    def __init__(self, fn, name, spec, done):
        self.fn, self.name, self.spec, self.done = fn, name, spec, done
        self.n = 0
        decos = fn.decorator_list
        if spec["deco"] is None:
            if decos:
                raise U(fn, "%s is decorated" % name)
        elif len(decos) != 1 or not is_name(decos[0], spec["deco"]):
            raise U(fn, "%s is not decorated with @%s only" % (name, spec["deco"]))
        a = fn.args
        if ([x.arg for x in a.args] != ["self"] + [p for p, _ in spec["params"]] or a.vararg or a.kwarg or a.posonlyargs
                or a.kwonlyargs or a.defaults or a.kw_defaults):
            raise U(fn, "signature of %s" % name)
        env = {p: t for p, t in spec["params"]}
        body = list(fn.body)
        if body and isinstance(body[0], ast.Expr) and isinstance(body[0].value, ast.Constant) and isinstance(body[0].value.value, str):
            body = body[1:]
        for n in ast.walk(fn):
            if isinstance(n, (ast.Global, ast.Nonlocal, ast.Lambda, ast.FunctionDef, ast.AsyncFunctionDef, ast.ClassDef,
                              ast.Yield, ast.YieldFrom, ast.Await, ast.NamedExpr, ast.Delete, ast.With, ast.Raise)) and n is not fn:
                raise U(n, "%s outside the subset" % type(n).__name__)
            if isinstance(n, ast.Name) and isinstance(n.ctx, (ast.Store, ast.Del)):
                if n.id in SPECIAL or not re.fullmatch(r"[A-Za-z_][A-Za-z0-9_]*", n.id):
                    raise U(n, "assignment to the name %s" % n.id)
        text = self.block(body, env, None, None)
        m_implicit = "{M : Type} " if any(o.startswith("media") for o in spec["oracles"]) else ""
        kind, t = spec["ret"]
        rt = COQ_TYPE[t] if kind == "plain" else "option %s" % COQ_TYPE[t]
        sig = m_implicit + " ".join(ORACLE_SIG[o] for o in spec["oracles"]) + " (headers : PyLib.headers)"
        sig += "".join(" (v_%s : %s)" % (p, COQ_TYPE[t2]) for p, t2 in spec["params"])
        self.text = "Definition %s %s : outcome (%s) :=\n%s.\n\n" % (name, sig, rt, indent(text, 2))

    # ------------------------------------------------------------------ helpers
    def fresh(self):
        self.n += 1
        return self.n

    def oracle(self, node, name):
        if name not in self.spec["oracles"]:
            raise U(node, "%s calls something that is not among its oracles (%s)" % (self.name, name))
        return name

    def raise_(self, ctx, e):
        """what an exception of class e does under the try levels ctx"""
        if ctx is None:
            return "Crash %s" % e
        out = ""
        tails = 0
        for classes, body in ctx.handlers:
            out += "if catches [%s] %s then\n%s\nelse " % ("; ".join(classes), e, indent(self.block(body, dict(ctx.env), ctx.outer, ctx.cont), 2))
            tails += 1
        return out + self.raise_(ctx.outer, e)

    def wrap(self, pre, ctx, body):
        for kind, call, binder, e in reversed(pre):
            if kind == "oracle":
                body = "match %s with\n| inl %s =>\n%s\n| inr %s =>\n%s\nend" % (call, binder, indent(body, 2), e, indent(self.raise_(ctx, e), 2))
            else:
                body = ("match %s with\n| Ok %s =>\n%s\n| Http c => Http c\n| Documented d => Documented d\n| Crash %s =>\n%s\nend"
                        % (call, binder, indent(body, 2), e, indent(self.raise_(ctx, e), 2)))
        return body

    # ------------------------------------------------------------------ statements
    def block(self, stmts, env, ctx, k):
        if not stmts:
            if k is None:
                raise U(self.fn, "%s can fall off its end (implicit return None)" % self.name)
            return self.block(k.stmts, env, k.ctx, k.k)
        s, rest = stmts[0], list(stmts[1:])
        if isinstance(s, ast.Return):
            kind, t = self.spec["ret"]
            if s.value is None or is_none(s.value):
                if kind != "optional":
                    raise U(s, "return None in %s" % self.name)
                return "Ok None"
            pre = []
            v, vt = self.expr(s.value, env, pre, False)
            if vt != t:
                raise U(s, "%s returns a %s, not a %s" % (self.name, vt, t))
            return self.wrap(pre, ctx, "Ok (Some %s)" % paren(v) if kind == "optional" else "Ok %s" % paren(v))
        if isinstance(s, (ast.Assign, ast.AnnAssign)):
            if isinstance(s, ast.Assign):
                if len(s.targets) != 1 or not is_name(s.targets[0]):
                    raise U(s, "assignment target")
                tgt, val = s.targets[0].id, s.value
            else:
                if not is_name(s.target) or s.value is None or not s.simple:
                    raise U(s, "assignment target")
                tgt, val = s.target.id, s.value
            pre = []
            v, vt = self.expr(val, env, pre, False)
            if vt not in COQ_TYPE and vt != "opt_text":
                raise U(s, "a %s is assigned to a variable" % vt)
            env2 = dict(env)
            env2[tgt] = vt
            return self.wrap(pre, ctx, "let v_%s := %s in\n%s" % (tgt, v, self.block(rest, env2, ctx, k)))
        if isinstance(s, ast.Expr):
            if isinstance(s.value, ast.Constant):
                return self.block(rest, env, ctx, k)
            pre = []
            self.expr(s.value, env, pre, False)
            return self.wrap(pre, ctx, self.block(rest, env, ctx, k))
        if isinstance(s, ast.Pass):
            return self.block(rest, env, ctx, k)
        if isinstance(s, ast.If):
            k2 = K(rest, ctx, k)
            t = s.test
            if (isinstance(t, ast.Compare) and len(t.ops) == 1 and isinstance(t.ops[0], (ast.Is, ast.IsNot)) and is_none(t.comparators[0])
                    and is_name(t.left) and env.get(t.left.id) == "opt_text"):
                x = t.left.id
                envs = dict(env)
                envs[x] = "text"
                none_b, some_b = (s.body, s.orelse) if isinstance(t.ops[0], ast.Is) else (s.orelse, s.body)
                return "match v_%s with\n| None =>\n%s\n| Some v_%s =>\n%s\nend" % (
                    x, indent(self.block(list(none_b), env, ctx, k2), 2), x, indent(self.block(list(some_b), envs, ctx, k2), 2))
            pre = []
            c, ct = self.expr(t, env, pre, False)
            if ct != "bool":
                raise U(t, "the test of an if is a %s" % ct)
            return self.wrap(pre, ctx, "if %s then\n%s\nelse\n%s" % (
                c, indent(self.block(list(s.body), env, ctx, k2), 2), indent(self.block(list(s.orelse), env, ctx, k2), 2)))
        if isinstance(s, ast.Try):
            if s.orelse or s.finalbody or not s.handlers:
                raise U(s, "try with else / finally")
            handlers = []
            for h in s.handlers:
                if h.name is not None or h.type is None:
                    raise U(h, "bare except / except ... as name")
                elts = h.type.elts if isinstance(h.type, ast.Tuple) else [h.type]
                if not elts or [x for x in elts if not is_name(x) or x.id not in EXC]:
                    raise U(h, "exception classes outside C12.Model.exc")
                handlers.append(([x.id for x in elts], list(h.body)))
            k2 = K(rest, ctx, k)
            return self.block(list(s.body), env, Ctx(handlers, env, k2, ctx), k2)
        raise U(s, "statement %s outside the subset" % type(s).__name__)

    # ------------------------------------------------------------------ expressions
    def hoist(self, node, pre, pure, kind, call):
        if pure:
            raise U(node, "a call that can raise inside a comprehension / boolean operator")
        i = self.fresh()
        pre.append((kind, call, "r%d" % i, "e%d" % i))
        return "r%d" % i

    def truthy(self, node, v, t):
        if t == "bool":
            return v
        if t == "text":
            return "negb (PyStr.is_empty %s)" % paren(v)
        raise U(node, "truth value of a %s" % t)

    def expr(self, e, env, pre, pure):
        if isinstance(e, ast.Constant):
            if isinstance(e.value, str):
                return textlit(e.value), "text"
            if type(e.value) is int:
                return "(%d)%%Z" % e.value, "Z"
            raise U(e, "constant %r" % (e.value,))
        if isinstance(e, ast.Name):
            if e.id in env and isinstance(e.ctx, ast.Load):
                return "v_%s" % e.id, env[e.id]
            raise U(e, "name %s" % e.id)
        if isinstance(e, ast.UnaryOp) and isinstance(e.op, ast.Not):
            v, t = self.expr(e.operand, env, pre, pure)
            return "negb %s" % paren(self.truthy(e, v, t)), "bool"
        if isinstance(e, ast.BoolOp):
            parts = []
            for x in e.values:
                v, t = self.expr(x, env, pre, True)
                if t != "bool":
                    raise U(x, "and / or of a %s" % t)
                parts.append(paren(v))
            op = "andb" if isinstance(e.op, ast.And) else "orb"
            out = parts[-1]
            for p in reversed(parts[:-1]):
                out = "(%s %s %s)" % (op, p, out)
            return out, "bool"
        if isinstance(e, ast.Compare):
            if len(e.ops) != 1:
                raise U(e, "chained comparison")
            op, r = e.ops[0], e.comparators[0]
            if isinstance(op, (ast.Is, ast.IsNot)) and is_none(r) and isinstance(e.left, ast.Attribute) and e.left.attr == "tzinfo":
                v, t = self.expr(e.left.value, env, pre, pure)
                if t != "datetime":
                    raise U(e, ".tzinfo of a %s" % t)
                c = "tzinfo_is_none %s" % paren(v)
                return (c if isinstance(op, ast.Is) else "negb (%s)" % c), "bool"
            if isinstance(op, (ast.Eq, ast.NotEq)):
                a, ta = self.expr(e.left, env, pre, pure)
                b, tb = self.expr(r, env, pre, pure)
                if ta != "text" or tb != "text":
                    raise U(e, "== of a %s and a %s" % (ta, tb))
                c = "PyStr.str_eqb %s %s" % (paren(a), paren(b))
                return (c if isinstance(op, ast.Eq) else "negb (%s)" % c), "bool"
            raise U(e, "comparison outside the subset")
        if isinstance(e, ast.Attribute):
            if is_name(e.value, "self"):
                if e.attr in self.done and self.done[e.attr]["deco"] == "cached_property" and not self.done[e.attr]["params"]:
                    spec = self.done[e.attr]
                    if [o for o in spec["oracles"] if o not in self.spec["oracles"]] or spec["ret"][0] != "plain":
                        raise U(e, "self.%s needs oracles %s does not have" % (e.attr, self.name))
                    return self.hoist(e, pre, pure, "call", "%s %s headers" % (e.attr, " ".join(spec["oracles"]))), spec["ret"][1]
                raise U(e, "self.%s" % e.attr)
            if e.attr == "port":
                v, t = self.expr(e.value, env, pre, pure)
                if t != "url":
                    raise U(e, ".port of a %s" % t)
                self.hoist(e, pre, pure, "oracle", "%s %s" % (self.oracle(e, "port_ok"), paren(v)))
                return "tt", "unit"
            raise U(e, "attribute .%s" % e.attr)
        if isinstance(e, ast.ListComp):
            b, v, vt, it = self.comp(e, env, pre, pure)
            if "list:" + vt not in COQ_TYPE:
                raise U(e, "list of %s" % vt)
            return "map (fun %s => %s) %s" % (b, v, paren(it)), "list:" + vt
        if isinstance(e, ast.GeneratorExp):
            raise U(e, "generator expression outside any()")
        if isinstance(e, ast.Call):
            return self.call(e, env, pre, pure)
        raise U(e, "expression %s outside the subset" % type(e).__name__)

    def comp(self, e, env, pre, pure):
        """-> (lambda binder, element text, element type, the filtered iterable)"""
        if len(e.generators) != 1:
            raise U(e, "nested comprehension")
        g = e.generators[0]
        if g.is_async or not is_name(g.target) or len(g.ifs) > 1:
            raise U(e, "comprehension shape")
        if g.target.id in SPECIAL or g.target.id in env:
            raise U(e, "comprehension variable %s shadows a name" % g.target.id)
        it, itt = self.expr(g.iter, env, pre, pure)
        if not itt.startswith("list:"):
            raise U(g.iter, "iteration over a %s" % itt)
        env2 = dict(env)
        env2[g.target.id] = itt[5:]
        b = "v_%s" % g.target.id
        if g.ifs:
            c, ct = self.expr(g.ifs[0], env2, [], True)
            it = "filter (fun %s => %s) %s" % (b, self.truthy(g.ifs[0], c, ct), paren(it))
        v, vt = self.expr(e.elt, env2, [], True)
        return b, v, vt, it

    def call(self, e, env, pre, pure):
        f = e.func
        if [a for a in e.args if isinstance(a, ast.Starred)] or [k for k in e.keywords if k.arg is None]:
            raise U(e, "* / ** arguments")
        if isinstance(f, ast.Name):
            if f.id in env:
                raise U(e, "call of a local")
            if f.id == "int" and len(e.args) == 1 and not e.keywords:
                v, t = self.expr(e.args[0], env, pre, pure)
                if t != "text":
                    raise U(e, "int() of a %s" % t)
                return self.hoist(e, pre, pure, "oracle", "%s %s" % (self.oracle(e, "int_of"), paren(v))), "Z"
            if f.id == "max" and len(e.args) == 2 and not e.keywords:
                a, ta = self.expr(e.args[0], env, pre, pure)
                b, tb = self.expr(e.args[1], env, pre, pure)
                if ta != "Z" or tb != "Z":
                    raise U(e, "max of a %s and a %s" % (ta, tb))
                return "Z.max %s %s" % (paren(a), paren(b)), "Z"
            if f.id == "any" and len(e.args) == 1 and not e.keywords and isinstance(e.args[0], ast.GeneratorExp):
                b, v, vt, it = self.comp(e.args[0], env, pre, pure)
                return "existsb (fun %s => %s) %s" % (b, self.truthy(e, v, vt), paren(it)), "bool"
            if f.id == "parsedate_to_datetime" and len(e.args) == 1 and not e.keywords:
                v, t = self.expr(e.args[0], env, pre, pure)
                if t != "text":
                    raise U(e, "parsedate_to_datetime of a %s" % t)
                return self.hoist(e, pre, pure, "oracle", "%s %s" % (self.oracle(e, "parsedate"), paren(v))), "datetime"
            if f.id == "URL" and not e.args and len(e.keywords) == 1 and e.keywords[0].arg == "url":
                v, t = self.expr(e.keywords[0].value, env, pre, pure)
                if t != "text" or not re.fullmatch(r"v_\w+", v):
                    raise U(e, "URL(url=...) of something else than a str variable")
                if pure:
                    raise U(e, "URL() inside a comprehension / boolean operator")
                i = self.fresh()
                pre.append(("oracle", "%s %s" % (self.oracle(e, "urlsplit_ok"), v), "_", "e%d" % i))
                return v, "url"
            if f.id == "MediaType" and len(e.args) == 1 and not e.keywords:
                v, t = self.expr(e.args[0], env, pre, pure)
                if t != "text":
                    raise U(e, "MediaType of a %s" % t)
                return "%s %s" % (self.oracle(e, "media_type_new"), paren(v)), "media"
            raise U(e, "call of %s" % f.id)
        if isinstance(f, ast.Attribute):
            if (f.attr == "get" and isinstance(f.value, ast.Attribute) and f.value.attr == "headers" and is_name(f.value.value, "self")):
                if len(e.args) != 2 or e.keywords or not isinstance(e.args[0], ast.Constant) or not isinstance(e.args[0].value, str):
                    raise U(e, "self.headers.get(...) shape")
                key = e.args[0].value
                if not key.isascii():
                    raise U(e, "header name not ascii")
                if is_none(e.args[1]):
                    return "get_opt headers %s" % textlit(key.lower()), "opt_text"
                d, dt = self.expr(e.args[1], env, pre, pure)
                if dt != "text":
                    raise U(e, "default of headers.get is a %s" % dt)
                return "get_or headers %s %s" % (textlit(key.lower()), paren(d)), "text"
            if f.attr == "strip" and not e.args and not e.keywords:
                v, t = self.expr(f.value, env, pre, pure)
                if t != "text":
                    raise U(e, ".strip() of a %s" % t)
                return "PyStr.strip_ws %s" % paren(v), "text"
            if (f.attr == "split" and len(e.args) == 1 and not e.keywords and isinstance(e.args[0], ast.Constant)
                    and isinstance(e.args[0].value, str) and len(e.args[0].value) == 1):
                v, t = self.expr(f.value, env, pre, pure)
                if t != "text":
                    raise U(e, ".split() of a %s" % t)
                return "PyStr.split %s %s" % (textlit(e.args[0].value), paren(v)), "list:text"
            if (f.attr == "replace" and not e.args and len(e.keywords) == 1 and e.keywords[0].arg == "tzinfo"
                    and isinstance(e.keywords[0].value, ast.Attribute) and e.keywords[0].value.attr == "utc"
                    and is_name(e.keywords[0].value.value, "timezone") and "timezone" not in env):
                v, t = self.expr(f.value, env, pre, pure)
                if t != "datetime":
                    raise U(e, ".replace(tzinfo=) of a %s" % t)
                return "replace_tzinfo_utc %s" % paren(v), "datetime"
            if f.attr == "match" and len(e.args) == 1 and not e.keywords:
                v, t = self.expr(f.value, env, pre, pure)
                a, ta = self.expr(e.args[0], env, pre, pure)
                if t != "media" or ta != "text":
                    raise U(e, ".match of a %s with a %s" % (t, ta))
                return "%s %s %s" % (self.oracle(e, "media_match"), paren(v), paren(a)), "bool"
            raise U(e, "method .%s" % f.attr)
        raise U(e, "call shape")


def check_module(tree):
    """the global names the accessors use are what the translation takes them for"""
    bound = {}
    for n in ast.walk(tree):
        if isinstance(n, ast.ImportFrom):
            for a in n.names:
                bound.setdefault(a.asname or a.name, []).append((n.module, n.level, a.name))
        elif isinstance(n, ast.Import):
            for a in n.names:
                bound.setdefault((a.asname or a.name).split(".")[0], []).append(("import", 0, a.name))
    for n in tree.body:
        if isinstance(n, (ast.FunctionDef, ast.AsyncFunctionDef, ast.ClassDef)):
            bound.setdefault(n.name, []).append(("def", 0, n.name))
        elif isinstance(n, (ast.Assign, ast.AnnAssign, ast.AugAssign)):
            for t in ast.walk(n):
                if isinstance(t, ast.Name) and isinstance(t.ctx, ast.Store):
                    bound.setdefault(t.id, []).append(("assign", 0, t.id))
    for name, want in IMPORTS.items():
        if bound.get(name) != [want]:
            raise Unsupported(FILE, "%s is not (only) `from %s%s import %s`: %s" % (name, "." * want[1], want[0], want[2], bound.get(name)))
    for name in BUILTINS:
        if name in bound:
            raise Unsupported(FILE, "the builtin %s is rebound in the module" % name)


def check_headers(repo):
    """Headers.__getitem__ is `return self._dict[key.lower()]`, and Headers does not define get"""
    tree = ast.parse(open(os.path.join(repo, DS_FILE)).read())
    cls = [n for n in tree.body if isinstance(n, ast.ClassDef) and n.name == "Headers"]
    if len(cls) != 1:
        raise Unsupported(DS_FILE, "class Headers")
    meths = {n.name: n for n in cls[0].body if isinstance(n, (ast.FunctionDef, ast.AsyncFunctionDef))}
    if "get" in meths or "__getitem__" not in meths or "__getattribute__" in meths or "__getattr__" in meths:
        raise Unsupported(DS_FILE, "Headers defines get / lacks __getitem__")
    gi = meths["__getitem__"]
    want = ast.parse("def __getitem__(self, key):\n    return self._dict[key.lower()]\n").body[0]
    if gi.decorator_list or [a.arg for a in gi.args.args] != ["self", "key"] or ast.dump(ast.Module(body=gi.body, type_ignores=[])) != ast.dump(ast.Module(body=want.body, type_ignores=[])):
        raise U(gi, "Headers.__getitem__ is not `return self._dict[key.lower()]`")
    bases = [ast.unparse(b) for b in cls[0].bases]
    if bases != ["typing.Mapping[str, str]"]:
        raise U(cls[0], "bases of Headers: %s" % bases)


def translate_all(repo):
    check_headers(repo)
    tree = ast.parse(open(os.path.join(repo, FILE)).read())
    check_module(tree)
    cls = [n for n in tree.body if isinstance(n, ast.ClassDef) and n.name == CLASS]
    if len(cls) != 1:
        raise Unsupported(FILE, "class %s" % CLASS)
    out, done = [], {}
    for name, spec in TARGETS:
        fns = [n for n in cls[0].body if isinstance(n, (ast.FunctionDef, ast.AsyncFunctionDef)) and n.name == name]
        if len(fns) != 1 or not isinstance(fns[0], ast.FunctionDef):
            raise Unsupported(FILE, "%s.%s is not defined exactly once as a plain method" % (CLASS, name))
        out.append(Accessor(fns[0], name, spec, done))
        done[name] = spec
    # nothing else in the class body may rebind an accessor
    for n in cls[0].body:
        if isinstance(n, (ast.Assign, ast.AnnAssign, ast.AugAssign)):
            raise U(n, "assignment in the class body")
    return out


def generated_text(repo):
    return HEADER + "".join(m.text for m in translate_all(repo))


NAME = "%s/Translated.v (%s)" % (PID, ", ".join(n for n, _ in TARGETS))


def check(repo=None, verif=None, timeout=180, keep=False):
    """-> [(name, ok, detail)]; ok None = not applicable (refused / coqc timed out), False = broken"""
    import shutil
    import time
    repo = repo or os.environ.get("BAIZE_REPO", "/repo")
    verif = verif or VERIF
    coq = os.path.join(verif, "coq")
    name = NAME
    t0 = time.time()
    try:
        text = generated_text(repo)
    except Unsupported as e:
        return [(name, None, "the translator does not understand the current source (it refuses rather than guess; this says "
                             "nothing about the behaviour of the code, the case-based tie decides alone): %s" % e)]
    except (OSError, SyntaxError) as e:
        return [(name, False, "cannot read the source: %s: %s" % (type(e).__name__, e))]
    except Exception as e:      # a defect of the translator itself: also closed
        return [(name, None, "the translator failed on the current source (%s: %s); the case-based tie decides alone" % (type(e).__name__, e))]
    bad = [t for t in P.FORBIDDEN_TOKENS if re.search(r"\b%s\b" % t, P.strip_coq_comments(text.replace(HEADER, "")))]
    if bad:
        return [(name, False, "generated text contains %s" % bad)]
    tv = os.path.join(coq, "theories", PID, "Translated.v")
    tsrc = open(tv).read()
    block = P.TEMPLATE_BLOCK % {"pid": PID}
    if tsrc.count(block) != 1:
        return [(name, False, "%s does not contain the marked Require block exactly once" % tv)]
    thms = re.findall(r"^\s*Theorem\s+(\w+)", P.strip_coq_comments(tsrc), re.M)
    printed = re.findall(r"Print Assumptions\s+(\w+)\s*\.", P.strip_coq_comments(tsrc))
    if not thms or [t for t in thms if t not in printed]:
        return [(name, False, "Translated.v: no theorem, or a theorem without Print Assumptions")]
    d = os.path.join(verif, ".work", "translate-%s-%d" % (PID, os.getpid()))
    fresh = os.path.join(d, "Fresh")
    shutil.rmtree(d, ignore_errors=True)
    os.makedirs(fresh)
    try:
        with open(os.path.join(fresh, "Generated.v"), "w") as f:
            f.write(text)
        with open(os.path.join(fresh, "Translated.v"), "w") as f:
            f.write(tsrc.replace(block, P.FRESH_BLOCK))
        base = ["-Q", "theories", "Baize", "-Q", fresh, "Fresh"]
        rc, out, err = P.run_coqc(base + [os.path.join(fresh, "Generated.v")], coq, timeout)
        if rc == 124:
            return [(name, None, "coqc did not finish within %d s; no verdict from the source-level tie in this run" % timeout)]
        if rc != 0:
            return [(name, False, "the generated definitions do not compile (rc %d): %s" % (rc, (err or out)[-600:]))]
        rc, out, err = P.run_coqc(base + [os.path.join(fresh, "Translated.v")], coq, timeout)
        if rc == 124:
            return [(name, None, "coqc did not finish within %d s; no verdict from the source-level tie in this run" % timeout)]
        if rc != 0:
            return [(name, False, "the proof that the accessors translated from the current source equal the model's and never "
                                  "crash no longer checks (rc %d): %s" % (rc, " ".join((err or out).split())[-600:]))]
        closed = out.count("Closed under the global context")
        if closed != len(printed) or "Axioms:" in out:
            return [(name, False, "Print Assumptions: %d of %d closed under the global context: %s" % (closed, len(printed), out[-300:]))]
        ref = os.path.join(coq, "theories", PID, "Generated_ref.v")
        same = os.path.exists(ref) and P.definitions_only(open(ref).read()) == P.definitions_only(text)
        return [(name, True, "%d theorem(s) (%s) re-checked against the definitions translated from %s (%s the committed "
                             "reference copy), closed under the global context, %.1f s" % (
                                 len(thms), ", ".join(thms), FILE, "identical to" if same else "DIFFERENT from", time.time() - t0))]
    finally:
        if not keep:
            shutil.rmtree(d, ignore_errors=True)


def obligations(repo=None, verif=None, timeout=180):
    from concurrent.futures import ThreadPoolExecutor
    with ThreadPoolExecutor(2) as ex:
        a = ex.submit(check, repo, verif, timeout)
        b = ex.submit(P.pystr_check, verif, timeout)
        return list(a.result()) + list(b.result())


def main():
    repo = os.environ.get("BAIZE_REPO", "/repo")
    if "--emit" in sys.argv:
        try:
            sys.stdout.write(generated_text(repo))
        except Unsupported as e:
            print("refused: %s" % e, file=sys.stderr)
            return 1
        return 0
    rc = 0
    res = check(repo, keep="--keep" in sys.argv) if "--only" in sys.argv else obligations(repo)
    for name, ok, detail in res:
        print("%-60s %s  %s" % (name, {True: "holds", False: "BROKEN", None: "n/a"}[ok], detail))
        if ok is False:
            rc = 1
    return rc


if __name__ == "__main__":
    sys.exit(main())
