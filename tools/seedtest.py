#!/usr/bin/env python3
"""Confirm a seeded property-breaking change and run the registered checks against it.

  tools/seedtest.py <seed-dir> [Cxx ...]      (seed-dir holds patch.diff, demo.py, meta.json)

Steps (all in a scratch git worktree of /repo under /tmp/seedrun, removed afterwards; /repo itself is
never modified, the checks are pointed at the scratch tree with BAIZE_REPO, evidence redirected):
  1. demo.py on the unchanged tree           -> must exit 0
  2. git apply patch.diff; demo.py           -> must exit non-zero
  3. pinned test suite on the changed tree   -> the set of passing tests must equal BASELINE stable_pass
  4. ./check Cxx quick for every property given (default: meta.json "property")
Results are written back into meta.json ("confirmed", "checks").
"""
import json, os, re, subprocess, sys, shutil, time

VERIF = os.path.dirname(os.path.dirname(os.path.abspath(__file__)))
PY = "/venv/bin/python"


def sh(cmd, **kw):
    return subprocess.run(cmd, shell=True, capture_output=True, text=True, **kw)


def main():
    sd = os.path.abspath(sys.argv[1])
    meta = json.load(open(os.path.join(sd, "meta.json")))
    props = sys.argv[2:] or meta.get("check_with") or [meta["property"]]
    tier = os.environ.get("SEED_TIER", "quick")
    name = os.path.basename(sd.rstrip("/"))
    wt = "/tmp/seedrun/" + name
    os.makedirs("/tmp/seedrun", exist_ok=True)
    sh("git -C /repo worktree remove --force %s" % wt)
    shutil.rmtree(wt, ignore_errors=True)
    r = sh("git -C /repo worktree add --detach %s HEAD" % wt)
    assert r.returncode == 0, r.stderr
    res = {"base_commit": sh("git -C /repo rev-parse --short HEAD").stdout.strip()}
    try:
        env = dict(os.environ, PYTHONPATH=wt, PYTHONDONTWRITEBYTECODE="1", PYTHONHASHSEED="0")
        d0 = sh("timeout 120 %s %s" % (PY, os.path.join(sd, "demo.py")), env=env, cwd="/tmp/seedrun")
        res["demo_unchanged_exit"] = d0.returncode
        a = sh("git -C %s apply %s" % (wt, os.path.join(sd, "patch.diff")))
        if a.returncode != 0:   # the library moved on (fix commits): try a three-way merge of the patch
            a = sh("git -C %s apply -3 %s" % (wt, os.path.join(sd, "patch.diff")))
            res["applied_three_way"] = a.returncode == 0
            sh("git -C %s reset -q" % wt)
        assert a.returncode == 0, "patch does not apply: " + a.stderr
        d1 = sh("timeout 120 %s %s" % (PY, os.path.join(sd, "demo.py")), env=env, cwd="/tmp/seedrun")
        res["demo_changed_exit"] = d1.returncode
        res["demo_changed_tail"] = (d1.stdout + d1.stderr)[-400:]
        t = sh("cd %s && timeout 1200 %s -m pytest -q -rA -p no:cacheprovider --timeout=900 --continue-on-collection-errors 2>&1"
               % (wt, PY), env=dict(os.environ, PYTHONDONTWRITEBYTECODE="1"))
        passed = set()
        for line in t.stdout.splitlines():
            m = re.match(r"PASSED (.+?)\s*$", line)
            if m:
                f, _, rest = m.group(1).partition("::")
                passed.add(f[:-3].replace("/", ".") + "::" + rest)
        base = set(json.load(open("/root/.vp/BASELINE.json"))["stable_pass"])
        res["suite_passed"] = len(passed)
        res["suite_same_as_baseline"] = passed == base
        res["suite_lost"] = sorted(base - passed)[:5]
        res["confirmed"] = (d0.returncode == 0 and d1.returncode != 0 and passed == base)
        checks = {}
        for pid in props:
            evd = "/tmp/seedrun/ev-" + name
            rp = "/tmp/seedrun/replay-%s-%s.json" % (name, pid)
            t0 = time.time()
            c = sh("./check %s %s" % (pid, tier), cwd=VERIF,
                   env=dict(os.environ, BAIZE_REPO=wt, VERIF_EVIDENCE_DIR=evd, VERIF_REPLAY_OUT=rp))
            out = c.stdout + c.stderr
            vio = [l for l in out.splitlines() if l.startswith("VIOLATION")]
            verdict = [l.strip() for l in out.splitlines() if l.strip().startswith(("verdict:", "failing input:", "broken:"))]
            checks[pid] = {"exit": c.returncode, "violation_line": vio[0] if vio else None,
                           "detail": [v[:300] for v in verdict[:4]], "wall_s": round(time.time() - t0, 1),
                           "caught": c.returncode == 1 and bool(vio),
                           "with_failing_input": bool(vio) and "no-failing-input-found" not in vio[0]}
            if os.path.exists(rp):
                shutil.copy(rp, os.path.join(sd, "replay-%s.json" % pid))
                os.remove(rp)
            shutil.rmtree(evd, ignore_errors=True)
        res["checks"] = checks
    finally:
        sh("git -C /repo worktree remove --force %s" % wt)
        shutil.rmtree(wt, ignore_errors=True)
    meta["verification"] = res
    json.dump(meta, open(os.path.join(sd, "meta.json"), "w"), indent=1)
    print(json.dumps(res, indent=1))


if __name__ == "__main__":
    main()
