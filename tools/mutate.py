#!/venv/bin/python
"""Mutation run: how many small, syntactically plausible changes to baize do the checks notice?

    tools/mutate.py list  [--files f ...]                     enumerate the mutants (one JSON line each)
    tools/mutate.py run   [--sample N] [--seed S] [--jobs J] [--files f ...] [--out file]
    tools/mutate.py report [file]

A mutant = one AST-level edit of one baize file (comparison operator swapped, and/or swapped, `not` dropped, small
integer constant +-1, + <-> -, a branch condition forced, a statement deleted, slice bound dropped).  For each sampled mutant:

  1. the mutated package is written to a scratch copy of baize under /tmp/mutrun/<k> (removed afterwards; /repo is never touched);
  2. it must import;
  3. the quick tier of every check whose property is anchored in the file (properties.jsonl) is run against the copy
     (BAIZE_REPO), fastest check first, until one reports a VIOLATION -> "killed";
  4. a mutant no check notices is run through the pinned test suite: if the suite's passing set changes, the tests
     already notice it ("suite"); otherwise it is a "survivor" — an equivalent mutant or a gap, to be looked at by hand.

This is a measurement of the correspondence and the oracles (exploration in support of the tie); it decides no property.
"""
import argparse
import ast
import copy
import json
import os
import random
import re
import shutil
import subprocess
import sys
import time
from concurrent.futures import ThreadPoolExecutor

VERIF = os.path.dirname(os.path.dirname(os.path.abspath(__file__)))
REPO = "/repo"
PY = "/venv/bin/python"
SCRATCH = "/tmp/mutrun"

# rough quick-tier wall seconds, to run the fastest anchored check first
COST = dict(C01=30, C02=11, C03=9, C04=9, C05=9, C06=50, C07=11, C08=40, C09=11, C10=50, C11=25, C12=11, C13=10, C14=60,
            C15=40, C16=13, C17=8, C18=9, C19=8, C20=15)


def anchors():
    m = {}
    for line in open(os.path.join(VERIF, "properties.jsonl")):
        p = json.loads(line)
        for f in p["anchors"]["files"]:
            m.setdefault(f, []).append(p["id"])
    return m


CMP = {ast.Lt: ast.LtE, ast.LtE: ast.Lt, ast.Gt: ast.GtE, ast.GtE: ast.Gt, ast.Eq: ast.NotEq, ast.NotEq: ast.Eq,
       ast.In: ast.NotIn, ast.NotIn: ast.In, ast.Is: ast.IsNot, ast.IsNot: ast.Is}


class Collector(ast.NodeVisitor):
    """walks the tree and records (path-to-node, operator, detail); paths are lists of (field, index)"""

    def __init__(self):
        self.out = []
        self.path = []

    def generic_visit(self, node):
        for field, value in ast.iter_fields(node):
            if field in ("annotation", "returns", "decorator_list", "bases", "keywords") and not isinstance(node, ast.Call):
                continue
            if isinstance(value, list):
                for i, item in enumerate(value):
                    if isinstance(item, ast.AST):
                        self.path.append((field, i))
                        self.visit(item)
                        self.path.pop()
            elif isinstance(value, ast.AST):
                self.path.append((field, None))
                self.visit(value)
                self.path.pop()

    def add(self, node, op, detail=""):
        self.out.append((list(self.path), op, detail, getattr(node, "lineno", 0)))

    def visit_If(self, node):
        t = ast.unparse(node.test)
        if "TYPE_CHECKING" in t or "sys.version_info" in t:
            return
        self.add(node, "if-true")
        self.add(node, "if-false")
        self.generic_visit(node)

    def visit_Compare(self, node):
        for i, o in enumerate(node.ops):
            if type(o) in CMP:
                self.add(node, "cmp", str(i))
        self.generic_visit(node)

    def visit_BoolOp(self, node):
        self.add(node, "boolop")
        self.generic_visit(node)

    def visit_UnaryOp(self, node):
        if isinstance(node.op, ast.Not):
            self.add(node, "not-drop")
        self.generic_visit(node)

    def visit_BinOp(self, node):
        if isinstance(node.op, (ast.Add, ast.Sub)) and not isinstance(node.left, ast.Constant) or \
                isinstance(node.op, (ast.Add, ast.Sub)) and isinstance(getattr(node.left, "value", None), int):
            self.add(node, "addsub")
        self.generic_visit(node)

    def visit_Constant(self, node):
        if isinstance(node.value, bool):
            self.add(node, "bool-flip")
        elif isinstance(node.value, int) and abs(node.value) <= 4096:
            self.add(node, "int+1")
            self.add(node, "int-1")

    def visit_Slice(self, node):
        if node.lower is not None:
            self.add(node, "slice-lower-drop")
        if node.upper is not None:
            self.add(node, "slice-upper-drop")
        self.generic_visit(node)

    def _stmt(self, node):
        self.add(node, "stmt-del")
        self.generic_visit(node)

    def visit_Expr(self, node):
        if isinstance(node.value, ast.Constant):      # docstring
            return
        self._stmt(node)

    visit_Assign = visit_AugAssign = visit_Return = visit_Raise = visit_Break = visit_Continue = visit_Delete = _stmt

    def visit_ClassDef(self, node):
        self.generic_visit(node)

    def visit_AnnAssign(self, node):
        if node.value is not None:
            self.path.append(("value", None))
            self.visit(node.value)
            self.path.pop()

    def visit_Assert(self, node):
        return

    def visit_Import(self, node):
        return

    visit_ImportFrom = visit_Import


def node_at(tree, path):
    parent, key = None, None
    n = tree
    for field, i in path:
        parent, key = n, (field, i)
        n = getattr(n, field)
        if i is not None:
            n = n[i]
    return parent, key, n


def set_at(parent, key, new):
    field, i = key
    if i is None:
        setattr(parent, field, new)
    else:
        getattr(parent, field)[i] = new


def apply_mutation(tree, path, op, detail):
    tree = copy.deepcopy(tree)
    parent, key, n = node_at(tree, path)
    if op == "if-true":
        n.test = ast.Constant(True)
    elif op == "if-false":
        n.test = ast.Constant(False)
    elif op == "cmp":
        i = int(detail)
        n.ops[i] = CMP[type(n.ops[i])]()
    elif op == "boolop":
        n.op = ast.Or() if isinstance(n.op, ast.And) else ast.And()
    elif op == "not-drop":
        set_at(parent, key, n.operand)
    elif op == "addsub":
        n.op = ast.Sub() if isinstance(n.op, ast.Add) else ast.Add()
    elif op == "bool-flip":
        n.value = not n.value
    elif op == "int+1":
        n.value = n.value + 1
    elif op == "int-1":
        n.value = n.value - 1
    elif op == "slice-lower-drop":
        n.lower = None
    elif op == "slice-upper-drop":
        n.upper = None
    elif op == "stmt-del":
        set_at(parent, key, ast.Pass())
    else:
        raise ValueError(op)
    ast.fix_missing_locations(tree)
    return ast.unparse(tree)


def enumerate_mutants(files):
    out = []
    for f in files:
        src = open(os.path.join(REPO, f), encoding="utf-8").read()
        tree = ast.parse(src)
        c = Collector()
        c.visit(tree)
        lines = src.split("\n")
        for path, op, detail, lineno in c.out:
            out.append({"file": f, "line": lineno, "op": op, "detail": detail, "path": path,
                        "text": lines[lineno - 1].strip()[:100] if lineno else ""})
    return out


def sh(cmd, env=None, cwd=None, timeout=None):
    return subprocess.run(cmd, shell=True, capture_output=True, text=True, env=env, cwd=cwd, timeout=timeout)


def passing_set(tree):
    t = sh("cd %s && timeout 1200 %s -m pytest -q -rA -p no:cacheprovider --timeout=900 --continue-on-collection-errors 2>&1"
           % (tree, PY), env=dict(os.environ, PYTHONPATH=tree, PYTHONDONTWRITEBYTECODE="1"))
    passed = set()
    for line in t.stdout.splitlines():
        m = re.match(r"PASSED (.+?)\s*$", line)
        if m:
            f, _, rest = m.group(1).partition("::")
            passed.add(f[:-3].replace("/", ".") + "::" + rest)
    return passed


def run_one(k, mut, anch, ncpu, tier_escalate):
    wt = os.path.join(SCRATCH, "m%d" % k)
    shutil.rmtree(wt, ignore_errors=True)
    os.makedirs(wt)
    res = dict(mut)
    res.pop("path", None)
    t0 = time.time()
    try:
        for d in ("baize", "tests"):
            shutil.copytree(os.path.join(REPO, d), os.path.join(wt, d))
        for f in ("pyproject.toml", "README.md"):
            shutil.copy(os.path.join(REPO, f), wt)
        tree = ast.parse(open(os.path.join(REPO, mut["file"]), encoding="utf-8").read())
        src = apply_mutation(tree, mut["path"], mut["op"], mut["detail"])
        open(os.path.join(wt, mut["file"]), "w", encoding="utf-8").write(src + "\n")
        res["mutated_line"] = next((l.strip()[:100] for a, l in zip(ast.unparse(tree).split("\n"), src.split("\n")) if a != l), "")
        env = dict(os.environ, PYTHONPATH=wt, PYTHONDONTWRITEBYTECODE="1")
        mods = "baize.asgi, baize.wsgi, baize.multipart, baize.multipart_helper, baize.staticfiles"
        r = sh("%s -c 'import %s'" % (PY, mods), env=env, timeout=60)
        if r.returncode != 0:
            res["outcome"] = "import-error"
            return res
        pids = sorted(anch.get(mut["file"], []), key=lambda p: COST.get(p, 30))
        res["checks_run"] = []
        for pid in pids:
            cenv = dict(os.environ, BAIZE_REPO=wt, VERIF_EVIDENCE_DIR=os.path.join(wt, "ev"),
                        VERIF_REPLAY_OUT=os.path.join(wt, "replay-%s.json" % pid), VERIF_NCPU=str(ncpu),
                        VERIF_PROOFS_CACHED="1")
            if not tier_escalate:
                cenv["VERIF_NO_ESCALATE"] = "1"
            try:
                c = sh("./check %s quick" % pid, cwd=VERIF, env=cenv, timeout=3600)
            except subprocess.TimeoutExpired:
                res["checks_run"].append(pid + ":timeout")
                continue
            out = c.stdout + c.stderr
            vio = [l for l in out.splitlines() if l.startswith("VIOLATION")]
            res["checks_run"].append(pid)
            if c.returncode == 1 and vio:
                res["outcome"] = "killed"
                res["killed_by"] = pid
                res["with_input"] = "no-failing-input-found" not in vio[0]
                verdict = [l.strip() for l in out.splitlines() if l.strip().startswith("verdict:")]
                res["verdict"] = verdict[0][:200] if verdict else ""
                return res
            if c.returncode not in (0, 1):
                res["outcome"] = "check-error"
                res["detail"] = out[-400:]
                return res
        base = set(json.load(open("/root/.vp/BASELINE.json"))["stable_pass"])
        passed = passing_set(wt)
        if passed != base:
            res["outcome"] = "suite"
            res["suite_lost"] = sorted(base - passed)[:3]
        else:
            res["outcome"] = "survivor"
        return res
    except Exception as e:  # noqa
        res["outcome"] = "tool-error"
        res["detail"] = repr(e)[:300]
        return res
    finally:
        res["wall_s"] = round(time.time() - t0, 1)
        shutil.rmtree(wt, ignore_errors=True)


def recheck_one(k, res, ncpu):
    """a survivor of the anchored checks: does any OTHER check notice it?  (the anchors of properties.jsonl name the files a
    property is about, not every file its checks execute)"""
    anch = anchors()
    mut = next((m for m in enumerate_mutants([res["file"]])
                if (m["line"], m["op"], m["detail"], m["text"]) == (res["line"], res["op"], res["detail"], res["text"])), None)
    out = dict(res)
    if mut is None:
        out["recheck"] = "mutant-not-found"
        return out
    # the anchored checks again (they may have been strengthened since the run), then all the others
    mine = sorted(anch.get(res["file"], []), key=lambda p: COST[p])
    others = mine + sorted(set(COST) - set(mine), key=lambda p: COST[p])
    r = run_one(10000 + k, mut, {res["file"]: others}, ncpu, False)
    out["recheck"] = r["outcome"]
    out["recheck_killed_by"] = r.get("killed_by")
    out["recheck_verdict"] = r.get("verdict")
    out["recheck_wall_s"] = r.get("wall_s")
    return out


def recheck(path, jobs):
    rows = [json.loads(l) for l in open(path)]
    surv = [r for r in rows if r["outcome"] == "survivor"]
    outp = path.replace(".jsonl", "-recheck.jsonl")
    done = set()
    if os.path.exists(outp):
        done = {(d["file"], d["line"], d["op"], d["detail"]) for d in map(json.loads, open(outp))}
    todo = [r for r in surv if (r["file"], r["line"], r["op"], r["detail"]) not in done]
    print("survivors: %d, to re-check against the other checks: %d" % (len(surv), len(todo)), flush=True)
    os.makedirs(SCRATCH, exist_ok=True)
    ncpu = max(2, 16 // jobs)
    with ThreadPoolExecutor(jobs) as ex, open(outp, "a") as f:
        for o in ex.map(lambda kr: recheck_one(kr[0], kr[1], ncpu), enumerate(todo)):
            f.write(json.dumps(o) + "\n")
            f.flush()
            print("%-9s %s:%s %s -> %s %s" % (o["recheck"], o["file"], o["line"], o["op"], o.get("recheck_killed_by") or "",
                                             (o.get("recheck_verdict") or "")[:120]), flush=True)


def main():
    ap = argparse.ArgumentParser()
    ap.add_argument("cmd", choices=["list", "run", "report", "recheck"])
    ap.add_argument("arg", nargs="?")
    ap.add_argument("--files", nargs="*")
    ap.add_argument("--sample", type=int, default=100)
    ap.add_argument("--seed", type=int, default=1)
    ap.add_argument("--jobs", type=int, default=4)
    ap.add_argument("--ops", nargs="*")
    ap.add_argument("--escalate", action="store_true", help="let the fingerprint escalation generate the thorough tier's cases")
    ap.add_argument("--out", default=os.path.join(VERIF, ".work", "mutation", "results.jsonl"))
    a = ap.parse_args()
    anch = anchors()
    files = a.files or sorted(anch)
    if a.cmd == "list":
        for m in enumerate_mutants(files):
            print(json.dumps(m))
        return
    if a.cmd == "report":
        report(a.arg or a.out)
        return
    if a.cmd == "recheck":
        recheck(a.arg or a.out, a.jobs)
        return
    muts = enumerate_mutants(files)
    if a.ops:
        muts = [m for m in muts if m["op"] in a.ops]
    rng = random.Random(a.seed)
    rng.shuffle(muts)
    muts = muts[:a.sample]
    os.makedirs(os.path.dirname(a.out), exist_ok=True)
    os.makedirs(SCRATCH, exist_ok=True)
    done = set()
    if os.path.exists(a.out):
        for l in open(a.out):
            d = json.loads(l)
            done.add((d["file"], d["line"], d["op"], d["detail"], d.get("text")))
    todo = [m for m in muts if (m["file"], m["line"], m["op"], m["detail"], m["text"]) not in done]
    print("mutants: %d total, %d sampled, %d to run" % (len(enumerate_mutants(files)), len(muts), len(todo)), flush=True)
    ncpu = max(2, 16 // a.jobs)
    with ThreadPoolExecutor(a.jobs) as ex, open(a.out, "a") as f:
        for res in ex.map(lambda km: run_one(km[0], km[1], anch, ncpu, a.escalate), enumerate(todo)):
            f.write(json.dumps(res) + "\n")
            f.flush()
            print("%-10s %s:%s %s %s  [%s] %s" % (res["outcome"], res["file"], res["line"], res["op"], res.get("killed_by", ""),
                                                res.get("mutated_line", ""), res.get("wall_s")), flush=True)
    report(a.out)


def report(path):
    rows = [json.loads(l) for l in open(path)]
    by = {}
    for r in rows:
        by.setdefault(r["outcome"], []).append(r)
    n = len(rows)
    print("\n%d mutants: " % n + ", ".join("%s %d" % (k, len(v)) for k, v in sorted(by.items())))
    valid = n - len(by.get("import-error", [])) - len(by.get("tool-error", []))
    k = len(by.get("killed", []))
    print("killed by a check: %d of %d that import (%.0f%%); with a failing input: %d; noticed only by the suite: %d; survivors: %d"
          % (k, valid, 100.0 * k / max(1, valid), sum(1 for r in by.get("killed", []) if r.get("with_input")),
             len(by.get("suite", [])), len(by.get("survivor", []))))
    for r in by.get("survivor", []) + by.get("suite", []) + by.get("check-error", []) + by.get("tool-error", []):
        print("  %-9s %s:%d %-16s %s   -> %s   (%s)" % (r["outcome"], r["file"], r["line"], r["op"] + " " + r["detail"], r["text"],
                                                        r.get("mutated_line", ""), ",".join(r.get("checks_run", []))))


if __name__ == "__main__":
    main()
