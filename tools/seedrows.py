import json,glob,os,re
old={}
# short texts of the rows of the previous revision (from git HEAD version of DESIGN.md)
import subprocess
prev=subprocess.run(['git','-C','/verif','show','HEAD:DESIGN.md'],capture_output=True,text=True).stdout
for m in re.finditer(r'^\| (C\d\d-\d) \| (.*?) \| (.*?) \| (.*?) \| (.*?) \|$', prev, re.M):
    old[m.group(1)]=(m.group(2),m.group(3))
new={
'C01-3':('PART state remembers how far the header block was searched and never resets the offset','a chunk edge inside one part\'s headers, then a later part with a shorter header block'),
'C01-4':('`_parse_headers` decodes the block once and splits it with `str.splitlines`','a name or filename holding VT, FF, FS–RS, NEL, U+2028, U+2029'),
'C01-5':('PART state raises "missing Content-Disposition" when a new part starts with a line break','chunk edge between the CR and the LF of a delimiter line'),
'C01-6':('`parse_async_stream` passes an empty chunk to the decoder as end of data','an empty chunk before the closing delimiter, helper used directly'),
'C02-5':('`judge_if_range` normalises the validator like `if_none_match` (drops `W/` and quotes)','If-Range carrying the weak form of the current ETag'),
'C02-6':('content-type set once in `__init__`, per-request assignments removed','one FileResponse object: a multi-range answer, then another request'),
'C02-7':('If-Range date compared as an instant through `time.mktime` (local time)','server zone with a non-zero UTC offset, If-Range with an HTTP date'),
'C03-5':('`number()` takes a digit string longer than the size\'s spelling for "beyond the file"','leading zeros: `bytes=00-` on a 1–9 byte file'),
'C03-6':('`first > last` checked only when a range opens a new block of the merge loop','a reversed spec starting inside the block of the others (`0-100,50-20`)'),
'C04-5':('ASGI multipart helper decodes a text field piece by piece','multi-byte character split across two http.request messages'),
'C04-6':('WSGI Router merges its path parameters into those of an enclosing Router','a Router nested below a Router, outer parameter not captured again'),
'C04-7':('WSGI FileResponse sets content-type once in `__init__`','one FileResponse object answers a multi-range request, then another'),
'C04-8':('ASGI Subpaths calls the mounted app with a copy of the scope','the request dispatched a second time after the Subpaths declined (fallback middleware)'),
'C05-5':('cookie token test as `^[…]+$` + `match`','cookie name or value ending in one LF'),
'C05-6':('FileResponse passes generated headers through the unchecked constructor path','download or file name with CR, LF or NUL'),
'C05-7':('download name NFC-normalised before the Latin-1 test, written un-normalised','decomposed name that becomes Latin-1 after composition'),
'C05-8':('one module-level dict of required SSE headers; the ASGI class adds `Connection` in place','both interface halves imported in one process, then a WSGI event stream'),
'C06-1':('ASGI event stream: queue drain before cancelling the relay removed','client disconnects while the one-slot queue holds an undelivered event'),
'C06-2':('WSGI stream: `yield from` rewritten as a `for` loop that skips empty chunks','server closes the iterable before the producer is exhausted'),
'C06-3':('ASGI: watcher cancelled after, not in, the `finally`','the user\'s generator raises its own exception'),
'C06-4':('WSGI event stream: wait for the relay with a timeout of one ping interval','early close while the producer is in a step longer than the interval'),
'C06-5':('WSGI event stream: `push_future.result()` instead of `cancel()` in the consumer\'s `finally`','more streams open than pool workers (relay job still queued), early close'),
'C06-6':('ASGI event stream: `aclose()` moved from the relay task to the consumer','disconnect while the producer is suspended inside a step'),
'C06-7':('ASGI disconnect watcher takes the message after the request body as the disconnect','an unread `http.request` message before `http.disconnect`'),
'C06-8':('ASGI event stream: ping deadline computed with `time.time()`, renewed only after a ping','wall clock stepped backwards by more than a ping interval, idle producer'),
'C07-3':('relative directory kept as `normpath` instead of `abspath`','working directory changed between configuration and request'),
'C07-4':('regular-file test weakened to "not a directory"','a socket, FIFO or device node inside the directory'),
'C07-5':('Pages redirects with a path-only Location','request path beginning with two slashes that names a directory'),
'C07-6':('`check_path_is_file` memoised with `lru_cache`','the tree changes after a path was requested once'),
'C07-7':('Pages remembers per object which directory served its index page','`/dir/` first, then `/dir` without slash on the same object'),
'C07-8':('`ensure_absolute_path` NFKC-normalises the result after the containment test','a segment U+2025 or two full-width full stops'),
'C08-3':('route pattern anchored `^…$` + `re.match`','path with one trailing LF'),
'C08-4':('WSGI Router treats an empty PATH_INFO as `/`','empty request path (router mounted at a bare prefix)'),
'C08-5':('parameters taken positionally from `match.groups()`','a decimal placeholder followed by another placeholder'),
'C08-6':('int, decimal and date patterns written with `\\d`','non-ASCII decimal digit in a typed segment'),
'C09-5':('plain host names looked up in a dict before the patterns are scanned','a pattern entry declared before a plain name it also matches'),
'C09-6':('Subpaths tries the entry that served the previous request first','overlapping entries and a history on one object'),
'C10-3':('`cached_property` drops a failed or cancelled awaitable result','disconnect before the final chunk, then a second access'),
'C10-4':('WSGI form joins `stream()` itself instead of using the cached body','urlencoded form accessed before body or `stream()`'),
'C10-5':('WSGI `stream()` reads at most Content-Length bytes, a missing one read as 0','chunked framing or an unusable Content-Length'),
'C10-6':('ASGI form widens its handler to `Exception` around `await self.body`','urlencoded form and a body read that fails (disconnect)'),
'C10-7':('ASGI body collected in one module-level bytearray reused across requests','an earlier request whose body read failed, or two concurrent requests'),
'C10-8':('WSGI `stream()` replays the cached body only if it is truthy','empty body cached through body/json/form, then `stream()`'),
'C11-5':('typed receives read straight from the server channel through `_receive_frame()`','a typed receive after the disconnect was delivered'),
'C11-6':('`accept()` checks `application_state` up front and forwards directly','a second task closes while `accept()` waits for connect'),
'C12-3':('`if_modified_since` compares datetimes after the `try` block','a date that parses to a naive datetime (`-0000`, no zone)'),
'C12-4':('decimal pattern extended to scientific notation','exponent beyond Decimal\'s limits: InvalidOperation'),
'C12-5':('`os.path.realpath` instead of `abspath`','request path with NUL'),
'C12-6':('`parse_qsl(max_num_fields=1000)` in `Request.form`','urlencoded body of more than 1000 fields'),
'C12-7':('the part-count error path calls `close()`/`aclose()` on every value read so far','more than 324 parts, one of them a text field'),
'C12-8':('a part with `filename*` only counts as a file; `UploadFile` keeps the last path component','`filename*` without `filename`'),
'C13-5':('`__setitem__` validation by two patterns copied from `http.client`','obs-fold shaped values (`a\\r\\n b`), NUL'),
'C13-6':('`update()` fast path merges the backing dict of a Headers argument','`update` with one Headers/MutableHeaders object holding dirty text'),
'C13-7':('checked header names taken from a module-level memo written before the check','the same dirty name offered twice in one process'),
'C13-8':('non-Latin-1 values passed through `email.header.Header.encode()`','a long value outside Latin-1: folded with LF'),
'C14-1':('`file_response` compares If-Modified-Since with `st_mtime`','a replacement that carries the old mtime (ctime moves only)'),
'C14-2':('`last_modified <= header_time + 1` instead of truncating both sides','change time exactly one whole second after the named second'),
'C14-3':('304 when the ETag matches OR the date passes','both validators, a size change within the named second'),
'C14-4':('list members stripped once at the end, after the `W/` test','a weak tag as non-first list member after a blank'),
'C14-5':('per-application cache of (stat_result, ETag), compared by whole-second fields','same-second, same-size rewrite on a long-lived object'),
'C14-6':('If-Modified-Since parsed with `parsedate` + `time.mktime`','server zone west of Greenwich, date-only revalidation'),
'C15-3':('pending-delimiter search limited to the last `len(b)+6` bytes','≥ 3 bytes of transport padding and a chunk edge inside it'),
'C15-4':('`receive_data` treats an empty chunk like `None` (end of data)','an empty chunk before the closing delimiter'),
'C15-5':('tail search folded into a helper that holds back `len(b)+2` bytes','chunk edge one byte before the end of `--b`'),
'C15-6':('memory limit counted once per field at its end','a field larger than the limit arriving in many chunks'),
'C15-7':('`pending_boundary_re` built from the unescaped delimiter','boundary with `+` or `?` and a chunk ending after the boundary text'),
'C15-8':('413 as soon as the field total reaches the limit while `more_data` is true','limit equal to the exact total, last bytes emitted before the delimiter is complete'),
'C16-5':('values matching the RFC 6265 cookie-value grammar are sent bare','a value that begins and ends with a double quote'),
'C16-6':('weekday and month names from English tables indexed with `isoweekday()`','an expiry instant on a Sunday'),
'C17-5':('`setlist` deletes the key\'s old values as one slice','a pair of another key between two values of the key'),
'C17-6':('`getlist` answers from a per-key index that `append` does not drop','`getlist`, then `append`, then `getlist` on one object'),
'C18-5':('user-info part as `\':\'.join` of the non-None of user and password','`replace(username=None)` on a URL with user and password'),
'C18-6':('query helpers pass the mapping itself to `urlencode()`','a key that is not being changed occurs more than once'),
'C18-7':('netloc from the server address cached per (host, port) in a module-level dict','the same server address seen under a scheme with another default port'),
'C18-8':('user name and password percent-encoded in `replace`, accessors return raw text','user name or password with `@`, `:`, blank or non-ASCII'),
'C19-5':('ASGI relay wraps the queue getter in `asyncio.shield` inside `wait_for`','an idle gap longer than a ping interval between two events'),
'C19-6':('field lines written without the space after the colon','data, name or id beginning with a space'),
'C20-5':('`ensure_next` iterates the inner iterable twice (look-ahead and relay)','inner app returning a list or another re-iterable object'),
'C20-6':('ASGI relay decodes captured header values as UTF-8 first','a header value whose bytes are well-formed multi-byte UTF-8'),
'C20-7':('`ensure_next` closes the inner iterable in a `finally` that ends with a bare `return`','an iterable without `close()` that raises after its first chunk'),
'C20-8':('relayed header values stripped with `str.strip()`','a value beginning or ending with NBSP, NEL or FS–US'),

'C01-7':("the helpers' text-field buffer became a class attribute shared by all parses","an earlier parse that ended in the middle of a text field (short body, 413, disconnect)"),
'C01-8':('WSGI `stream()` bounded by Content-Length, subtracting the size asked for','CONTENT_LENGTH present and a short read of `wsgi.input`'),
'C03-7':('`number()` memoises conversions, including the file-dependent "beyond the file" fallback','a number of > 4300 digits seen first for a smaller file'),
'C03-8':('ranges reaching the end of the file collapsed before the satisfiability check','two specs to the end, the shorter one unsatisfiable (`bytes=0-,-0`)'),
'C08-7':('compiled route regexes cached under the path with the `:type` stripped','two routes that differ only in a placeholder\'s convertor'),
'C08-8':('conversion failures caught once around the whole scan in `search`','ill-valued text for a typed route declared before another matching route'),
'C09-7':('WSGI Subpaths decodes PATH_INFO (Latin-1 to UTF-8) before matching','a byte >= 0x80 in the path'),
'C09-8':('`_route_array` declared in the class body and appended to','more than one Subpaths object in the process'),
'C11-7':('client / application state kept in the scope mapping','a scope object used for a second WebSocket'),
'C11-8':('typed receives test the payload with `if not text`','a legal empty frame'),
'C16-7':('`,` left literal inside quoted values + request cookies also split at `, name=`','both edits and a value containing `, x=`'),
'C16-8':('token pattern written with `\\w`','a value of Latin-1 letters or digits only (`é`, `½`)'),
'C17-7':('`getlist(key, default=[])`: one shared list answers every absent key','a caller that appends to the list it received'),
'C17-8':('`__init__` copies its input once at the end (traverses it twice)','pairs given as a generator or iterator'),
'C19-7':('`data:` lines come from an `lru_cache` whose list is then appended to','a payload that was sent before with other fields'),
'C19-8':('relay puts its sentinel only into an empty queue + the consumer loop no longer drains','`send` suspends and the generator returns right after its last yield'),

'C01-9':('`safe_decode` remembers failed charset labels in a module-level set and falls back to Latin-1 for them','an earlier request whose bytes were invalid under the label in use'),
'C01-10':('the decoder percent-decodes `name` and `filename` with `urllib.parse.unquote`','a name or filename containing `%XX`'),
'C02-8':('ASGI `FileResponse` remembers on the object whether zero-copy send is offered','one object, first request with the extension, a later one without'),
'C02-9':('`number()` takes a digit string longer than the size\'s spelling for "beyond the file" (as C03-5)','positions written with leading zeros'),
'C04-9':('WSGI `JSONResponse` keeps its `json.dumps` options in a class attribute that `update` writes to','an earlier `JSONResponse` built with dumps options'),
'C04-10':('`URL(scope=…)` prepends `root_path` only if the path does not start with it','a remainder below a mount that begins with the mount prefix'),
'C05-9':('`RedirectResponse` applies `iri_to_uri` to plain strings only, not to `URL` objects','a `URL` object with text outside Latin-1 or a control character'),
'C05-10':('ASGI `FileResponse` memoises the sendfile callable (which captured the first request\'s `send`)','one object answering two requests on two connections'),
'C06-9':('ASGI event stream: clean-up split into `except GeneratorExit` / `else`','the server cancels the task, or an event cannot be encoded, while the producer is unfinished'),
'C06-10':('producer closed only if it is an instance of `(Async)Generator`','a wrapper object with `aclose()`/`close()` that is not a generator'),
'C07-9':('`ensure_absolute_path` memoised in a class-level dict shared by all Files/Pages apps','two apps with different directories, the same path asked of both'),
'C07-10':('Pages tries `<path>.html` whenever the path is not a regular file','a directory `NAME/` beside a file `NAME.html`'),
'C10-9':('ASGI `stream()` yields empty bodies + the async multipart helper reads an empty chunk as the end','multipart form parsed from the stream with an empty message before the end'),
'C10-10':('ASGI `body` is a plain async property storing the joined bytes','two concurrent awaits, or a second access after a disconnect'),
'C12-9':('`request.cookies` unquotes with its own pattern `\\\\(\\d{3})`','a quoted cookie value with a backslash and three digits, one of them 8 or 9'),
'C12-10':('WSGI `body` reads `content_length` bytes in one `read()`','a Content-Length of 2**63 or more'),
'C13-9':('`Cookie._quote` returns text that already has the double-quote form unchanged','a name or value wrapped in double quotes with CR, LF, `;` or `,` inside'),
'C13-10':('`__setitem__` accepts non-str values and stores `str(value)` unchecked','a `URL` or path object whose text holds CR or LF'),
'C14-7':('ETag as base64 of the digest + `lstrip("W/")` on list members','a version whose base64 ETag begins with `W` or `/`'),
'C14-8':('`generate_etag` hashes mtime and size without the separator','a sub-second rewrite whose digits line up (X.0 + 12 bytes vs X.01 + 2 bytes)'),
'C17-9':('`multi_items()` returns the internal list + the copy constructor no longer copies','a mapping built from another mapping, then a mutation of either'),
'C17-10':('`QueryParams` parses with `errors="surrogateescape"`','a raw query string with a percent-escape that is not UTF-8 (`%FF`)'),
'C20-9':('relayed headers rebuilt through `MutableHeaders.append` + `__setitem__` tests `str.isprintable()`','an inner header value with a tab, NBSP or UTF-8 bytes 0x80–0x9F'),
'C20-10':('WSGI relay adds a Content-Length for a one-element list body','an inner app returning `[body]` without a Content-Length'),
'C03-9':('`parse_range` scans with a precompiled pattern and stops after 256 specs','a range set of more than 256 specs whose later specs add bytes or are unsatisfiable'),
'C03-10':('ASGI FileResponse decodes Range / If-Range as UTF-8 instead of Latin-1','a Range value with an octet >= 0x80 (invalid UTF-8, or UTF-8 that spells a non-ASCII digit), ASGI only'),
'C08-9':('`Route.matches` writes the converted values into one dict kept on the Route object','a request that reads its path parameters after a later request matched the same route'),
'C08-10':('`DecimalConvertor.to_string` through `value.normalize()`','a decimal value of more than 28 significant digits'),
'C09-9':('host patterns compiled with `re.IGNORECASE`','a Host header differing from what an entry accepts only in letter case'),
'C09-10':('Subpaths returns the `""` default entry without the boundary test','a path that does not begin with `/` (`*`, `x`) and a table with a default entry'),
'C11-9':('`send()` dispatches on the event type first: a close event never reaches the already-closed check','a raw `websocket.close` event passed to `send()` after the application closed'),
'C11-10':('`send()` records the state transition before validating the event','an illegal send while connecting (raises), then a second call on the same object'),
'C15-9':('File vs Field decided by `if filename:`','a file part with `filename=""` and non-empty content'),
'C15-10':('helpers test the current sink by truth value','a `file_factory` whose objects are falsy while empty (define `__len__`)'),
'C16-9':('Expires computed from the construction time of the response object','a response object older than a second when `set_cookie` is called'),
'C16-10':('`set_cookie` drops an earlier cookie of the same name','two cookies of one name with different path or domain on one response'),
'C18-9':('ASGI URL does not prepend the root path when the path already begins with it','a path that textually begins with the root path (`/api` + `/apiary`)'),
'C18-10':('query parsing memoised with `lru_cache` + `MultiMapping` keeps the list it is handed','an earlier include/remove call on the same query text in the process'),
'C19-9':('WSGI relay tests "producer gone" with `not running()` after an idle interval','more event streams open than pool workers, or `ping_interval=0`'),
'C19-10':('`event`/`id`/`retry` lines always encoded as UTF-8','a non-UTF-8 charset and a non-ASCII event name or id'),
}
ds=sorted(glob.glob('/verif/seeded/C*-*'), key=lambda s:(s.split('/')[-1][:3], int(s.split('-')[1])))
missing=[]
for d in ds:
    i=os.path.basename(d); m=json.load(open(d+'/meta.json')); p=m['property']
    ch=(m.get('verification') or {}).get('checks') or {}
    t=new.get(i) or old.get(i)
    if not t: missing.append(i); t=(m['title'][:80],m.get('needs','')[:80])
    if not ch:
        by='(not yet run)'; inp='—'
    else:
        parts=[]
        own=ch.get(p)
        order=[p]+[q for q in ch if q!=p]
        for q in order:
            r=ch.get(q)
            if r is None: continue
            if r.get('caught'):
                parts.append(q+('' if r.get('with_failing_input') else ' (no input)'))
            else:
                parts.append('not '+q)
        by='; '.join(parts)
        inp='yes' if any(r.get('caught') and r.get('with_failing_input') for r in ch.values()) else ('no' if any(r.get('caught') for r in ch.values()) else '—')
    print('| %s | %s | %s | %s | %s |'%(i,t[0],t[1],by,inp))
import sys
print('MISSING',missing,file=sys.stderr)
