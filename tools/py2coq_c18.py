#!/usr/bin/env python3
"""py2coq_c18 — translate URL.replace, URL.__repr__ and URL.include / replace / remove_query_params
(baize/datastructures.py) from their CURRENT Python source to Gallina.

    tools/py2coq_c18.py [--target all|replace|repr|..] [--repo /repo] [-o Generated.v]     translate
    tools/py2coq_c18.py --check [--repo /repo]              translate, compile, re-check C18/Translated.v (one verdict per function)
    tools/py2coq_c18.py --pylib-check                       C18/PyLib.v against this interpreter's str methods

The source is read with `ast` every time.  The output defines `replace (self : url) (v_kwargs : kw) : res url`,
`url_repr (self : url) : res str`, `replace_query_params` / `include_query_params (self : url) (v_kwargs : list (str * str))`
and `remove_query_params (self : url) (v_keys : list str) : res url`, each structurally the Python: the same statements in
the same order, the same branch order.  Everything runs in the model's exception monad `res` (C18/Model.v: Ok / Raise,
bind): an expression that may raise is bound before the statement that uses it, in Python's evaluation order.  The
hand-written model functions replace / repr / include_q / replace_q / remove_q are never mentioned; self.replace(k=v) inside
the other four is a call of the TRANSLATED replace.

What the translator is told (nothing of it is derived from the model's `replace`):
  self                    a value of C18.Model.url (the text and its urlsplit components)
  self.components         ucomps self                         self.netloc / .scheme / .path / .query / .fragment: the field
  self.port               port_of (netloc (ucomps self))      may raise ValueError: bound
  self.username           username_of (netloc (ucomps self))  self.password: password_of, self.hostname: hostname_of
  c._replace(**kwargs)    PyLib.comps_replace c kwargs        may raise ValueError: bound
  c.geturl()              unsplit c
  self.__class__(text)    mk_url text                         (URL(text) likewise; a subclass is outside the tie)
  **kwargs                PyLib.kw: a typed finite map over the literal keys scheme netloc path query fragment
                          (str) username password hostname (Optional[str]) port (Optional[int]);
                          "k" in kwargs, kwargs.pop("k", default) as the right-hand side of an assignment,
                          kwargs["netloc"] = text
  str                     s.rpartition("c"), s.rsplit("c", 1), s[-1], l[i], f-strings of str and int values,
                          + and += on str, == and != on str           (PyLib.v: compared with the interpreter on every run)
  __repr__                str(self) = ustr self (URL.__str__ returns self._url), str(<URL>) = ustr, the truth value of an
                          Optional[str] = PyLib.truthy_optstr, repr(text) = the model's py_repr, self.__class__.__name__ = "URL",
                          self.replace(k=v, ..) = the translated replace on kw_set_k (.. kw_empty ..) v
  query helpers           **kwargs is a dict with str keys and str values (str(value) is the value), kwargs.items() its list of
                          items, *keys a list of str; parse_qsl(text, keep_blank_values=True) and urlencode(pairs) are the
                          model's parse_qsl / urlencode; MutableMultiMapping(pairs), m.update(dict), m.pop(key, None),
                          m.multi_items() are PyLib.mm_new / mm_update / mm_pop_default / mm_multi_items on the list of items
                          (a local multi-mapping is never aliased: `b = a` is refused); [(a, b) for k, v in pairs],
                          {k: e for k, v in d.items()}, and the statement [m.pop(key, None) for key in keys]
Statements: x = e, x: T = e, (a, b, c) = e, x += e, kwargs["netloc"] = e, m.update(d), if / elif / else (variables assigned in
a branch that exist before it are carried; `if x is None` / `if x is not None` on an Optional name is a match that narrows
x; the truth value of a str / Optional[str] as a test), and one final `return self.__class__(e)` / `return self.replace(..)` /
`return <str>`.

FAIL CLOSED: any other node, name, method, key, or type ends the translation with `Unsupported`: the obligation is then
"not applicable", never a translation of something else.
"""
import argparse
import ast
import importlib.util
import os
import re
import shutil
import sys
import time

_HERE = os.path.dirname(os.path.abspath(__file__))
_spec = importlib.util.spec_from_file_location("py2coq_base_for_c18", os.path.join(_HERE, "py2coq.py"))
base = importlib.util.module_from_spec(_spec)
_spec.loader.exec_module(base)
Unsupported = base.Unsupported

PID = "C18"
SPECS = {
    "replace": dict(file="baize/datastructures.py", func="URL.replace", name="replace", kind="kwargs", result="url", needs=[]),
    "repr": dict(file="baize/datastructures.py", func="URL.__repr__", name="url_repr", kind="plain", result="str",
                 needs=["replace"]),
    "replace_query_params": dict(file="baize/datastructures.py", func="URL.replace_query_params", name="replace_query_params",
                                 kind="strkwargs", result="url", needs=["replace"]),
    "include_query_params": dict(file="baize/datastructures.py", func="URL.include_query_params", name="include_query_params",
                                 kind="strkwargs", result="url", needs=["replace"]),
    "remove_query_params": dict(file="baize/datastructures.py", func="URL.remove_query_params", name="remove_query_params",
                                kind="varkeys", result="url", needs=["replace"]),
}
SPEC = SPECS["replace"]
CLASS_NAME = "URL"      # self.__class__.__name__ (a subclass is outside the tie)

STR, INT, NONE, KW, URL_T, COMPS, BOOL = "str", "int", "none", "kw", "url", "comps", "bool"
OPTSTR, OPTINT, STRLIST = ("opt", STR), ("opt", INT), ("list", STR)
STR3 = ("tuple", (STR, STR, STR))
PAIR = ("tuple", (STR, STR))
PAIRS = ("list", PAIR)
DICT = "dict_str_str"       # **kwargs of the query helpers: str keys, str values; its items() in insertion order
MMAP = "mmap"               # a MutableMultiMapping[str, str], as the list of its multi_items()


def coq_type(t):
    return {DICT: "list (str * str)", STRLIST: "list str", KW: "kw"}[t]

KEY_TYPES = {"scheme": STR, "netloc": STR, "path": STR, "query": STR, "fragment": STR,
             "username": OPTSTR, "password": OPTSTR, "hostname": OPTSTR, "port": OPTINT}
POPPABLE = ("username", "password", "hostname", "port")
SETTABLE = ("netloc",)

# self.<attribute>: (text, type, may raise)
SELF_ATTRS = {
    "components": ("(ucomps self)", COMPS, False),
    "netloc": ("(netloc (ucomps self))", STR, False),
    "scheme": ("(scheme (ucomps self))", STR, False),
    "path": ("(path (ucomps self))", STR, False),
    "query": ("(query (ucomps self))", STR, False),
    "fragment": ("(fragment (ucomps self))", STR, False),
    "username": ("(username_of (netloc (ucomps self)))", OPTSTR, False),
    "password": ("(password_of (netloc (ucomps self)))", OPTSTR, False),
    "hostname": ("(hostname_of (netloc (ucomps self)))", OPTSTR, False),
    "port": ("(port_of (netloc (ucomps self)))", OPTINT, True),
}
COMPS_FIELDS = ("scheme", "netloc", "path", "query", "fragment")

HEADER = """(* GENERATED by tools/py2coq_c18.py from the Python source — do not edit.
   Structurally the Python: same statements, same branch order, in the exception monad of C18/Model.v; an expression that
   may raise is bound (t1, t2, ..) before the statement that uses it.  str and kwargs operations are calls of C18/PyLib.v;
   the accessors of self, _replace, geturl and the constructor are the functions named in tools/py2coq_c18.py. *)
From Coq Require Import List NArith Bool.
From Baize Require Import Lib.Wire C18.Model C18.PyLib.
Import ListNotations.
Local Open Scope N_scope.

"""


def lit(s):
    return "[%s]" % "; ".join(str(ord(c)) for c in s)


def paren(t):
    return base.paren(t)


class ReplaceFn:
    def __init__(self, fdef, spec=None, known=()):
        self.fdef = fdef
        self.spec = spec or SPEC
        self.known = set(known)         # methods of self already translated in this file: self.<m>(..) may be called
        self.n = 0
        a = fdef.args
        kind = self.spec["kind"]
        if (len(a.args) != 1 or a.args[0].arg != "self" or a.kwonlyargs or a.posonlyargs or a.defaults or a.kw_defaults
                or (a.kwarg is not None) != (kind in ("kwargs", "strkwargs")) or (a.vararg is not None) != (kind == "varkeys")):
            raise Unsupported(fdef, "the signature is not %s" % {"plain": "(self)", "kwargs": "(self, **kwargs)",
                                                                  "strkwargs": "(self, **kwargs)", "varkeys": "(self, *keys)"}[kind])
        if fdef.decorator_list:
            raise Unsupported(fdef, "decorated")
        self.kwname = a.kwarg.arg if a.kwarg is not None else a.vararg.arg if a.vararg is not None else None
        self.kwtype = {"plain": None, "kwargs": KW, "strkwargs": DICT, "varkeys": STRLIST}[kind]
        if self.kwname in ("self", "_"):
            raise Unsupported(fdef, "argument named %s" % self.kwname)

    def fresh(self):
        self.n += 1
        return "t%d" % self.n

    @staticmethod
    def var(name):
        return "v_" + name

    # ------------------------------------------------------------ expressions: -> (preludes, text, type)
    # preludes: [(name, text of type res T)] to bind, in order, before the statement

    def expr(self, e, env):
        h = getattr(self, "e_" + type(e).__name__, None)
        if h is None:
            raise Unsupported(e, "expression")
        return h(e, env)

    def e_Name(self, e, env):
        if e.id == "self":
            raise Unsupported(e, "self as a value")
        if e.id == "_" or e.id not in env:
            raise Unsupported(e, "name not bound")
        t = env[e.id]
        if t == NONE:
            return [], "None", NONE
        return [], self.var(e.id), t

    def e_Constant(self, e, env):
        if e.value is None:
            return [], "None", NONE
        if isinstance(e.value, str):
            return [], lit(e.value), STR
        raise Unsupported(e, "literal")

    def e_Attribute(self, e, env):
        if (e.attr == "__name__" and isinstance(e.value, ast.Attribute) and e.value.attr == "__class__"
                and isinstance(e.value.value, ast.Name) and e.value.value.id == "self"):
            return [], lit(CLASS_NAME), STR
        if isinstance(e.value, ast.Name) and e.value.id == "self":
            if e.attr not in SELF_ATTRS:
                raise Unsupported(e, "attribute of self")
            text, t, raises = SELF_ATTRS[e.attr]
            if raises:
                v = self.fresh()
                return [(v, text)], v, t
            return [], text, t
        pre, x, t = self.expr(e.value, env)
        if t == COMPS and e.attr in COMPS_FIELDS:
            return pre, "(%s %s)" % (e.attr, paren(x)), STR
        raise Unsupported(e, "attribute")

    def e_Tuple(self, e, env):
        pre, xs, ts = [], [], []
        for el in e.elts:
            p, x, t = self.expr(el, env)
            if t != STR:
                raise Unsupported(el, "tuple member that is not a str")
            pre, xs, ts = pre + p, xs + [x], ts + [t]
        if len(xs) != 2:
            raise Unsupported(e, "tuple that is not a pair")
        return pre, "(%s, %s)" % (xs[0], xs[1]), PAIR

    def over_pairs(self, e, env):
        """the one generator `for a, b in <list of pairs>` of a comprehension -> (source text, pattern, env inside, names)"""
        if len(e.generators) != 1:
            raise Unsupported(e, "comprehension with several generators")
        g = e.generators[0]
        if g.ifs or g.is_async:
            raise Unsupported(e, "comprehension with a condition")
        pre, x, t = self.expr(g.iter, env)
        if pre or t != PAIRS:
            raise Unsupported(g.iter, "comprehension over something that is not a list of (str, str)")
        tg = g.target
        if not (isinstance(tg, ast.Tuple) and len(tg.elts) == 2 and all(isinstance(el, ast.Name) for el in tg.elts)):
            raise Unsupported(tg, "comprehension target that is not a pair of names")
        names = [el.id for el in tg.elts]
        if names[0] == names[1] or any(n in ("self", "_") or n in env for n in names):
            raise Unsupported(tg, "comprehension target that shadows a name")
        env2 = dict(env)
        for n in names:
            env2[n] = STR
        return x, "'(%s, %s)" % (self.var(names[0]), self.var(names[1])), env2, names

    def e_ListComp(self, e, env):
        x, pat, env2, names = self.over_pairs(e, env)
        pre, y, t = self.expr(e.elt, env2)
        if pre or t != PAIR:
            raise Unsupported(e.elt, "comprehension member that is not a pair of str (or may raise)")
        return [], "(map (fun %s => %s) %s)" % (pat, y, paren(x)), PAIRS

    def e_DictComp(self, e, env):
        x, pat, env2, names = self.over_pairs(e, env)
        # the keys must stay distinct: the source is the items() of a dict and the key is the item's key itself
        g = e.generators[0].iter
        if not (isinstance(g, ast.Call) and isinstance(g.func, ast.Attribute) and g.func.attr == "items"
                and isinstance(e.key, ast.Name) and e.key.id == names[0]):
            raise Unsupported(e, "dict comprehension whose keys are not the keys of a dict's items()")
        pre, y, t = self.expr(e.value, env2)
        if pre or t != STR:
            raise Unsupported(e.value, "dict comprehension value that is not a str (or may raise)")
        return [], "(map (fun %s => (%s, %s)) %s)" % (pat, self.var(names[0]), y, paren(x)), DICT

    def e_BoolOp(self, e, env):
        op = {ast.Or: "||", ast.And: "&&"}.get(type(e.op))
        if op is None:
            raise Unsupported(e, "boolean operator")
        parts = []
        for v in e.values:
            pre, x, t = self.expr(v, env)
            if pre:
                raise Unsupported(v, "operand of and / or that may raise")
            if t != BOOL:
                raise Unsupported(v, "operand of and / or that is not a bool")
            parts.append(paren(x))
        return [], "(%s)" % (" %s " % op).join(parts), BOOL

    def e_UnaryOp(self, e, env):
        if not isinstance(e.op, ast.Not):
            raise Unsupported(e, "unary operator")
        pre, x, t = self.expr(e.operand, env)
        if t != BOOL:
            raise Unsupported(e, "not on a value that is not a bool")
        return pre, "(negb %s)" % paren(x), BOOL

    def e_Compare(self, e, env):
        if len(e.ops) != 1:
            raise Unsupported(e, "chained comparison")
        op, a, b = e.ops[0], e.left, e.comparators[0]
        if isinstance(op, (ast.In, ast.NotIn)):
            if (isinstance(a, ast.Constant) and isinstance(a.value, str) and isinstance(b, ast.Name)
                    and env.get(b.id) == KW):
                if a.value not in KEY_TYPES:
                    raise Unsupported(a, "key outside the typed map")
                x = "(kw_in_%s %s)" % (a.value, self.var(b.id))
                return [], x if isinstance(op, ast.In) else "(negb %s)" % x, BOOL
            raise Unsupported(e, "membership test")
        if isinstance(op, (ast.Eq, ast.NotEq)):
            pa, xa, ta = self.expr(a, env)
            pb, xb, tb = self.expr(b, env)
            if ta != STR or tb != STR:
                raise Unsupported(e, "== on values that are not both str")
            x = "(str_eqb %s %s)" % (paren(xa), paren(xb))
            return pa + pb, x if isinstance(op, ast.Eq) else "(negb %s)" % x, BOOL
        raise Unsupported(e, "comparison")

    def e_BinOp(self, e, env):
        if not isinstance(e.op, ast.Add):
            raise Unsupported(e, "operator")
        pa, xa, ta = self.expr(e.left, env)
        pb, xb, tb = self.expr(e.right, env)
        if ta != STR or tb != STR:
            raise Unsupported(e, "+ on values that are not both str")
        return pa + pb, "(%s ++ %s)" % (paren(xa), paren(xb)), STR

    def e_JoinedStr(self, e, env):
        pre, parts = [], []
        for v in e.values:
            if isinstance(v, ast.Constant) and isinstance(v.value, str):
                parts.append(lit(v.value))
            elif isinstance(v, ast.FormattedValue) and v.conversion == -1 and v.format_spec is None:
                p, x, t = self.expr(v.value, env)
                pre += p
                if t == STR:
                    parts.append(paren(x))
                elif t == INT:
                    parts.append("fmt_int %s" % paren(x))
                else:
                    raise Unsupported(v, "formatted value that is neither str nor int")
            else:
                raise Unsupported(v, "f-string part")
        if not parts:
            return pre, "[]", STR
        return pre, "(%s)" % " ++ ".join(parts), STR

    def e_Subscript(self, e, env):
        pre, x, t = self.expr(e.value, env)
        i = e.slice
        if t == STR and isinstance(i, ast.UnaryOp) and isinstance(i.op, ast.USub) and isinstance(i.operand, ast.Constant) \
                and type(i.operand.value) is int and i.operand.value == 1:
            v = self.fresh()
            return pre + [(v, "(py_last %s)" % paren(x))], v, STR
        if t == STRLIST and isinstance(i, ast.Constant) and type(i.value) is int and i.value >= 0:
            v = self.fresh()
            return pre + [(v, "(py_index %s %d)" % (paren(x), i.value))], v, STR
        raise Unsupported(e, "subscript")

    def one_char(self, node):
        if isinstance(node, ast.Constant) and isinstance(node.value, str) and len(node.value) == 1:
            return ord(node.value)
        raise Unsupported(node, "separator that is not a one-character literal")

    def e_Call(self, e, env):
        f = e.func
        if not isinstance(f, ast.Attribute):
            if isinstance(f, ast.Name) and f.id in ("str", "repr") and f.id not in env and len(e.args) == 1 and not e.keywords:
                a = e.args[0]
                if f.id == "str" and isinstance(a, ast.Name) and a.id == "self":
                    return [], "(ustr self)", STR           # URL.__str__: self._url
                pre, x, t = self.expr(a, env)
                if f.id == "str" and t == URL_T:
                    return pre, "(ustr %s)" % paren(x), STR
                if f.id == "repr" and t == STR:
                    return pre, "(py_repr %s)" % paren(x), STR
                if f.id == "str" and t == STR:
                    return pre, x, STR                      # str(text) is the text
                raise Unsupported(e, "call")
            if isinstance(f, ast.Name) and f.id not in env and f.id in ("urlencode", "MutableMultiMapping") and len(e.args) == 1 \
                    and not e.keywords:
                pre, x, t = self.expr(e.args[0], env)
                if t == PAIRS:
                    return (pre, "(urlencode %s)" % paren(x), STR) if f.id == "urlencode" else (pre, "(mm_new %s)" % paren(x), MMAP)
                raise Unsupported(e, "argument that is not a list of (str, str)")
            if isinstance(f, ast.Name) and f.id == "parse_qsl" and f.id not in env and len(e.args) == 1 and len(e.keywords) == 1 \
                    and e.keywords[0].arg == "keep_blank_values" and isinstance(e.keywords[0].value, ast.Constant) \
                    and e.keywords[0].value.value is True:
                pre, x, t = self.expr(e.args[0], env)
                if t == STR:
                    return pre, "(parse_qsl %s)" % paren(x), PAIRS
            raise Unsupported(e, "call")
        if (isinstance(f.value, ast.Name) and f.value.id == "self" and f.attr in self.known and f.attr == "replace"
                and not e.args and e.keywords):
            pre, kw, seen = [], "kw_empty", set()
            for k in e.keywords:
                if k.arg is None or k.arg not in KEY_TYPES or k.arg == "netloc" or k.arg in seen:
                    raise Unsupported(e, "keyword outside the typed map")
                seen.add(k.arg)
                p, x, t = self.expr(k.value, env)
                pre += p
                kt = KEY_TYPES[k.arg]
                if t == kt:
                    pass
                elif isinstance(kt, tuple) and kt[0] == "opt" and t == kt[1]:
                    x = "(Some %s)" % paren(x)
                elif isinstance(kt, tuple) and kt[0] == "opt" and t == NONE:
                    x = "None"
                else:
                    raise Unsupported(k.value, "keyword value of another type than the key's values")
                kw = "(kw_set_%s %s %s)" % (k.arg, kw, paren(x))
            v = self.fresh()
            return pre + [(v, "(%s self %s)" % (SPECS["replace"]["name"], kw))], v, URL_T
        if f.attr == "__class__":         # self.__class__(text) is only understood as the returned value
            raise Unsupported(e, "call")
        pre, x, t = self.expr(f.value, env)
        if t == DICT and f.attr == "items" and not e.args and not e.keywords:
            return pre, x, PAIRS
        if t == MMAP and f.attr == "multi_items" and not e.args and not e.keywords:
            return pre, "(mm_multi_items %s)" % paren(x), PAIRS
        if t == STR and f.attr == "rpartition" and len(e.args) == 1 and not e.keywords:
            return pre, "(py_rpartition %d %s)" % (self.one_char(e.args[0]), paren(x)), STR3
        if t == STR and f.attr == "rsplit" and len(e.args) == 2 and not e.keywords \
                and isinstance(e.args[1], ast.Constant) and type(e.args[1].value) is int and e.args[1].value == 1:
            return pre, "(py_rsplit1 %d %s)" % (self.one_char(e.args[0]), paren(x)), STRLIST
        if t == COMPS and f.attr == "geturl" and not e.args and not e.keywords:
            return pre, "(unsplit %s)" % paren(x), STR
        if t == COMPS and f.attr == "_replace" and not e.args and len(e.keywords) == 1 and e.keywords[0].arg is None \
                and isinstance(e.keywords[0].value, ast.Name) and env.get(e.keywords[0].value.id) == KW:
            v = self.fresh()
            return pre + [(v, "(comps_replace %s %s)" % (paren(x), self.var(e.keywords[0].value.id)))], v, COMPS
        raise Unsupported(e, "method call")

    def construct(self, e, env):
        """URL(text) / self.__class__(text): -> text of type res url"""
        if len(e.args) != 1 or e.keywords:
            raise Unsupported(e, "constructor arguments")
        pre, x, t = self.expr(e.args[0], env)
        if t != STR:
            raise Unsupported(e, "constructor argument that is not a str")
        return pre, "(mk_url %s)" % paren(x), ("res", URL_T)

    # ------------------------------------------------------------ statements

    def binds(self, pre, ind, body):
        """emit the preludes, then body(ind)"""
        if not pre:
            return body(ind)
        (v, text), rest = pre[0], pre[1:]
        return "%sbind %s (fun %s =>\n%s)" % (ind, text, v, self.binds(rest, ind, body))

    def assigned(self, stmts):
        out = []

        def add(n):
            if n not in out:
                out.append(n)
        for s in stmts:
            if isinstance(s, ast.Assign):
                for tg in s.targets:
                    if isinstance(tg, ast.Name):
                        add(tg.id)
                    elif isinstance(tg, ast.Tuple):
                        for el in tg.elts:
                            if isinstance(el, ast.Name):
                                add(el.id)
                            else:
                                raise Unsupported(el, "assignment target")
                    elif isinstance(tg, ast.Subscript) and isinstance(tg.value, ast.Name):
                        add(tg.value.id)
                    else:
                        raise Unsupported(tg, "assignment target")
                if self.is_pop(s.value):
                    add(s.value.func.value.id)
            elif isinstance(s, ast.AugAssign):
                if not isinstance(s.target, ast.Name):
                    raise Unsupported(s.target, "assignment target")
                add(s.target.id)
            elif isinstance(s, ast.AnnAssign) and isinstance(s.target, ast.Name) and s.value is not None:
                add(s.target.id)
            elif isinstance(s, ast.Expr) and self.mutated_by(s) is not None:
                add(self.mutated_by(s))
            elif isinstance(s, ast.If):
                for n in self.assigned(s.body) + self.assigned(s.orelse):
                    add(n)
            else:
                raise Unsupported(s, "statement")
        return out

    @staticmethod
    def mutated_by(s):
        """the name of the multi-mapping an expression statement changes: m.update(d) / [m.pop(k, None) for k in keys]"""
        e = s.value
        if isinstance(e, ast.Call) and isinstance(e.func, ast.Attribute) and e.func.attr == "update" \
                and isinstance(e.func.value, ast.Name):
            return e.func.value.id
        if isinstance(e, ast.ListComp) and isinstance(e.elt, ast.Call) and isinstance(e.elt.func, ast.Attribute) \
                and e.elt.func.attr == "pop" and isinstance(e.elt.func.value, ast.Name):
            return e.elt.func.value.id
        return None

    @staticmethod
    def is_pop(e):
        return (isinstance(e, ast.Call) and isinstance(e.func, ast.Attribute) and e.func.attr == "pop"
                and isinstance(e.func.value, ast.Name))

    def tuple_text(self, names, env):
        if not names:
            return "tt"
        xs = []
        for n in names:
            t = env[n]
            xs.append("None" if t == NONE else self.var(n))
        return xs[0] if len(xs) == 1 else "(%s)" % ", ".join(xs)

    def pattern_text(self, names):
        if not names:
            return "_"
        if len(names) == 1:
            return self.var(names[0])
        return "'(%s)" % ", ".join(self.var(n) for n in names)

    def block(self, stmts, env, k, ind):
        """stmts in env, then k(env, ind): text of type res T"""
        if not stmts:
            return k(env, ind)
        s, rest = stmts[0], stmts[1:]
        env = dict(env)

        def then(env2):
            return lambda ind2: self.block(rest, env2, k, ind2)

        if isinstance(s, ast.Return):
            if rest:
                raise Unsupported(rest[0], "statement after return")
            return k(env, ind, ret=s)
        if isinstance(s, ast.AnnAssign):
            # the annotation is not evaluated for a local name: only the value counts
            if not (isinstance(s.target, ast.Name) and s.value is not None and s.simple == 1):
                raise Unsupported(s, "annotated assignment")
            s = ast.copy_location(ast.Assign(targets=[s.target], value=s.value), s)
        if isinstance(s, ast.Expr):
            m = self.mutated_by(s)
            if m is None or env.get(m) != MMAP:
                raise Unsupported(s, "expression statement")
            e = s.value
            if isinstance(e, ast.Call):         # m.update(d)
                if len(e.args) != 1 or e.keywords:
                    raise Unsupported(s, "update arguments")
                pre, x, t = self.expr(e.args[0], env)
                if t != DICT:
                    raise Unsupported(s, "update with something that is not a dict of str")
                return self.binds(pre, ind, lambda i: "%slet %s := mm_update %s %s in\n%s" % (
                    i, self.var(m), self.var(m), paren(x), then(env)(i)))
            # [m.pop(key, None) for key in keys]: the list is dropped, m changes once per key, in order
            c = e.elt
            if len(e.generators) != 1 or e.generators[0].ifs or e.generators[0].is_async \
                    or not isinstance(e.generators[0].target, ast.Name):
                raise Unsupported(s, "comprehension")
            kn = e.generators[0].target.id
            if kn in env or kn in ("self", "_"):
                raise Unsupported(s, "comprehension target that shadows a name")
            if not (len(c.args) == 2 and not c.keywords and isinstance(c.args[0], ast.Name) and c.args[0].id == kn
                    and isinstance(c.args[1], ast.Constant) and c.args[1].value is None):
                raise Unsupported(s, "pop that is not pop(<the loop name>, None)")
            pre, x, t = self.expr(e.generators[0].iter, env)
            if pre or t != STRLIST:
                raise Unsupported(s, "comprehension over something that is not a list of str")
            return "%slet %s := fold_left (fun %s %s => mm_pop_default %s %s) %s %s in\n%s" % (
                ind, self.var(m), self.var(m), self.var(kn), self.var(m), self.var(kn), paren(x), self.var(m), then(env)(ind))
        if isinstance(s, ast.Assign):
            if len(s.targets) != 1:
                raise Unsupported(s, "multiple targets")
            tg = s.targets[0]
            if self.is_pop(s.value):
                c = s.value
                kwn = c.func.value.id
                if env.get(kwn) != KW or not isinstance(tg, ast.Name) or tg.id in ("self", "_", kwn):
                    raise Unsupported(s, "pop")
                if len(c.args) != 2 or c.keywords or not (isinstance(c.args[0], ast.Constant) and isinstance(c.args[0].value, str)):
                    raise Unsupported(s, "pop without a literal key and a default")
                key = c.args[0].value
                if key not in POPPABLE:
                    raise Unsupported(c.args[0], "pop of a key outside the table")
                pre, d, t = self.expr(c.args[1], env)
                if t != KEY_TYPES[key] and t != NONE:
                    raise Unsupported(c.args[1], "default of another type than the key's values")
                env2 = dict(env)
                env2[tg.id] = KEY_TYPES[key]
                return self.binds(pre, ind, lambda i: "%slet '(%s, %s) := kw_pop_%s %s %s in\n%s" % (
                    i, self.var(tg.id), self.var(kwn), key, self.var(kwn), paren(d), then(env2)(i)))
            pre, x, t = self.expr(s.value, env)
            if isinstance(tg, ast.Name):
                if tg.id in ("self",) or env.get(tg.id) in (KW, MMAP, DICT) or t in (KW, BOOL) \
                        or (isinstance(t, tuple) and t[0] in ("res", "tuple")) or (t == MMAP and isinstance(s.value, ast.Name)):
                    raise Unsupported(s, "assignment")
                if tg.id == "_":
                    return self.binds(pre, ind, then(env))
                env2 = dict(env)
                env2[tg.id] = t
                if t == NONE:
                    return self.binds(pre, ind, then(env2))
                return self.binds(pre, ind, lambda i: "%slet %s := %s in\n%s" % (i, self.var(tg.id), x, then(env2)(i)))
            if isinstance(tg, ast.Tuple):
                if not (isinstance(t, tuple) and t[0] == "tuple" and len(t[1]) == len(tg.elts)):
                    raise Unsupported(s, "unpacking")
                env2 = dict(env)
                pats, seen = [], set()
                for el, et in zip(tg.elts, t[1]):
                    if not isinstance(el, ast.Name) or el.id == "self" or env.get(el.id) == KW:
                        raise Unsupported(s, "unpacking target")
                    if el.id == "_":
                        pats.append("_")
                        continue
                    if el.id in seen:
                        raise Unsupported(s, "a name twice in one unpacking")
                    seen.add(el.id)
                    env2[el.id] = et
                    pats.append(self.var(el.id))
                return self.binds(pre, ind, lambda i: "%slet '(%s) := %s in\n%s" % (i, ", ".join(pats), x, then(env2)(i)))
            if isinstance(tg, ast.Subscript):
                if not (isinstance(tg.value, ast.Name) and env.get(tg.value.id) == KW and isinstance(tg.slice, ast.Constant)
                        and tg.slice.value in SETTABLE):
                    raise Unsupported(s, "item assignment")
                if t != KEY_TYPES[tg.slice.value]:
                    raise Unsupported(s, "item assignment of another type than the key's values")
                kwn = self.var(tg.value.id)
                return self.binds(pre, ind, lambda i: "%slet %s := kw_set_%s %s %s in\n%s" % (
                    i, kwn, tg.slice.value, kwn, paren(x), then(env)(i)))
            raise Unsupported(s, "assignment target")
        if isinstance(s, ast.AugAssign):
            if not (isinstance(s.op, ast.Add) and isinstance(s.target, ast.Name) and env.get(s.target.id) == STR):
                raise Unsupported(s, "augmented assignment")
            pre, x, t = self.expr(s.value, env)
            if t != STR:
                raise Unsupported(s, "+= of a value that is not a str")
            v = self.var(s.target.id)
            return self.binds(pre, ind, lambda i: "%slet %s := %s ++ %s in\n%s" % (i, v, v, paren(x), then(env)(i)))
        if isinstance(s, ast.If):
            return self.stmt_if(s, rest, env, k, ind)
        raise Unsupported(s, "statement")

    def narrowing(self, test, env):
        """`x is None` / `x is not None` on an Optional name -> (name, True if the then-branch is the None one)"""
        if (isinstance(test, ast.Compare) and len(test.ops) == 1 and isinstance(test.ops[0], (ast.Is, ast.IsNot))
                and isinstance(test.comparators[0], ast.Constant) and test.comparators[0].value is None):
            if isinstance(test.left, ast.Name) and isinstance(env.get(test.left.id), tuple) and env[test.left.id][0] == "opt":
                return test.left.id, isinstance(test.ops[0], ast.Is)
            raise Unsupported(test, "is None on something that is not an Optional name")
        return None

    def stmt_if(self, s, rest, env, k, ind):
        carried = [n for n in self.assigned(s.body) + self.assigned(s.orelse) if n in env]
        carried = [n for i, n in enumerate(carried) if n not in carried[:i]]
        ends = []

        def arm(stmts, env_arm, i):
            def kk(e2, i2, ret=None):
                if ret is not None:
                    raise Unsupported(ret, "return inside a branch")
                ends.append({n: e2[n] for n in carried})
                return "%sOk %s" % (i2, self.tuple_text(carried, e2))
            return self.block(stmts, env_arm, kk, i)

        nar = self.narrowing(s.test, env)
        i1 = ind + "      "
        if nar is not None:
            name, then_is_none = nar
            env_none, env_some = dict(env), dict(env)
            env_none[name] = NONE
            env_some[name] = env[name][1]
            if then_is_none:
                a = arm(s.body, env_none, i1)
                b = arm(s.orelse, env_some, i1)
                head = "match %s with\n%s| None =>\n%s\n%s| Some %s =>\n%s\n%send" % (
                    self.var(name), ind + "  ", a, ind + "  ", self.var(name), b, ind + "  ")
            else:
                a = arm(s.body, env_some, i1)
                b = arm(s.orelse, env_none, i1)
                head = "match %s with\n%s| Some %s =>\n%s\n%s| None =>\n%s\n%send" % (
                    self.var(name), ind + "  ", self.var(name), a, ind + "  ", b, ind + "  ")
            pre = []
        else:
            pre, c, t = self.expr(s.test, env)
            if t == OPTSTR:
                c, t = "(truthy_optstr %s)" % paren(c), BOOL
            elif t == STR:
                c, t = "(negb (is_nil %s))" % paren(c), BOOL
            if t != BOOL:
                raise Unsupported(s.test, "test that is not a bool")
            a = arm(s.body, env, i1)
            b = arm(s.orelse, env, i1)
            head = "if %s\n%sthen\n%s\n%selse\n%s" % (c, ind + "  ", a, ind + "  ", b)
        env2 = dict(env)
        for n in carried:
            ts = {repr(e[n]) for e in ends}
            if len(ts) != 1:
                raise Unsupported(s, "%s has different types at the end of the branches" % n)
            env2[n] = ends[0][n]
            if env2[n] == NONE:
                raise Unsupported(s, "%s is None at the end of every branch" % n)
        return self.binds(pre, ind, lambda i: "%sbind (%s) (fun %s =>\n%s)" % (
            i, head, self.pattern_text(carried), self.block(rest, env2, k, i)))

    def translate(self):
        env = {self.kwname: self.kwtype} if self.kwname is not None else {}
        want = self.spec["result"]

        def k(env2, ind, ret=None):
            if ret is None or ret.value is None:
                raise Unsupported(self.fdef, "the function does not end with return <value>")
            e = ret.value
            if want == "url" and isinstance(e, ast.Call) and isinstance(e.func, ast.Attribute) and e.func.attr in self.known \
                    and isinstance(e.func.value, ast.Name) and e.func.value.id == "self":
                pre, x, t = self.expr(e, env2)          # return self.replace(..)
                if t != URL_T:
                    raise Unsupported(ret, "return of something that is not a URL")
                return self.binds(pre, ind, lambda i: "%sOk %s" % (i, paren(x)))
            if want == "url":
                if not (isinstance(e, ast.Call) and (
                        (isinstance(e.func, ast.Name) and e.func.id == "URL" and "URL" not in env2)
                        or (isinstance(e.func, ast.Attribute) and e.func.attr == "__class__"
                            and isinstance(e.func.value, ast.Name) and e.func.value.id == "self"))):
                    raise Unsupported(ret, "return of something else than self.__class__(text)")
                pre, x, t = self.construct(e, env2)
                return self.binds(pre, ind, lambda i: i + x)
            pre, x, t = self.expr(e, env2)
            if t != STR:
                raise Unsupported(ret, "return of something that is not a str")
            return self.binds(pre, ind, lambda i: "%sOk %s" % (i, paren(x)))
        body = self.block(list(self.fdef.body), env, k, "  ")
        return "Definition %s (self : url)%s : res %s :=\n%s.\n" % (
            self.spec["name"], " (%s : %s)" % (self.var(self.kwname), coq_type(self.kwtype)) if self.kwname is not None else "",
            want, body)


def translate_one(repo, which, known):
    spec = SPECS[which]
    path = os.path.join(repo, spec["file"])
    src = open(path, encoding="utf-8").read()
    tree = ast.parse(src)
    fdef = base.find_function(tree, spec["func"])
    text = ReplaceFn(fdef, spec, known).translate()
    seg = ast.get_source_segment(src, fdef) or ""
    head = "(* %s :: %s, lines %d-%d\n%s\n*)\n" % (
        spec["file"], spec["func"], fdef.lineno, fdef.end_lineno,
        "\n".join("   | " + l for l in base.comment_safe(seg).splitlines()))
    return head + text


def translate(repo, which="replace"):
    """the generated file for obligation <which>: the functions it needs, then the function itself"""
    names = list(SPECS) if which == "all" else SPECS[which]["needs"] + [which]
    parts = []
    for i, n in enumerate(names):
        parts.append(translate_one(repo, n, names[:i]))
    return HEADER + "\n".join(parts)


# ---------------------------------------------------------------- the obligation

SEGMENT = r"\(\* SEGMENT-BEGIN (\w+) \*\)\n.*?\(\* SEGMENT-END \1 \*\)\n"
REFUSED = ("the translator does not understand the current source (it refuses rather than guess; this says nothing about the "
           "behaviour of the code, the case-based tie decides alone): %s")


def label(which):
    return "%s/Translated.v (%s)" % (PID, SPECS[which]["func"])


def translate_each(repo):
    """-> {which: text of the definition}, {which: (ok, detail)} for those without a definition"""
    texts, verdicts = {}, {}
    for w, spec in SPECS.items():
        missing = [n for n in spec["needs"] if n not in texts]
        if missing:
            verdicts[w] = (None, "calls %s, which has no translation in this run" % ", ".join(SPECS[n]["func"] for n in missing))
            continue
        try:
            texts[w] = translate_one(repo, w, spec["needs"])
        except Unsupported as e:
            verdicts[w] = (None, REFUSED % e)
        except (OSError, SyntaxError) as e:
            verdicts[w] = (False, "cannot read the source: %s: %s" % (type(e).__name__, e))
        except Exception as e:      # a defect of the translator itself: also closed
            verdicts[w] = (None, "the translator failed on the current source (%s: %s); the case-based tie decides alone" % (
                type(e).__name__, e))
    return texts, verdicts


def check_group(group, texts, verif, timeout, keep=False):
    """compile the definitions of <group> (in the order of SPECS) and re-run coqc on the part of C18/Translated.v about them
    -> (ok, detail)"""
    coq = os.path.join(verif, "coq")
    t0 = time.time()
    text = HEADER + "\n".join(texts[w] for w in SPECS if w in group)
    bad = [t for t in base.FORBIDDEN_TOKENS if re.search(r"\b%s\b" % t, base.strip_coq_comments(text.replace(HEADER, "")))]
    if bad:
        return False, "generated text contains %s" % bad
    tv = os.path.join(coq, "theories", PID, "Translated.v")
    tsrc = open(tv).read()
    tsrc = re.sub(SEGMENT, lambda m: m.group(0) if m.group(1) in group else "", tsrc, flags=re.S)
    block = base.TEMPLATE_BLOCK % {"pid": PID}
    if tsrc.count(block) != 1:
        return False, "%s does not contain the marked Require block exactly once" % tv
    thms = re.findall(r"^\s*Theorem\s+(\w+)", base.strip_coq_comments(tsrc), re.M)
    printed = re.findall(r"Print Assumptions\s+(\w+)\s*\.", base.strip_coq_comments(tsrc))
    if len(thms) < len(group) or [t for t in thms if t not in printed]:
        return False, "Translated.v: a function without theorem, or a theorem without Print Assumptions"
    d = os.path.join(verif, ".work", "translate-%s-%s-%d" % (PID, "+".join(w[:4] for w in group), os.getpid()))
    fresh = os.path.join(d, "Fresh")
    shutil.rmtree(d, ignore_errors=True)
    os.makedirs(fresh)
    try:
        with open(os.path.join(fresh, "Generated.v"), "w") as f:
            f.write(text)
        with open(os.path.join(fresh, "Translated.v"), "w") as f:
            f.write(tsrc.replace(block, base.FRESH_BLOCK))
        args = ["-Q", "theories", "Baize", "-Q", fresh, "Fresh"]
        rc, out, err = base.run_coqc(args + [os.path.join(fresh, "Generated.v")], coq, timeout)
        if rc == 124:
            return None, "coqc did not finish within %d s; no verdict from the source-level tie in this run" % timeout
        if rc != 0:
            return False, "the generated definition does not compile (rc %d): %s" % (rc, (err or out)[-600:])
        rc, out, err = base.run_coqc(args + [os.path.join(fresh, "Translated.v")], coq, timeout)
        if rc == 124:
            return None, "coqc did not finish within %d s; no verdict from the source-level tie in this run" % timeout
        if rc != 0:
            return False, ("the proof that the function translated from the current source equals the model function no longer "
                           "checks (rc %d): %s" % (rc, " ".join((err or out).split())[-600:]))
        closed = out.count("Closed under the global context")
        if closed != len(printed) or "Axioms:" in out:
            return False, "Print Assumptions: %d of %d closed under the global context: %s" % (closed, len(printed), out[-300:])
        ref = os.path.join(coq, "theories", PID, "Generated_ref.v")
        refdefs = base.definitions_only(open(ref).read()) if os.path.exists(ref) else ""
        same = all(chunk in refdefs for chunk in base.definitions_only(text).split("Definition "))
        return True, ("%d theorem(s) (%s) re-checked against the definitions translated from %s (%s the committed reference copy), "
                      "closed under the global context, %.1f s" % (
                          len(thms), ", ".join(thms), SPEC["file"], "identical to" if same else "DIFFERENT from", time.time() - t0))
    finally:
        if not keep:
            shutil.rmtree(d, ignore_errors=True)


def check(repo=None, verif=None, timeout=120, keep=False):
    """The source-level tie of C18, one verdict per function of SPECS: translate each from the source in <repo> as it is NOW; one
    coqc run re-checks C18/Translated.v (the segments of the functions that have a translation) against all fresh definitions;
    only if that run fails is every function re-checked on its own (with those it calls), to say which one is broken.
    -> [(name, ok, detail)]"""
    from concurrent.futures import ThreadPoolExecutor
    repo = repo or os.environ.get("BAIZE_REPO", "/repo")
    verif = verif or base.VERIF
    texts, verdicts = translate_each(repo)
    if texts:
        ok, detail = check_group(list(texts), texts, verif, timeout, keep)
        if ok is True:
            for w in texts:
                verdicts[w] = (True, detail)
        else:
            with ThreadPoolExecutor(len(texts)) as ex:
                fs = {w: ex.submit(check_group, SPECS[w]["needs"] + [w], texts, verif, timeout, keep) for w in texts}
                for w, f in fs.items():
                    verdicts[w] = f.result()
            # a function whose own run fails only because a function it calls is broken: the callee carries the alarm
            for w in texts:
                broken = [n for n in SPECS[w]["needs"] if verdicts[n][0] is False]
                if verdicts[w][0] is False and broken:
                    verdicts[w] = (None, "calls %s, whose obligation is broken in this run (reported there)" % ", ".join(
                        SPECS[n]["func"] for n in broken))
    return [(label(w),) + tuple(verdicts[w]) for w in SPECS]


# ---------------------------------------------------------------- C18/PyLib.v against the interpreter's str methods
#
# Every str function of PyLib.v is evaluated inside coqc (vm_compute) on every word up to length 5 over the alphabet
# @ : ] a (the words are enumerated in Coq), the results are flattened to one list of numbers per function and hashed;
# the same hash is computed here from the interpreter's own str methods.

ALPHA = [64, 58, 93, 97]
MAXLEN = 5
INTS = [0, 1, 9, 10, 99, 100, 255, 443, 8080, 65535, 65536, 4294967296, 12345678901234567890]
M31 = 2 ** 31 - 1
SEP, END, EXC = 1000, 1001, 1002

PYLIB_CHECK = """From Coq Require Import List NArith Bool.
From Baize Require Import Lib.Wire C18.Model C18.PyLib.
Import ListNotations.
Local Open Scope N_scope.
Definition alpha : list N := %(alpha)s.
Fixpoint words (n : nat) : list (list N) :=
  match n with
  | O => [[]]
  | S k => [] :: flat_map (fun w => map (fun c => c :: w) alpha) (words k)
  end.
Definition W := words %(maxlen)d.
Definition hash (l : list N) : N := fold_left (fun h x => (h * 31 + x + 1) mod %(m)d) l 7.
Definition fr (r : res (list N)) : list N := match r with Ok s => s ++ [%(end)d] | Raise _ => [%(exc)d; %(end)d] end.
Definition f_rpartition (c : N) (w : list N) : list N :=
  match py_rpartition c w with (a, s, b) => a ++ [%(sep)d] ++ s ++ [%(sep)d] ++ b ++ [%(end)d] end.
Definition f_rsplit1 (c : N) (w : list N) : list N := flat_map (fun p => p ++ [%(sep)d]) (py_rsplit1 c w) ++ [%(end)d].
Eval vm_compute in (hash (flat_map (f_rpartition 64) W)).
Eval vm_compute in (hash (flat_map (f_rpartition 58) W)).
Eval vm_compute in (hash (flat_map (f_rsplit1 58) W)).
Eval vm_compute in (hash (flat_map (f_rsplit1 64) W)).
Eval vm_compute in (hash (flat_map (fun w => fr (py_last w)) W)).
Eval vm_compute in (hash (flat_map (fun w => fr (py_index (py_rsplit1 58 w) 0)) W)).
Eval vm_compute in (hash (flat_map (fun w => fr (py_index (py_rsplit1 58 w) 1)) W)).
Eval vm_compute in (hash (flat_map (fun n => fmt_int n ++ [%(end)d]) %(ints)s)).
"""

PYLIB_LABELS = ["rpartition('@')", "rpartition(':')", "rsplit(':', 1)", "rsplit('@', 1)", "s[-1]", "rsplit(':', 1)[0]",
                "rsplit(':', 1)[1]", "f'{int}'"]


def _words(n):
    if n == 0:
        return [[]]
    return [[]] + [[c] + w for w in _words(n - 1) for c in ALPHA]


def _hash(l):
    h = 7
    for x in l:
        h = (h * 31 + x + 1) % M31
    return h


def _guard(f):
    try:
        return [ord(c) for c in f()] + [END]
    except (IndexError, ValueError):
        return [EXC, END]


def pylib_expected():
    ws = ["".join(chr(c) for c in w) for w in _words(MAXLEN)]

    def rp(c):
        out = []
        for w in ws:
            a, s, b = w.rpartition(c)
            out += [ord(x) for x in a] + [SEP] + [ord(x) for x in s] + [SEP] + [ord(x) for x in b] + [END]
        return out

    def rs(c):
        out = []
        for w in ws:
            for p in w.rsplit(c, 1):
                out += [ord(x) for x in p] + [SEP]
            out += [END]
        return out
    flat = lambda f: [x for w in ws for x in _guard(lambda: f(w))]
    return [_hash(rp("@")), _hash(rp(":")), _hash(rs(":")), _hash(rs("@")), _hash(flat(lambda w: w[-1])),
            _hash(flat(lambda w: w.rsplit(":", 1)[0])), _hash(flat(lambda w: w.rsplit(":", 1)[1])),
            _hash([x for n in INTS for x in [ord(c) for c in f"{n}"] + [END]])]


def pylib_check(verif=None, timeout=120, keep=False):
    verif = verif or base.VERIF
    coq = os.path.join(verif, "coq")
    name = "C18/PyLib.v == this interpreter's str methods"
    t0 = time.time()
    d = os.path.join(verif, ".work", "pylib-%s-%d" % (PID, os.getpid()))
    shutil.rmtree(d, ignore_errors=True)
    os.makedirs(d)
    try:
        fn = os.path.join(d, "PyLibCheck.v")
        with open(fn, "w") as f:
            f.write(PYLIB_CHECK % dict(alpha="[%s]" % "; ".join(map(str, ALPHA)), maxlen=MAXLEN, m=M31, end=END, exc=EXC,
                                       sep=SEP, ints="[%s]" % "; ".join(map(str, INTS))))
        rc, out, err = base.run_coqc(["-Q", "theories", "Baize", "-Q", d, "FreshLib", fn], coq, timeout)
        if rc == 124:
            return [(name, None, "coqc did not finish within %d s; no verdict in this run" % timeout)]
        if rc != 0:
            return [(name, False, "the comparison file does not compile (rc %d): %s" % (rc, (err or out)[-400:]))]
        got = [int(x) for x in re.findall(r"^\s*=\s*(\d+)(?:%N)?\s*$", out, re.M)]
        exp = pylib_expected()
        if len(got) != len(exp):
            return [(name, False, "expected %d values from coqc, got %d: %s" % (len(exp), len(got), out[-300:]))]
        diff = [l for l, g, e in zip(PYLIB_LABELS, got, exp) if g != e]
        if diff:
            return [(name, False, "differs from the interpreter on: %s" % ", ".join(diff))]
        n = len(_words(MAXLEN))
        return [(name, True, "%d functions on %d words over %r and %d ints: same results, %.1f s" % (
            len(exp), n, "".join(map(chr, ALPHA)), len(INTS), time.time() - t0))]
    finally:
        if not keep:
            shutil.rmtree(d, ignore_errors=True)


def obligations(repo=None, verif=None, timeout=120):
    from concurrent.futures import ThreadPoolExecutor
    with ThreadPoolExecutor(2) as ex:
        a = ex.submit(check, repo, verif, timeout)
        b = ex.submit(pylib_check, verif, timeout)
        return list(a.result()) + list(b.result())


def main():
    ap = argparse.ArgumentParser()
    ap.add_argument("--repo", default=os.environ.get("BAIZE_REPO", "/repo"))
    ap.add_argument("--check", action="store_true")
    ap.add_argument("--pylib-check", action="store_true")
    ap.add_argument("--keep", action="store_true")
    ap.add_argument("--target", default="all", choices=list(SPECS) + ["all"], help="one function (with those it calls), or all")
    ap.add_argument("-o", "--output")
    a = ap.parse_args()
    if a.check or a.pylib_check:
        res = (check(a.repo, keep=a.keep) if a.check else []) + (pylib_check(keep=a.keep) if a.pylib_check else [])
        for name, ok, detail in res:
            print("%s: %s — %s" % (name, {True: "holds", False: "BROKEN", None: "not applicable"}[ok], detail))
        sys.exit(1 if any(ok is False for _, ok, _ in res) else 0)
    try:
        text = translate(a.repo, a.target)
    except Unsupported as e:
        print("py2coq_c18: %s" % e, file=sys.stderr)
        sys.exit(2)
    if a.output:
        with open(a.output, "w") as f:
            f.write(text)
    else:
        sys.stdout.write(text)


if __name__ == "__main__":
    main()
