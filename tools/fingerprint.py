#!/venv/bin/python
"""Record the syntax-tree hash of the anchored baize files per property (fingerprints.json).
Run after a model has been (re)validated against /repo's HEAD:  python3 tools/fingerprint.py [Cxx ...]"""
import json, os, sys
if os.path.realpath(sys.executable) != os.path.realpath("/venv/bin/python"):
    # ast.dump differs between interpreter versions: record with the interpreter the checks run under
    os.execv("/venv/bin/python", ["/venv/bin/python"] + sys.argv)
V = os.path.dirname(os.path.dirname(os.path.abspath(__file__)))
sys.path.insert(0, V)
from harness import core
p = os.path.join(V, "fingerprints.json")
try:
    d = json.load(open(p))
except Exception:
    d = {}
ids = sys.argv[1:] or [json.loads(l)["id"] for l in open(os.path.join(V, "properties.jsonl"))]
for pid in ids:
    d[pid] = core.source_fingerprint(pid, "/repo")
json.dump(d, open(p, "w"), indent=1, sort_keys=True)
print("recorded", ", ".join(ids))
