#!/bin/bash
# tools/seedall.sh [P] : re-run every seeded change against the current checks (groups of one property run in sequence,
# P groups in parallel); results go into seeded/*/meta.json; summary lines to stdout
cd "$(dirname "$0")/.."
P=${1:-3}
ls seeded | grep -E '^C[0-9]+-[0-9]+$' | cut -d- -f1 | sort -u | xargs -P "$P" -I{} bash -c '
for d in seeded/{}-*; do
  python3 tools/seedtest.py $d > /tmp/wk/seedall-$(basename $d).log 2>&1
  python3 -c "
import json,sys
m=json.load(open(\"$d/meta.json\")); v=m.get(\"verification\",{})
print(\"$(basename $d)\", \"confirmed\" if v.get(\"confirmed\") else \"NOT-CONFIRMED\", {q:(\"caught\" if c[\"caught\"] else \"MISSED\", \"input\" if c[\"with_failing_input\"] else \"no-input\", c[\"wall_s\"]) for q,c in v.get(\"checks\",{}).items()}, v.get(\"base_commit\"))" 2>&1 | tail -1
done'
