#!/bin/bash
# tools/seedbatch.sh Cxx [Cyy ...] : import /tmp/seed/Cxx/_seed/<k> into seeded/Cxx-<k> and run seedtest on each
cd "$(dirname "$0")/.."
for p in "$@"; do
  for d in /tmp/seed/$p/_seed/[0-9]*; do
    k=$(basename $d); if [ -d seeded/$p-$k ] && [ -z "$SEED_REDO" ]; then continue; fi; mkdir -p seeded/$p-$k; cp $d/patch.diff $d/demo.py $d/meta.json seeded/$p-$k/ 2>/dev/null
    python3 tools/seedtest.py seeded/$p-$k > /tmp/wk/seed-$p-$k.log 2>&1
    python3 -c "
import json; m=json.load(open('seeded/$p-$k/meta.json')); v=m['verification']; print('$p-$k', 'confirmed' if v['confirmed'] else 'NOT-CONFIRMED(%s,%s,%s)'%(v['demo_unchanged_exit'],v['demo_changed_exit'],v['suite_same_as_baseline']), {q:('caught' if c['caught'] else 'MISSED', 'input' if c['with_failing_input'] else 'no-input', c['wall_s']) for q,c in v['checks'].items()}, '|', m.get('title','')[:90])"
  done
done
