#!/usr/bin/env python3
"""Write seeded/INDEX.md: one line per seeded change with what it needs and which checks caught it."""
import glob, json, os
V = os.path.dirname(os.path.dirname(os.path.abspath(__file__)))
rows = []
for f in sorted(glob.glob(os.path.join(V, "seeded", "*", "meta.json"))):
    m = json.load(open(f))
    v = m.get("verification", {})
    ch = v.get("checks", {})
    caught = ", ".join("%s%s" % (p, "" if c.get("with_failing_input") else " (no failing input)") for p, c in sorted(ch.items()) if c.get("caught"))
    missed = ", ".join(p for p, c in sorted(ch.items()) if not c.get("caught"))
    rows.append((os.path.basename(os.path.dirname(f)), m.get("property"), m.get("title", "").replace("|", "/").replace("\n", " ")[:220],
                 m.get("needs", "").replace("|", "/").replace("\n", " ")[:200], "yes" if v.get("confirmed") else "NO", caught or "-", missed or "-",
                 m.get("history", "")))
with open(os.path.join(V, "seeded", "INDEX.md"), "w") as o:
    o.write("# Seeded property-breaking changes\n\nEach directory holds `patch.diff` (against /repo HEAD at the time, see meta.json "
            "`verification.base_commit`), `demo.py` (fails with the change, passes without) and `meta.json`.  Produced by independent "
            "sub-agents that saw only the property text; confirmed and run against the checks by `tools/seedtest.py` "
            "(suite unchanged: same 77 passing tests; demo exit 0 before / non-zero after).\n\n"
            "| id | property | change | needs | confirmed | caught by | not caught by | history |\n|---|---|---|---|---|---|---|---|\n")
    for r in rows:
        o.write("| " + " | ".join(str(x) for x in r) + " |\n")
    hs = sorted(glob.glob(os.path.join(V, "seeded", "harmless", "H*", "meta.json")), key=lambda f: int(os.path.basename(os.path.dirname(f))[1:]))
    if hs:
        o.write("\n## Behaviour-preserving refactorings (must raise no alarm)\n\nProduced by an independent sub-agent from the 20 property texts; each keeps the "
                "77 passing tests and was shown observation-identical to the original by its own differential driver (`diff.py`). `tools/harmless.sh Hk` "
                "applies the patch to a scratch worktree and runs the quick tier of every property whose anchored code it touches (the source "
                "fingerprints differ, so the thorough tier's cases are generated).\n\n| id | refactoring | site | checks run (result) |\n|---|---|---|---|\n")
        for f in hs:
            m = json.load(open(f))
            o.write("| %s | %s | %s | %s |\n" % (os.path.basename(os.path.dirname(f)), m.get("title", "").replace("|", "/")[:260],
                                                   m.get("site", "").replace("|", "/")[:160], m.get("check_results", "not run")))
print("%d seeds, %d caught by at least one check" % (len(rows), sum(1 for r in rows if r[5] != "-")))
