#!/bin/bash
# tools/applyfix.sh <patch> : apply one planned repair to /repo as its own "fix:" commit (subject/body from the patch mail header)
set -e
p="$1"
cd /repo
git apply --check "$p"
git apply "$p"
n=$(/venv/bin/python -m pytest -q -p no:cacheprovider --timeout=900 --continue-on-collection-errors 2>&1 | tail -1)
echo "suite: $n"
case "$n" in *"77 passed"*) ;; *) echo "suite changed, reverting"; git checkout -- .; exit 1;; esac
msg=$(python3 - "$p" <<'PY'
import sys, email, re
raw = open(sys.argv[1], encoding="utf-8").read()
if raw.startswith("From "):
    m = email.message_from_string(raw)
    subj = re.sub(r"^\[PATCH[^\]]*\]\s*", "", " ".join(m["Subject"].split()))
    body = m.get_payload().split("\n---\n")[0].strip()
    print(subj + ("\n\n" + body if body else ""))
else:
    print("")
PY
)
if [ -z "$msg" ]; then msg="$2"; fi
if [ -z "$msg" ]; then echo "no mail header in patch; give a message as 2nd argument"; git checkout -- .; exit 2; fi
git add -A
git commit -q -m "$msg"
git log --oneline | head -1
