#!/usr/bin/env python3
"""tools/seedprompt.py <round-dir> <Cxx> [<Cxx> ...]: write <round-dir>/<Cxx>.prompt.txt, the text handed to a fresh
seeding sub-agent (property text + the titles of the changes already collected; nothing else from /verif), and create
the scratch worktree <round-dir>/<Cxx> of /repo (detached HEAD)."""
import glob
import json
import os
import subprocess
import sys

VERIF = os.path.dirname(os.path.dirname(os.path.abspath(__file__)))
TEMPLATE = open(os.path.join(VERIF, "tools", "seedprompt.template.txt")).read()


def main():
    rd = os.path.abspath(sys.argv[1])
    os.makedirs(rd, exist_ok=True)
    props = {json.loads(l)["id"]: json.loads(l) for l in open(os.path.join(VERIF, "properties.jsonl"))}
    for pid in sys.argv[2:]:
        p = props[pid]
        titles = []
        for m in sorted(glob.glob(os.path.join(VERIF, "seeded", pid + "-*", "meta.json"))):
            titles.append("  * " + json.load(open(m)).get("title", "")[:160])
        wt = os.path.join(rd, pid)
        text = (TEMPLATE.replace("@WT@", wt).replace("@RD@", rd).replace("@PID@", pid)
                .replace("@TITLE@", p["title"]).replace("@STATEMENT@", p["statement"])
                .replace("@QUANT@", p["quantifier"]["text"]).replace("@COLLECTED@", "\n".join(titles)))
        open(os.path.join(rd, pid + ".prompt.txt"), "w").write(text)
        if not os.path.isdir(wt):
            subprocess.run(["git", "-C", os.environ.get("BAIZE_REPO", "/repo"), "worktree", "add", "--detach", wt],
                           check=True, stdout=subprocess.DEVNULL, stderr=subprocess.DEVNULL)
        print(pid, len(titles), "collected titles ->", os.path.join(rd, pid + ".prompt.txt"))


if __name__ == "__main__":
    main()
