#!/venv/bin/python
"""Which lines of baize do the implementation drivers of the checks execute?

    tools/covreport.py run [Cxx ...]   run the quick tier of the given (default: all) checks with VERIF_COVERAGE set
    tools/covreport.py report          combine and print per-file coverage and the lines never executed

A measurement of how much of the code is inside the tie between model and implementation; it decides nothing.
The evidence and replays of these runs go to a scratch directory."""
import glob
import os
import subprocess
import sys

VERIF = os.path.dirname(os.path.dirname(os.path.abspath(__file__)))
REPO = os.environ.get("BAIZE_REPO", "/repo")
OUT = os.path.join(VERIF, ".work", "coverage")


def run(pids):
    os.makedirs(OUT, exist_ok=True)
    for pid in pids:
        d = os.path.join(OUT, pid)
        subprocess.run(["rm", "-rf", d])
        env = dict(os.environ, VERIF_COVERAGE=d, VERIF_EVIDENCE_DIR=os.path.join(OUT, "evidence"),
                   VERIF_REPLAY_OUT=os.path.join(OUT, "replay-%s.json" % pid), VERIF_NO_ESCALATE="1")
        r = subprocess.run([os.path.join(VERIF, "check"), pid, "quick"], env=env, capture_output=True, text=True)
        print(pid, r.stdout.strip().split("\n")[-1][:200])


def report(pids):
    import coverage
    files = []
    for pid in pids:
        files += glob.glob(os.path.join(OUT, pid, "cov.*"))
    data = os.path.join(OUT, "combined")
    if os.path.exists(data):
        os.remove(data)
    cov = coverage.Coverage(data_file=data, branch=True, include=[os.path.join(REPO, "baize", "*")])
    cov.combine(files, keep=True)
    cov.save()
    cov.report(show_missing=True, file=sys.stdout)


if __name__ == "__main__":
    cmd = sys.argv[1] if len(sys.argv) > 1 else "report"
    allp = sorted(os.path.basename(p)[:3].upper() for p in glob.glob(os.path.join(VERIF, "harness", "c[0-9][0-9].py")))
    pids = sys.argv[2:] or allp
    (run if cmd == "run" else report)(pids)
