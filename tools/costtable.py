#!/venv/bin/python
"""Print the rows of DESIGN.md's cost table from the tree as it is: Coq lines and theorems per property, the quick tier's
cases / seconds from evidence/Cxx.json, the largest escalated run among the seeded changes."""
import glob, json, os, re, subprocess
V = os.path.dirname(os.path.dirname(os.path.abspath(__file__)))
tot_coq = tot_thm = 0
for i in range(1, 21):
    pid = "C%02d" % i
    files = [f for f in glob.glob(os.path.join(V, "coq/theories", pid, "*.v")) if not f.endswith(("Translated.v", "Generated_ref.v"))]
    lines = sum(len(open(f).read().splitlines()) for f in files)
    thms = len(re.findall(r"^Theorem ", open(os.path.join(V, "coq/theories", pid, "Properties.v")).read(), re.M))
    ev = json.load(open(os.path.join(V, "evidence", pid + ".json")))
    big = 0
    for m in glob.glob(os.path.join(V, "seeded", pid + "-*", "meta.json")):
        for c in json.load(open(m)).get("verification", {}).get("checks", {}).values():
            for d in c.get("detail", []):
                mm = re.search(r"of (\d+) cases differ", d)
                if mm:
                    big = max(big, int(mm.group(1)))
    tot_coq += lines
    tot_thm += thms
    print("| %s | %d | %d | %s / %.1f | %s |" % (pid, lines, thms, format(ev["coverage"]["evaluations"], ","), ev["wall_s"], format(big, ",") if big else ""))
allv = [f for f in glob.glob(os.path.join(V, "coq/theories/**/*.v"), recursive=True) if not f.endswith("Extract.v")]
print("all .v files: %d lines; property dirs: %d lines; theorems in Properties.v: %d" % (sum(len(open(f).read().splitlines()) for f in allv), tot_coq, tot_thm))
for d in ("harness", "tools"):
    print(d, sum(len(open(f, errors="replace").read().splitlines()) for f in glob.glob(os.path.join(V, d, "*")) if os.path.isfile(f)))
