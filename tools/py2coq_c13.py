#!/usr/bin/env python3
"""py2coq_c13 — the other header-mapping functions of property C13, translated from their CURRENT Python source to Gallina.

    tools/py2coq_c13.py [--repo /repo] [-o GeneratedMore.v]     translate
    tools/py2coq_c13.py --check [--repo /repo]                   translate, compile, re-check C13/TranslatedMore.v
    tools/py2coq_c13.py --pylib-check                            C13/PyLib.v against this interpreter

tools/py2coq.py ties MutableHeaders.__setitem__ (C13/Translated.v).  This module adds, from baize/datastructures.py,
    Headers.__getitem__          -> getitem  (str_lower) (self__dict) key                : PyStr.outcome str
    MutableHeaders.__delitem__   -> delitem  (str_lower) (self__dict) key                : dict * PyStr.outcome unit
    MutableHeaders.append        -> append   (str_lower) (self_setitem) (self__dict) key value : dict * PyStr.outcome unit
    Headers.__init__             -> init     (str_lower) items                            : PyStr.outcome dict
and coqc re-checks C13/TranslatedMore.v against the fresh definitions AND against the freshly translated __setitem__ (the
text tools/py2coq.py emits, with C13/Translated.v re-checked next to it): each function equals the C13.Model function for
every key, value and mapping, and the safety fact is derived from the translated definitions.

What the translator is told, and nothing else:
  * self._dict is a dict from str to str (an association list, threaded through a method that changes it);
  * str.lower is opaque: the argument str_lower of every generated function (the theorems put the model's lower there);
  * `self[k] = v` in a method of MutableHeaders is a call of MutableHeaders.__setitem__: the argument self_setitem of the
    generated function (the theorems put the function tools/py2coq.py translated from the same source there).  The translator
    checks that __setitem__ is one plain undecorated def of MutableHeaders;
  * `self[k]` is a call of the translated Headers.__getitem__ (checked: one plain def in Headers, none in MutableHeaders);
  * `k in self` is collections.abc.Mapping.__contains__ (try: self[k] / except KeyError: False / else: True), checked: neither
    class defines __contains__, the bases are typing.Mapping[str, str] and (Headers, typing.MutableMapping[str, str]), the class
    bodies hold nothing but a docstring, __slots__ and plain defs.  PyLib.mapping_contains is compared with the interpreter's
    mix-in on every run;
  * in Headers.__init__ the statements that choose `items` from `headers` (a Mapping -> its items(), None -> (), else the
    iterable itself) are not translated: they are compared, as a syntax tree, with the one shape known (ITEMS_PRELUDE) and
    `items` becomes the argument of the generated function: the list of (key, value) pairs the loop walks over.

FAIL CLOSED: anything else is refused (Unsupported -> the obligation is `not applicable`), never guessed.

Understood
  statements   x = <str expression>;  x: typing.Dict[str, str] = {}  (one local dict);  x: <annotation>  (no value);
               D[k] = v  for the local dict / self._dict;  self[k] = v;  del self._dict[k];  self._dict = <local dict> (the local
               name is gone afterwards: no alias);  if / elif / else on a bool (what follows is repeated in both branches);
               for a, b in items: (only in __init__, only over the pairs; carries the local dict; the first exception ends it);
               return <str expression> / return / return None;  a docstring;  pass
  expressions  names, str literals, f-strings of str fields without conversion / format, <str>.lower(), D[k] (KeyError when
               absent), self[k], k in D / k not in D, k in self / k not in self, not <bool>, self._dict (as D only)
"""
import ast
import importlib.util
import os
import re as _re
import sys

HERE = os.path.dirname(os.path.abspath(__file__))
_spec = importlib.util.spec_from_file_location("py2coq", os.path.join(HERE, "py2coq.py"))
py2coq = importlib.util.module_from_spec(_spec)
_spec.loader.exec_module(py2coq)
Unsupported = py2coq.Unsupported
lit_str, comment_of, paren = py2coq.lit_str, py2coq.comment_of, py2coq.paren

PID = "C13"
FILE = "baize/datastructures.py"
METHODS = [("Headers", "__getitem__", "getitem", "read"),
           ("MutableHeaders", "__delitem__", "delitem", "mut"),
           ("MutableHeaders", "append", "append", "mut"),
           ("Headers", "__init__", "init", "init")]
BASES = {"Headers": ["typing.Mapping[str, str]"], "MutableHeaders": ["Headers", "typing.MutableMapping[str, str]"]}
RESERVED = ("str", "typing", "isinstance", "KeyError", "Headers", "MutableHeaders")

ITEMS_PRELUDE = """
if isinstance(headers, typing.Mapping):
    items = typing.cast(typing.Iterable[typing.Tuple[str, str]], headers.items())
elif headers is None:
    items = ()
else:
    items = headers
"""

DICT_T = "list (str * str)"
SETITEM_T = "%s -> str -> str -> (%s) * (PyStr.outcome unit)" % (DICT_T, DICT_T)

HEADER = """(* GENERATED by tools/py2coq_c13.py from the Python source — do not edit.
   Structurally the Python: same statements, same branch order.  str_lower is str.lower, self_setitem is
   MutableHeaders.__setitem__ (arguments: nothing is claimed about them here); a method that changes the object takes and
   gives self._dict; an expression that may raise is a match on what it gives.  Dict operations are C13/PyLib.v and
   PyStr.dict_set. *)
From Coq Require Import List NArith ZArith Bool.
From Baize Require Import Lib.PyStr.
From Baize Require C13.PyLib.
Module PyLib := Baize.C13.PyLib.
Import ListNotations.
Local Open Scope N_scope.

"""


class Ctx:
    """the two classes as the source has them now; the facts about method resolution the translation relies on"""

    def __init__(self, repo):
        self.path = os.path.join(repo, FILE)
        self.src = open(self.path, encoding="utf-8").read()
        self.tree = ast.parse(self.src)
        self.classes = {}
        for cname, bases in BASES.items():
            found = [n for n in self.tree.body if isinstance(n, ast.ClassDef) and n.name == cname]
            if len(found) != 1:
                raise Unsupported(self.tree, "%d module-level classes named %s" % (len(found), cname))
            c = found[0]
            if c.decorator_list or c.keywords or [ast.unparse(b) for b in c.bases] != bases:
                raise Unsupported(c, "class %s: decorators, keywords or bases other than %s" % (cname, bases))
            for s in c.body:
                if isinstance(s, ast.Expr) and isinstance(s.value, ast.Constant) and isinstance(s.value.value, str):
                    continue
                if isinstance(s, ast.Assign) and len(s.targets) == 1 and isinstance(s.targets[0], ast.Name) and s.targets[0].id == "__slots__":
                    continue
                if isinstance(s, ast.FunctionDef) and not s.decorator_list:
                    continue
                raise Unsupported(s, "class %s holds something other than a docstring, __slots__ and plain undecorated defs" % cname)
            names = [s.name for s in c.body if isinstance(s, ast.FunctionDef)]
            if len(names) != len(set(names)):
                raise Unsupported(c, "class %s defines a method twice" % cname)
            self.classes[cname] = c
        imports = 0
        for n in ast.walk(self.tree):
            bound = None
            if isinstance(n, ast.Name) and not isinstance(n.ctx, ast.Load):
                bound = n.id
            elif isinstance(n, (ast.FunctionDef, ast.AsyncFunctionDef, ast.ClassDef)):
                bound = n.name
            elif isinstance(n, ast.arg):
                bound = n.arg
            elif isinstance(n, ast.alias):
                bound = (n.asname or n.name).split(".")[0]
                if bound == "*":
                    raise Unsupported(self.tree, "a star import")
                if n.name == "typing" and n.asname is None:
                    imports += 1
                    continue
            elif isinstance(n, (ast.Global, ast.Nonlocal)):
                raise Unsupported(n, "global / nonlocal statement")
            if bound in RESERVED and not (isinstance(n, ast.ClassDef) and n in self.classes.values()):
                raise Unsupported(n, "the name %s is bound somewhere in the module" % bound)
        if imports != 1 or not any(isinstance(s, ast.Import) and any(a.name == "typing" and a.asname is None for a in s.names)
                                   for s in self.tree.body):
            raise Unsupported(self.tree, "`import typing` is not one module-level statement")

    def defs(self, cname, name):
        return [s for s in self.classes[cname].body if isinstance(s, ast.FunctionDef) and s.name == name]

    def fdef(self, cname, name):
        f = self.defs(cname, name)
        if len(f) != 1:
            raise Unsupported(self.classes[cname], "%d definitions of %s.%s" % (len(f), cname, name))
        return f[0]

    def check_resolution(self, node, special):
        """how an instance of MutableHeaders finds a special method"""
        if special == "__contains__":
            if self.defs("MutableHeaders", special) or self.defs("Headers", special):
                raise Unsupported(node, "`in self` when a class defines __contains__")
            self.check_resolution(node, "__getitem__")
        elif special == "__getitem__":
            if self.defs("MutableHeaders", special) or len(self.defs("Headers", special)) != 1:
                raise Unsupported(node, "self[..] when __getitem__ is not the one def of Headers")
        elif special == "__setitem__":
            if len(self.defs("MutableHeaders", special)) != 1:
                raise Unsupported(node, "self[..] = .. when __setitem__ is not one def of MutableHeaders")
        else:
            raise Unsupported(node, "special method %s" % special)


class Tr:
    def __init__(self, ctx, cname, fdef, name, mode):
        self.ctx, self.cname, self.f, self.name, self.mode = ctx, cname, fdef, name, mode
        self.n = 0
        self.uses_setitem = False
        self.prelude = ast.dump(ast.parse(ITEMS_PRELUDE).body[0])

    def fresh(self, p):
        self.n += 1
        return "%s%d" % (p, self.n)

    # ---- what `return`, `raise` and the end of the function are
    def ret(self, value):
        if self.mode == "mut":
            return "(self__dict, PyStr.Ret %s)" % paren(value)
        return "PyStr.Ret %s" % paren(value)

    def raise_(self, exc):
        if self.mode == "mut":
            return "(self__dict, PyStr.Raise %s)" % paren(exc)
        return "PyStr.Raise %s" % paren(exc)

    def end(self, env):
        if self.mode == "mut":
            return self.ret("tt")
        if self.mode == "init":
            if env.get("self._dict") != "dict":
                raise Unsupported(self.f, "the end of __init__ is reached without self._dict assigned")
            return "PyStr.Ret self__dict"
        raise Unsupported(self.f, "control may reach the end of a function that returns a str")

    # ---- expressions, in continuation style: k(text, type) gives the text of what is done with the value
    def is_self(self, e):
        return isinstance(e, ast.Name) and e.id == "self"

    def is_self_dict(self, e):
        return isinstance(e, ast.Attribute) and self.is_self(e.value) and e.attr == "_dict"

    def dict_operand(self, e, env):
        """a dict-valued operand -> its Coq name (self._dict or the local dict), else None"""
        if self.is_self_dict(e):
            if env.get("self._dict") != "dict":
                raise Unsupported(e, "self._dict is read before it is assigned")
            return "self__dict"
        if isinstance(e, ast.Name) and env.get(e.id) == "dict":
            return "v_" + e.id
        return None

    def expr(self, e, env, k, pad):
        if isinstance(e, ast.Name):
            if e.id == "self" or e.id not in env or env[e.id] != "str":
                raise Unsupported(e, "name that is not a str bound on every path to here")
            return k("v_" + e.id, "str")
        if isinstance(e, ast.Constant) and type(e.value) is str:
            return k("(%s %s)" % (lit_str(e.value), comment_of(e.value)), "str")
        if isinstance(e, ast.JoinedStr):
            parts = []

            def go(i):
                if i == len(e.values):
                    return k("(%s)" % " ++ ".join(parts) if parts else "[]", "str")
                v = e.values[i]
                if isinstance(v, ast.Constant) and type(v.value) is str:
                    parts.append("%s %s" % (lit_str(v.value), comment_of(v.value)))
                    return go(i + 1)
                if isinstance(v, ast.FormattedValue) and v.conversion == -1 and v.format_spec is None:
                    def kk(c, t):
                        if t != "str":
                            raise Unsupported(v, "f-string field that is not a str")
                        parts.append(c)
                        return go(i + 1)
                    return self.expr(v.value, env, kk, pad)
                raise Unsupported(v, "f-string field with conversion or format")
            return go(0)
        if isinstance(e, ast.Call):
            f = e.func
            if isinstance(f, ast.Attribute) and f.attr == "lower" and not e.args and not e.keywords:
                def kk(c, t):
                    if t != "str":
                        raise Unsupported(e, ".lower() of a %s" % t)
                    return k("(str_lower %s)" % paren(c), "str")
                return self.expr(f.value, env, kk, pad)
            raise Unsupported(e, "call (only <str>.lower())")
        if isinstance(e, ast.Subscript) and isinstance(e.ctx, ast.Load):
            if isinstance(e.slice, ast.Slice):
                raise Unsupported(e, "slice")
            d = self.dict_operand(e.value, env)
            if d is not None:
                def kk(c, t):
                    if t != "str":
                        raise Unsupported(e, "dict key that is not a str")
                    x = self.fresh("x")
                    return ("match PyLib.dict_get %s %s with\n%s| None => %s\n%s| Some %s =>\n%s    %s\n%send"
                            % (paren(c), d, pad, self.raise_("PyLib.key_error"), pad, x, pad, k(x, "str"), pad))
                return self.expr(e.slice, env, kk, pad + "    ")
            if self.is_self(e.value) and self.mode == "mut":
                self.ctx.check_resolution(e, "__getitem__")

                def kk(c, t):
                    if t != "str":
                        raise Unsupported(e, "self[..] with a key that is not a str")
                    x, ex = self.fresh("x"), self.fresh("e")
                    return ("match getitem str_lower self__dict %s with\n%s| PyStr.Raise %s => %s\n%s| PyStr.Ret %s =>\n%s    %s\n%send"
                            % (paren(c), pad, ex, self.raise_(ex), pad, x, pad, k(x, "str"), pad))
                return self.expr(e.slice, env, kk, pad + "    ")
            raise Unsupported(e, "subscript (only <dict>[k] and self[k] in a method of MutableHeaders)")
        if isinstance(e, ast.Compare):
            if len(e.ops) != 1 or not isinstance(e.ops[0], (ast.In, ast.NotIn)):
                raise Unsupported(e, "comparison (only `in` / `not in` a dict or self)")
            neg = isinstance(e.ops[0], ast.NotIn)
            right = e.comparators[0]
            d = self.dict_operand(right, env)
            if d is not None:
                def kk(c, t):
                    if t != "str":
                        raise Unsupported(e, "`in` of a %s" % t)
                    b = "PyLib.dict_mem %s %s" % (paren(c), d)
                    return k("negb (%s)" % b if neg else "(%s)" % b, "bool")
                return self.expr(e.left, env, kk, pad)
            if self.is_self(right) and self.mode == "mut":
                self.ctx.check_resolution(e, "__contains__")

                def kk(c, t):
                    if t != "str":
                        raise Unsupported(e, "`in self` of a %s" % t)
                    b, ex = self.fresh("b"), self.fresh("e")
                    return ("match PyLib.mapping_contains (getitem str_lower self__dict %s) with\n%s| PyStr.Raise %s => %s\n%s| PyStr.Ret %s =>\n%s    %s\n%send"
                            % (paren(c), pad, ex, self.raise_(ex), pad, b, pad, k("negb %s" % b if neg else b, "bool"), pad))
                return self.expr(e.left, env, kk, pad + "    ")
            raise Unsupported(e, "`in` something that is neither a dict nor self")
        if isinstance(e, ast.UnaryOp) and isinstance(e.op, ast.Not):
            def kk(c, t):
                if t != "bool":
                    raise Unsupported(e, "not of a %s" % t)
                return k("negb %s" % paren(c), "bool")
            return self.expr(e.operand, env, kk, pad)
        raise Unsupported(e, "expression kind not supported")

    # ---- statements
    def block(self, stmts, env, k_end, pad):
        if not stmts:
            return k_end(env)
        s, rest = stmts[0], stmts[1:]

        def cont(env2=env, pad2=pad):
            return self.block(rest, env2, k_end, pad2)
        if isinstance(s, ast.Pass) or (isinstance(s, ast.Expr) and isinstance(s.value, ast.Constant) and isinstance(s.value.value, str)):
            return cont()
        if isinstance(s, ast.Return):
            if self.in_loop:
                raise Unsupported(s, "return inside a loop")
            if self.mode == "read":
                if s.value is None:
                    raise Unsupported(s, "bare return in a function that returns a str")

                def kk(c, t):
                    if t != "str":
                        raise Unsupported(s, "return of a %s" % t)
                    return self.ret(c)
                return self.expr(s.value, env, kk, pad)
            if s.value is None or (isinstance(s.value, ast.Constant) and s.value.value is None):
                return self.end(env)
            raise Unsupported(s, "return of a value from a function that returns None")
        if isinstance(s, ast.AnnAssign):
            if not (isinstance(s.target, ast.Name) and s.simple == 1) or s.target.id in env or s.target.id == "self":
                raise Unsupported(s, "annotated assignment to something that is not a new plain name")
            if s.value is None:
                return cont()
            if self.mode == "init" and not self.in_loop and isinstance(s.value, ast.Dict) and not s.value.keys \
                    and ast.unparse(s.annotation) == "typing.Dict[str, str]" and "dict" not in env.values():
                env2 = dict(env)
                env2[s.target.id] = "dict"
                return "let v_%s : %s := [] in\n%s%s" % (s.target.id, DICT_T, pad, cont(env2))
            raise Unsupported(s, "annotated assignment (only `x: typing.Dict[str, str] = {}` once in __init__)")
        if isinstance(s, ast.If) and self.mode == "init" and not self.in_loop and ast.dump(s) == self.prelude:
            if "items" in env or self.items_bound:
                raise Unsupported(s, "`items` is bound twice")
            self.items_bound = True
            env2 = dict(env)
            env2["items"] = "pairs"
            return cont(env2)
        if isinstance(s, ast.If):
            def kk(c, t):
                if t != "bool":
                    raise Unsupported(s.test, "condition that is not a bool")
                a = self.block(s.body, dict(env), lambda e2: self.block(rest, e2, k_end, pad + "    "), pad + "    ")
                b = self.block(s.orelse, dict(env), lambda e2: self.block(rest, e2, k_end, pad + "    "), pad + "    ")
                return "if %s\n%sthen\n%s    %s\n%selse\n%s    %s" % (c, pad, pad, a, pad, pad, b)
            return self.expr(s.test, env, kk, pad)
        if isinstance(s, ast.For):
            return self.stmt_for(s, env, cont, pad)
        if isinstance(s, ast.Assign):
            if len(s.targets) != 1:
                raise Unsupported(s, "chained assignment")
            tg = s.targets[0]
            if isinstance(tg, ast.Name):
                if tg.id == "self" or env.get(tg.id, "str") != "str" or tg.id in self.frozen:
                    raise Unsupported(s, "assignment to %s (only str-valued locals; inside a loop only names bound inside it)" % tg.id)

                def kk(c, t):
                    if t != "str":
                        raise Unsupported(s, "assignment of a %s to a local name" % t)
                    env2 = dict(env)
                    env2[tg.id] = "str"
                    return "let v_%s := %s in\n%s%s" % (tg.id, c, pad, cont(env2))
                return self.expr(s.value, env, kk, pad)
            if self.is_self_dict(tg):
                if self.mode != "init" or self.in_loop or env.get("self._dict") is not None:
                    raise Unsupported(s, "assignment to self._dict (only once, in __init__, outside the loop)")
                if not (isinstance(s.value, ast.Name) and env.get(s.value.id) == "dict"):
                    raise Unsupported(s, "self._dict = <something other than the local dict>")
                env2 = dict(env)
                del env2[s.value.id]            # the local name is gone: no second name for the object
                env2["self._dict"] = "dict"
                return "let self__dict := v_%s in\n%s%s" % (s.value.id, pad, cont(env2))
            if isinstance(tg, ast.Subscript) and not isinstance(tg.slice, ast.Slice):
                d = self.dict_operand(tg.value, env)
                if d is not None:
                    if d == "self__dict" and self.mode != "mut":
                        raise Unsupported(s, "self._dict[..] = .. outside a method that changes the object")

                    def kv(vc, vt):
                        def kkey(kc, kt):
                            if vt != "str" or kt != "str":
                                raise Unsupported(s, "dict assignment with a %s key and a %s value" % (kt, vt))
                            return "let %s := PyStr.dict_set %s %s %s in\n%s%s" % (d, paren(kc), paren(vc), d, pad, cont())
                        return self.expr(tg.slice, env, kkey, pad)
                    return self.expr(s.value, env, kv, pad)
                if self.is_self(tg.value) and self.mode == "mut" and not self.in_loop:
                    self.ctx.check_resolution(s, "__setitem__")
                    self.uses_setitem = True

                    def kv(vc, vt):
                        def kkey(kc, kt):
                            if vt != "str" or kt != "str":
                                raise Unsupported(s, "self[..] = .. with a %s key and a %s value" % (kt, vt))
                            o, ex = self.fresh("o"), self.fresh("e")
                            return ("let '(self__dict, %s) := self_setitem self__dict %s %s in\n%smatch %s with\n%s| PyStr.Raise %s => %s\n%s| PyStr.Ret _ =>\n%s    %s\n%send"
                                    % (o, paren(kc), paren(vc), pad, o, pad, ex, self.raise_(ex), pad, pad, cont(pad2=pad + "    "), pad))
                        return self.expr(tg.slice, env, kkey, pad)
                    return self.expr(s.value, env, kv, pad)
            raise Unsupported(s, "assignment target")
        if isinstance(s, ast.Delete):
            if len(s.targets) == 1 and isinstance(s.targets[0], ast.Subscript) and not isinstance(s.targets[0].slice, ast.Slice) \
                    and self.is_self_dict(s.targets[0].value) and self.mode == "mut" and not self.in_loop:
                def kk(c, t):
                    if t != "str":
                        raise Unsupported(s, "del with a key that is not a str")
                    d = self.fresh("d")
                    return ("match PyLib.dict_del %s self__dict with\n%s| None => %s\n%s| Some %s =>\n%s    let self__dict := %s in\n%s    %s\n%send"
                            % (paren(c), pad, self.raise_("PyLib.key_error"), pad, d, pad, d, pad, cont(pad2=pad + "    "), pad))
                return self.expr(s.targets[0].slice, env, kk, pad)
            raise Unsupported(s, "del (only `del self._dict[k]` in a method that changes the object)")
        raise Unsupported(s, "statement kind not supported")

    def stmt_for(self, s, env, cont, pad):
        if self.mode != "init" or self.in_loop or s.orelse or getattr(s, "type_comment", None):
            raise Unsupported(s, "for statement (only one loop, in __init__, without else)")
        if not (isinstance(s.iter, ast.Name) and env.get(s.iter.id) == "pairs"):
            raise Unsupported(s, "loop over something other than the (key, value) pairs")
        tg = s.target
        if not (isinstance(tg, ast.Tuple) and len(tg.elts) == 2 and all(isinstance(x, ast.Name) for x in tg.elts)
                and tg.elts[0].id != tg.elts[1].id and all(x.id not in env and x.id != "self" for x in tg.elts)):
            raise Unsupported(s, "loop target (only two new names)")
        state = [n for n, t in env.items() if t == "dict" and n != "self._dict"]
        if len(state) != 1:
            raise Unsupported(s, "a loop with %d local dicts" % len(state))
        st = "v_" + state[0]
        for n in ast.walk(s):
            if isinstance(n, (ast.Break, ast.Continue)):
                raise Unsupported(n, "break / continue")
        env2 = dict(env)
        for x in tg.elts:
            env2[x.id] = "str"
        self.in_loop = True
        old = self.frozen
        self.frozen = frozenset(n for n, t in env.items() if t == "str")

        def k_body(e2):
            if e2.get(state[0]) != "dict":
                raise Unsupported(s, "the local dict is gone at the end of the loop body")
            return "PyStr.Ret %s" % st
        body = self.block(s.body, env2, k_body, pad + "        ")
        self.in_loop = False
        self.frozen = old
        ex = self.fresh("e")
        return ("match PyLib.for_each v_%s %s (fun '(v_%s, v_%s) %s =>\n%s        %s) with\n%s| PyStr.Raise %s => %s\n%s| PyStr.Ret %s =>\n%s    %s\n%send"
                % (s.iter.id, st, tg.elts[0].id, tg.elts[1].id, st, pad, body, pad, ex, self.raise_(ex), pad, st, pad,
                   cont(pad2=pad + "    "), pad))

    def translate(self):
        f, a = self.f, self.f.args
        if a.vararg or a.kwarg or a.kwonlyargs or a.posonlyargs or not a.args or a.args[0].arg != "self" or a.args[0].annotation:
            raise Unsupported(f, "parameter list")
        self.in_loop, self.frozen, self.items_bound = False, frozenset(), False
        env, params = {}, []
        ret = ast.unparse(f.returns) if f.returns is not None else None
        if self.mode == "init":
            if len(a.args) != 2 or a.args[1].arg != "headers" or len(a.defaults) != 1 \
                    or not (isinstance(a.defaults[0], ast.Constant) and a.defaults[0].value is None) or ret != "None":
                raise Unsupported(f, "__init__ is not (self, headers=None) -> None")
            params = ["(v_items : list (str * str))"]
            rtype = "PyStr.outcome (%s)" % DICT_T
        else:
            if a.defaults:
                raise Unsupported(f, "default values")
            for p in a.args[1:]:
                if p.annotation is None or ast.unparse(p.annotation) != "str" or p.arg in ("items",):
                    raise Unsupported(p, "parameter that is not annotated str")
                env[p.arg] = "str"
                params.append("(v_%s : str)" % p.arg)
            if len(set(env)) != len(a.args) - 1:
                raise Unsupported(f, "repeated parameter name")
            env["self._dict"] = "dict"
            params.insert(0, "(self__dict : %s)" % DICT_T)
            if ret != ("str" if self.mode == "read" else "None"):
                raise Unsupported(f, "return annotation %s" % ret)
            rtype = "PyStr.outcome str" if self.mode == "read" else "(%s) * (PyStr.outcome unit)" % DICT_T
        body = self.block(list(f.body), env, self.end, "  ")
        if self.mode == "init" and not self.items_bound:
            raise Unsupported(f, "__init__ never chooses `items`")
        if self.uses_setitem:
            params.insert(0, "(self_setitem : %s)" % SETITEM_T)
        params.insert(0, "(str_lower : str -> str)")
        return "Definition %s %s : %s :=\n  %s.\n" % (self.name, " ".join(params), rtype, body)


def translate(repo):
    ctx = Ctx(repo)
    out = [HEADER]
    for cname, func, name, mode in METHODS:
        fdef = ctx.fdef(cname, func)
        text = Tr(ctx, cname, fdef, name, mode).translate()
        seg = ast.get_source_segment(ctx.src, fdef) or ""
        out.append("(* %s :: %s.%s, lines %d-%d\n%s\n*)\n" % (
            FILE, cname, func, fdef.lineno, fdef.end_lineno,
            "\n".join("   | " + l for l in py2coq.comment_safe(seg).splitlines())))
        out.append(text + "\n")
    return "".join(out)


def translate_setitem(repo):
    """the text tools/py2coq.py emits for MutableHeaders.__setitem__ (what C13/Translated.v is re-checked against)"""
    return py2coq.HEADER + "\n".join(py2coq.translate_spec(repo, sp) for sp in py2coq.TARGETS[PID])


# ---------------------------------------------------------------- the obligation

TEMPLATE_BLOCK = ("(* GENERATED-BEGIN *)\nFrom Baize Require C13.Translated.\nModule T := Baize.C13.Translated.\n"
                  "From Baize Require C13.GeneratedMore_ref.\nModule GM := Baize.C13.GeneratedMore_ref.\n(* GENERATED-END *)\n")
FRESH_BLOCK = ("(* GENERATED-BEGIN *)\nFrom Fresh Require Translated.\nModule T := Fresh.Translated.\n"
               "From Fresh Require GeneratedMore.\nModule GM := Fresh.GeneratedMore.\n(* GENERATED-END *)\n")


def check_target(repo=None, verif=None, timeout=120, keep=False):
    """-> [(name, ok, detail)]; ok None = not applicable (refusal, or coqc timed out), False = broken, True = holds"""
    import shutil
    import time
    repo = repo or os.environ.get("BAIZE_REPO", "/repo")
    verif = verif or py2coq.VERIF
    coq = os.path.join(verif, "coq")
    name = "%s/TranslatedMore.v (%s)" % (PID, ", ".join("%s.%s" % (c, f) for c, f, _, _ in METHODS))
    t0 = time.time()
    try:
        text = translate(repo)
        stext = translate_setitem(repo)
    except Unsupported as e:
        return [(name, None, "the translator does not understand the current source (it refuses rather than guess; this says "
                             "nothing about the behaviour of the code, the case-based tie decides alone): %s" % e)]
    except (OSError, SyntaxError) as e:
        return [(name, False, "cannot read the source: %s: %s" % (type(e).__name__, e))]
    except Exception as e:      # a defect of the translator itself: also closed
        return [(name, None, "the translator failed on the current source (%s: %s); the case-based tie decides alone" % (type(e).__name__, e))]
    bad = [t for t in py2coq.FORBIDDEN_TOKENS
           if _re.search(r"\b%s\b" % t, py2coq.strip_coq_comments(text.replace(HEADER, "") + stext.replace(py2coq.HEADER, "")))]
    if bad:
        return [(name, False, "generated text contains %s" % bad)]
    tdir = os.path.join(coq, "theories", PID)
    tsrc = open(os.path.join(tdir, "TranslatedMore.v")).read()
    t0src = open(os.path.join(tdir, "Translated.v")).read()
    block0 = py2coq.TEMPLATE_BLOCK % {"pid": PID}
    if tsrc.count(TEMPLATE_BLOCK) != 1 or t0src.count(block0) != 1:
        return [(name, False, "TranslatedMore.v / Translated.v do not contain the marked Require block exactly once")]
    plain = py2coq.strip_coq_comments(tsrc)
    thms = _re.findall(r"^\s*Theorem\s+(\w+)", plain, _re.M)
    printed = _re.findall(r"Print Assumptions\s+(\w+)\s*\.", plain)
    if not thms or [t for t in thms if t not in printed]:
        return [(name, False, "TranslatedMore.v: no theorem, or a theorem without Print Assumptions")]
    d = os.path.join(verif, ".work", "translate-%s-more-%d" % (PID, os.getpid()))
    fresh = os.path.join(d, "Fresh")
    shutil.rmtree(d, ignore_errors=True)
    os.makedirs(fresh)
    try:
        files = [("Generated.v", stext), ("Translated.v", t0src.replace(block0, py2coq.FRESH_BLOCK)),
                 ("GeneratedMore.v", text), ("TranslatedMore.v", tsrc.replace(TEMPLATE_BLOCK, FRESH_BLOCK))]
        for fn, content in files:
            with open(os.path.join(fresh, fn), "w") as f:
                f.write(content)
        base = ["-Q", "theories", "Baize", "-Q", fresh, "Fresh"]
        out = ""
        for fn, _ in files:
            rc, out, err = py2coq.run_coqc(base + [os.path.join(fresh, fn)], coq, timeout)
            if rc == 124:
                return [(name, None, "coqc did not finish within %d s; no verdict from the source-level tie in this run" % timeout)]
            if rc != 0 and fn.startswith("Generated"):
                return [(name, False, "the generated definition %s does not compile (rc %d): %s" % (fn, rc, (err or out)[-600:]))]
            if rc != 0:
                return [(name, False, "the proof that the functions translated from the current source equal the model functions "
                                      "no longer checks (%s, rc %d): %s" % (fn, rc, " ".join((err or out).split())[-600:]))]
        closed = out.count("Closed under the global context")
        if closed != len(printed) or "Axioms:" in out:
            return [(name, False, "Print Assumptions: %d of %d closed under the global context: %s" % (closed, len(printed), out[-300:]))]
        ref = os.path.join(tdir, "GeneratedMore_ref.v")
        same = os.path.exists(ref) and py2coq.definitions_only(open(ref).read()) == py2coq.definitions_only(text)
        return [(name, True, "%d theorem(s) re-checked against the definitions translated from %s, composed with the freshly "
                             "translated __setitem__ (%s the committed reference copy), closed under the global context, %.1f s" % (
                                 len(thms), FILE, "identical to" if same else "DIFFERENT from", time.time() - t0))]
    finally:
        if not keep:
            shutil.rmtree(d, ignore_errors=True)


# ---------------------------------------------------------------- C13/PyLib.v against the interpreter

KEYS = ["", "a", "b", "A", "ab"]            # the keys of py2coq's KEYSEQS
PYLIB_PRELUDE = """From Baize Require C13.PyLib.
Module PyLib := Baize.C13.PyLib.
Definition KEYS : list str := [[]; [97]; [98]; [65]; [97; 98]].
Definition mkd (ks : list str) : list (str * str) := fold_left (fun d k => dict_set k [N.of_nat (length d)] d) ks [].
Definition hd (d : list (str * str)) : N := hl (flat_map (fun kv => [fst kv; snd kv]) d).
Definition ho (o : PyStr.outcome str) : N := match o with PyStr.Ret s => 2 * hs s | PyStr.Raise e => 2 * hs e + 1 end.
Definition OUTS : list (PyStr.outcome str) := [PyStr.Ret [120]; PyStr.Raise PyLib.key_error; PyStr.Raise [86; 97; 108; 117; 101; 69; 114; 114; 111; 114]].
"""


def _mkd(ks):
    d = {}
    for k in ks:
        d[k] = chr(len(d))
    return d


def _hd(d):
    return py2coq._hl([x for kv in d.items() for x in kv])


def _ho(f):
    try:
        return 2 * py2coq._hs(f())
    except Exception as e:
        return 2 * py2coq._hs(type(e).__name__) + 1


def pylib_checks():
    """[(label, domain, coq function, python function)]"""
    import collections.abc
    cs = []

    def get_py(ks):
        d = _mkd(ks)
        return py2coq._hall([(py2coq._hs(d[q]) + 1 if q in d else 0) + (1000 if q in d else 0) for q in KEYS])
    cs.append(("d[k], k in d", "KEYSEQS",
               "fun ks => hall (map (fun q => match PyLib.dict_get q (mkd ks) with Some v => hs v + 1 | None => 0 end + "
               "(if PyLib.dict_mem q (mkd ks) then 1000 else 0)) KEYS)", get_py))

    def del_py(ks):
        out = []
        for q in KEYS:
            d = _mkd(ks)
            try:
                del d[q]
                out.append(_hd(d))
            except KeyError:
                out.append(5 if d == _mkd(ks) else 6)
        return py2coq._hall(out)
    cs.append(("del d[k]", "KEYSEQS",
               "fun ks => hall (map (fun q => match PyLib.dict_del q (mkd ks) with Some d => hd d | None => 5 end) KEYS)", del_py))

    def each_py(ks):
        def run():
            s = ""
            for k in ks:
                if k == "A":
                    raise ValueError(k)
                s = s + k + ","
            return s
        return _ho(run)
    cs.append(("for x in l: <body that may raise>", "KEYSEQS",
               "fun ks => ho (PyLib.for_each ks [] (fun k s => if str_eqb k [65] then PyStr.Raise "
               "[86; 97; 108; 117; 101; 69; 114; 114; 111; 114] else PyStr.Ret (s ++ k ++ [44])))", each_py))

    def contains_py(i):
        class M(collections.abc.Mapping):
            def __getitem__(self, key):
                if i == 0:
                    return "x"
                raise (KeyError if i == 1 else ValueError)(key)

            def __iter__(self):
                return iter(())

            def __len__(self):
                return 0
        return _ho(lambda: "T" if ("k" in M()) else "F")
    cs.append(("Mapping.__contains__", "IDX",
               "fun i => ho (match PyLib.mapping_contains (nth i OUTS (PyStr.Ret [])) with PyStr.Ret true => PyStr.Ret [84] "
               "| PyStr.Ret false => PyStr.Ret [70] | PyStr.Raise e => PyStr.Raise e end)", contains_py))
    return cs


def pylib_check(verif=None, timeout=120, keep=False):
    """-> [(name, ok, detail)]: C13/PyLib.v evaluated by coqc against the running interpreter"""
    import shutil
    import time
    verif = verif or py2coq.VERIF
    coq = os.path.join(verif, "coq")
    name = "C13/PyLib.v against the interpreter's dict, for statement and Mapping.__contains__"
    t0 = time.time()
    try:
        checks = pylib_checks()
        doms = {"KEYSEQS": py2coq.pystr_domains()["KEYSEQS"], "IDX": [0, 1, 2]}
        want = [py2coq._hall([py(x) for x in doms[dom]]) for _, dom, _, py in checks]
    except Exception as e:
        return [(name, None, "the comparison could not be set up (%s: %s)" % (type(e).__name__, e))]
    d = os.path.join(verif, ".work", "pylib-c13-%d" % os.getpid())
    shutil.rmtree(d, ignore_errors=True)
    os.makedirs(d)
    prelude = py2coq.PYSTR_PRELUDE % {"hostile": "[]", "small": "[]"} + PYLIB_PRELUDE + "Definition IDX : list nat := [0%nat; 1%nat; 2%nat].\n"
    try:
        vf = os.path.join(d, "PyLibCheck.v")
        with open(vf, "w") as f:
            f.write(prelude + "".join("Eval vm_compute in (hall (map (%s) %s)).\n" % (c, dom) for _, dom, c, _ in checks))
        rc, out, err = py2coq.run_coqc(["-Q", "theories", "Baize", vf], coq, timeout)
        if rc != 0:
            return [(name, None if rc == 124 else False, "coqc rc %d: %s" % (rc, (err or out)[-400:]))]
        res = [int(x) for x in _re.findall(r"=\s*(\d+)(?:%N)?\s*:\s*N\b", out)]
        if len(res) != len(checks):
            return [(name, False, "expected %d results from coqc, parsed %d" % (len(checks), len(res)))]
        bad = [label for (label, _, _, _), r, w in zip(checks, res, want) if r != w]
        if bad:
            return [(name, False, "differs from PyLib on: %s" % "; ".join(bad)[:500])]
        return [(name, True, "%d functions, %d evaluations inside coqc (every dict of <= 4 assignments over %d keys, probed with every "
                             "key), %.1f s" % (len(checks), sum(len(doms[dom]) for _, dom, _, _ in checks), len(KEYS), time.time() - t0))]
    finally:
        if not keep:
            shutil.rmtree(d, ignore_errors=True)


def obligations(repo=None, verif=None, timeout=120):
    """what harness/c13.py extra_obligations(tier) adds: the translation obligation and the PyLib comparison, side by side"""
    from concurrent.futures import ThreadPoolExecutor
    with ThreadPoolExecutor(2) as ex:
        a = ex.submit(check_target, repo, verif, timeout)
        b = ex.submit(pylib_check, verif, timeout)
        return list(a.result()) + list(b.result())


def main():
    import argparse
    ap = argparse.ArgumentParser()
    ap.add_argument("--repo", default=os.environ.get("BAIZE_REPO", "/repo"))
    ap.add_argument("-o", "--out")
    ap.add_argument("--check", action="store_true", help="translate, compile, re-check C13/TranslatedMore.v")
    ap.add_argument("--pylib-check", action="store_true", help="compare C13/PyLib.v with this interpreter")
    ap.add_argument("--keep", action="store_true")
    a = ap.parse_args()
    if a.check or a.pylib_check:
        res = check_target(a.repo, keep=a.keep) if a.check else pylib_check(keep=a.keep)
        for name, ok, detail in res:
            print("%s: %s — %s" % ("ok" if ok else "BROKEN" if ok is not None else "not applicable", name, detail))
        return 0 if all(ok for _, ok, _ in res) else 1
    try:
        text = translate(a.repo)
    except Unsupported as e:
        print("py2coq_c13: NOT TRANSLATED: %s" % e, file=sys.stderr)
        return 2
    if a.out:
        with open(a.out, "w") as f:
            f.write(text)
    else:
        sys.stdout.write(text)
    return 0


if __name__ == "__main__":
    sys.exit(main())
