#!/usr/bin/env python3
"""py2coq — translate a few small pure functions of baize from their CURRENT Python source to Gallina.

    tools/py2coq.py --target C14 [--repo /repo] [-o Generated.v]      translate the target function(s) of a property
    tools/py2coq.py --target C14 --check [--repo /repo]               translate, compile, re-check <Cxx>/Translated.v
    tools/py2coq.py --pystr-check                                     Lib/PyStr.v against this interpreter's str methods
    tools/py2coq.py --pylist-check                                    Lib/PyList.v against this interpreter's list and dict
    tools/py2coq.py --target C17 [--check]                            the methods of a class (METHOD_TARGETS), one by one
    tools/py2coq.py --file baize/x.py --func Class.method [--name n] [--attr a=TYPE ...]
                    [--typevar T ...] [--opaque str.lower ...] [-o out.v]

The source is read with `ast` from $BAIZE_REPO (default /repo) every time; nothing is cached.  The output is a
Gallina file that defines, per function, one definition that is *structurally the Python*: the same statements in
the same order, the same branch order, one call of a Lib/PyStr.v function per str operation.  The hand-written
model is never mentioned: coq/theories/<Cxx>/Translated.v proves the generated function equal to it.

FAIL CLOSED.  Only the syntax listed below is understood.  Anything else — an unknown statement or expression
node, a method that is not in the table, an argument shape for which the PyStr function is not exact, a name
that is not bound, an operand whose type cannot be established — ends the run with exit status 2 and a message
that names the node and the line.  A refactoring the translator cannot digest is therefore reported as a broken
obligation, never translated into something else.

Understood
  types        str, bool, int, None, Optional[T], Tuple[..], List[T] / Sequence[T], Dict[str, V], declared TypeVars
               (from the annotations of the parameters, the return annotation, --attr for self.<attribute>)
  statements   x = e, (a, b) = e, x: T = e; self.<dict attribute>[k] = v (state is threaded and returned);
               if / elif / else; for <name or tuple of names> in <list expression>: (a local fix over the list;
               `return` inside leaves the loop, variables assigned in the body that exist before the loop are
               carried; no break / continue / else); return [e]; raise Name("literal") (the function then returns
               PyStr.outcome); a leading docstring; pass
  expressions  names, self.<declared attribute>, str / int / bool / None literals, tuples, lists of expressions,
               f-strings of str-typed {names} without conversion or format; and / or / not on bool (not s, and the
               truth value of s, for str and list); == != (str, int, bool, tuples and Optional of those),
               < <= > >= (int), chained comparisons; `in` / `not in` (str in str); + (str, list, int), - * (int);
               len(s); s[a:], s[:b], s[a:b] with non-negative integer literals or len(..) as bounds; x[i] for a
               tuple x and a literal i
  str methods  split(non-empty literal), strip() lstrip() rstrip() (white space), strip(literal) lstrip(literal)
               rstrip(literal), startswith(str) endswith(str); a method named by --opaque (e.g. str.lower) becomes
               an argument of the generated function: nothing is claimed about it
"""
import argparse
import ast
import os
import sys

TARGETS = {
    "C14": [dict(file="baize/staticfiles.py", func="BaseFiles.if_none_match", name="if_none_match")],
    "C09": [dict(file="baize/routing.py", func="BaseSubpaths.search", name="search",
                 attrs={"_route_array": "List[Tuple[str, Interface]]"}, typevars=["Interface"])],
    "C13": [dict(file="baize/datastructures.py", func="MutableHeaders.__setitem__", name="setitem",
                 attrs={"_dict": "Dict[str, str]"}, opaque=["str.lower"])],
}


class Unsupported(Exception):
    def __init__(self, node, why):
        self.node, self.why = node, why
        line = getattr(node, "lineno", "?")
        what = type(node).__name__ if isinstance(node, ast.AST) else str(node)
        try:
            src = ast.unparse(node) if isinstance(node, ast.AST) else ""
        except Exception:
            src = ""
        Exception.__init__(self, "line %s: %s node not translated: %s%s" % (
            line, what, why, (" — `%s`" % src.replace("\n", "; ")[:120]) if src else ""))


# ---------------------------------------------------------------- types
# 'str' 'bool' 'int' 'none' ('list', T) ('tuple', (T, ..)) ('option', T) ('dict', K, V) ('var', name)

def ty_coq(t):
    if t == "str":
        return "str"
    if t == "bool":
        return "bool"
    if t == "int":
        return "Z"
    if t == "none":
        return "unit"
    if t == "index":        # a position in a list as enumerate() gives it: an int that is never negative
        return "nat"
    if t[0] == "list":
        return "list %s" % ty_atom(t[1])
    if t[0] == "tuple":
        return "(%s)" % " * ".join(ty_atom(x) for x in t[1])
    if t[0] == "option":
        return "option %s" % ty_atom(t[1])
    if t[0] == "dict":
        return "list (%s * %s)" % (ty_atom(t[1]), ty_atom(t[2]))
    if t[0] == "var":
        return t[1]
    raise ValueError(t)


def ty_atom(t):
    s = ty_coq(t)
    return s if (" " not in s or s.startswith("(")) else "(%s)" % s


def parse_type(node, typevars):
    """a Python annotation -> type"""
    if isinstance(node, ast.Constant) and node.value is None:
        return "none"
    if isinstance(node, ast.Constant) and isinstance(node.value, str):
        return parse_type(ast.parse(node.value, mode="eval").body, typevars)
    if isinstance(node, ast.Attribute) and isinstance(node.value, ast.Name) and node.value.id in ("typing", "t"):
        node = ast.Name(id=node.attr, lineno=getattr(node, "lineno", 0))
    if isinstance(node, ast.Name):
        if node.id in ("str", "bool", "int"):
            return node.id
        if node.id in typevars:
            return ("var", node.id)
        raise Unsupported(node, "type not understood")
    if isinstance(node, ast.Subscript):
        head = node.value
        if isinstance(head, ast.Attribute) and isinstance(head.value, ast.Name) and head.value.id in ("typing", "t"):
            head = ast.Name(id=head.attr)
        if not isinstance(head, ast.Name):
            raise Unsupported(node, "type not understood")
        args = node.slice.elts if isinstance(node.slice, ast.Tuple) else [node.slice]
        if head.id == "Optional" and len(args) == 1:
            return ("option", parse_type(args[0], typevars))
        if head.id in ("List", "Sequence", "list") and len(args) == 1:
            return ("list", parse_type(args[0], typevars))
        if head.id in ("Tuple", "tuple") and args and not any(isinstance(a, ast.Constant) and a.value is Ellipsis for a in args):
            return ("tuple", tuple(parse_type(a, typevars) for a in args))
        if head.id in ("Dict", "dict") and len(args) == 2:
            k = parse_type(args[0], typevars)
            if k != "str":
                raise Unsupported(node, "only dicts with str keys")
            return ("dict", k, parse_type(args[1], typevars))
    raise Unsupported(node, "type not understood")


# ---------------------------------------------------------------- the translator of one function



def lit_str(s):
    return "[%s]" % "; ".join(str(ord(c)) for c in s) if s else "[]"


def comment_safe(text):
    """text that can stand inside a Coq comment: no comment brackets, every double quote doubled (Coq lexes string
    literals inside comments; "" is its escape)"""
    return text.replace("(*", "( *").replace("*)", "* )").replace('"', '""')


def comment_of(s):
    return "(* %s *)" % comment_safe(ascii(s))


class Fn:
    def __init__(self, fdef, spec):
        self.f = fdef
        self.spec = spec
        self.typevars = list(spec.get("typevars", []))
        self.opaque = list(spec.get("opaque", []))
        self.attrs = {a: parse_type(ast.parse(t, mode="eval").body, self.typevars) for a, t in spec.get("attrs", {}).items()}
        self.nloop = 0

    # ---- names
    def var(self, name):
        return "v_" + name

    def attr(self, name):
        return "self_" + name

    # ---- expressions: -> (coq text, type)
    def expr(self, e, env):
        m = getattr(self, "e_" + type(e).__name__, None)
        if m is None:
            raise Unsupported(e, "expression kind not supported")
        return m(e, env)

    def e_Name(self, e, env):
        if e.id not in env:
            raise Unsupported(e, "name is not a parameter or a local variable bound on every path to here")
        return self.var(e.id), env[e.id]

    def e_Attribute(self, e, env):
        if isinstance(e.value, ast.Name) and e.value.id == "self" and "self" not in env and e.attr in self.attrs:
            return self.attr(e.attr), self.attrs[e.attr]
        raise Unsupported(e, "attribute access (only declared attributes of self)")

    def e_Constant(self, e, env):
        v = e.value
        if isinstance(v, bool):
            return ("true" if v else "false"), "bool"
        if isinstance(v, int):
            return ("%d%%Z" % v if v >= 0 else "(%d)%%Z" % v), "int"
        if isinstance(v, str):
            return "%s %s" % (lit_str(v), comment_of(v)) if v else "[]", "str"
        if v is None:
            return "tt", "none"
        raise Unsupported(e, "literal of this kind")

    def e_Tuple(self, e, env):
        if not e.elts or any(isinstance(x, ast.Starred) for x in e.elts):
            raise Unsupported(e, "empty or starred tuple")
        parts = [self.expr(x, env) for x in e.elts]
        if len(parts) == 1:
            raise Unsupported(e, "one-element tuple")
        return "(%s)" % ", ".join(p[0] for p in parts), ("tuple", tuple(p[1] for p in parts))

    def e_List(self, e, env):
        if not e.elts or any(isinstance(x, ast.Starred) for x in e.elts):
            raise Unsupported(e, "empty or starred list display (element type unknown)")
        parts = [self.expr(x, env) for x in e.elts]
        if any(p[1] != parts[0][1] for p in parts):
            raise Unsupported(e, "list display with elements of different types")
        return "[%s]" % "; ".join(p[0] for p in parts), ("list", parts[0][1])

    def e_JoinedStr(self, e, env):
        parts = []
        for v in e.values:
            if isinstance(v, ast.Constant) and isinstance(v.value, str):
                parts.append(self.e_Constant(v, env)[0])
            elif isinstance(v, ast.FormattedValue) and v.conversion == -1 and v.format_spec is None:
                c, t = self.expr(v.value, env)
                if t != "str":
                    raise Unsupported(v, "f-string field that is not a str")
                parts.append(c)
            else:
                raise Unsupported(v, "f-string field with conversion or format")
        return ("(%s)" % " ++ ".join(parts) if parts else "[]"), "str"

    def truth(self, e, env):
        """the truth value of e, as a bool"""
        c, t = self.expr(e, env)
        if t == "bool":
            return c
        if t == "str" or (isinstance(t, tuple) and t[0] == "list"):
            return "negb (PyStr.is_empty %s)" % paren(c)
        raise Unsupported(e, "truth value of a %s" % (t,))

    def e_UnaryOp(self, e, env):
        if isinstance(e.op, ast.Not):
            c, t = self.expr(e.operand, env)
            if t == "bool":
                return "negb %s" % paren(c), "bool"
            if t == "str" or (isinstance(t, tuple) and t[0] == "list"):
                return "PyStr.is_empty %s" % paren(c), "bool"
            raise Unsupported(e, "not of a %s" % (t,))
        if isinstance(e.op, ast.USub):
            c, t = self.expr(e.operand, env)
            if t == "int":
                return "(- %s)%%Z" % paren(c), "int"
        raise Unsupported(e, "unary operator")

    def e_BoolOp(self, e, env):
        parts = [self.expr(v, env) for v in e.values]
        if any(t != "bool" for _, t in parts):
            raise Unsupported(e, "and / or with an operand that is not a bool (its value would be the operand)")
        op = " && " if isinstance(e.op, ast.And) else " || "
        return "(%s)" % op.join(paren(c) for c, _ in parts), "bool"

    def eq(self, a, ta, b, tb, node):
        if ta != tb:
            raise Unsupported(node, "== between %s and %s" % (ta, tb))
        if ta == "str":
            return "PyStr.str_eqb %s %s" % (paren(a), paren(b))
        if ta == "int":
            return "Z.eqb %s %s" % (paren(a), paren(b))
        if ta == "bool":
            return "Bool.eqb %s %s" % (paren(a), paren(b))
        raise Unsupported(node, "== on %s" % (ta,))

    def e_Compare(self, e, env):
        operands = [self.expr(x, env) for x in [e.left] + list(e.comparators)]
        out = []
        for k, op in enumerate(e.ops):
            (a, ta), (b, tb) = operands[k], operands[k + 1]
            if isinstance(op, ast.Eq):
                out.append(self.eq(a, ta, b, tb, e))
            elif isinstance(op, ast.NotEq):
                out.append("negb (%s)" % self.eq(a, ta, b, tb, e))
            elif isinstance(op, (ast.In, ast.NotIn)):
                if ta != "str" or tb != "str":
                    raise Unsupported(e, "`in` other than str in str")
                c = "PyStr.contains %s %s" % (paren(a), paren(b))
                out.append(c if isinstance(op, ast.In) else "negb (%s)" % c)
            elif isinstance(op, (ast.Lt, ast.LtE, ast.Gt, ast.GtE)):
                if ta != "int" or tb != "int":
                    raise Unsupported(e, "order comparison other than on int")
                fn = {ast.Lt: "Z.ltb", ast.LtE: "Z.leb", ast.Gt: "Z.gtb", ast.GtE: "Z.geb"}[type(op)]
                out.append("%s %s %s" % (fn, paren(a), paren(b)))
            else:
                raise Unsupported(e, "comparison operator %s" % type(op).__name__)
        if len(out) == 1:
            return out[0], "bool"
        return "(%s)" % " && ".join(paren(o) for o in out), "bool"

    def e_BinOp(self, e, env):
        (a, ta), (b, tb) = self.expr(e.left, env), self.expr(e.right, env)
        if isinstance(e.op, ast.Add):
            if ta == tb and (ta == "str" or (isinstance(ta, tuple) and ta[0] == "list")):
                return "(%s ++ %s)" % (paren(a), paren(b)), ta
            if ta == tb == "int":
                return "(%s + %s)%%Z" % (paren(a), paren(b)), "int"
        if isinstance(e.op, (ast.Sub, ast.Mult)) and ta == tb == "int":
            return "(%s %s %s)%%Z" % (paren(a), "-" if isinstance(e.op, ast.Sub) else "*", paren(b)), "int"
        raise Unsupported(e, "binary operator on %s and %s" % (ta, tb))

    def e_IfExp(self, e, env):
        c = self.truth(e.test, env)
        (a, ta), (b, tb) = self.expr(e.body, env), self.expr(e.orelse, env)
        if ta != tb:
            raise Unsupported(e, "conditional expression with branches of different types")
        return "(if %s then %s else %s)" % (c, a, b), ta

    def nat_bound(self, e, env):
        """a slice bound that is certainly >= 0: a literal or len(..) -> nat"""
        if isinstance(e, ast.Constant) and isinstance(e.value, int) and not isinstance(e.value, bool) and e.value >= 0:
            return "%d%%nat" % e.value
        if isinstance(e, ast.Call) and isinstance(e.func, ast.Name) and e.func.id == "len" and "len" not in env \
                and len(e.args) == 1 and not e.keywords:
            c, t = self.expr(e.args[0], env)
            if t == "str" or (isinstance(t, tuple) and t[0] == "list"):
                return "(length %s)" % paren(c)
        raise Unsupported(e, "slice bound that is not a non-negative literal or len(..) (negative bounds count from the end)")

    def e_Subscript(self, e, env):
        c, t = self.expr(e.value, env)
        if isinstance(e.slice, ast.Slice):
            if not (t == "str" or (isinstance(t, tuple) and t[0] == "list")):
                raise Unsupported(e, "slice of a %s" % (t,))
            s = e.slice
            if s.step is not None:
                raise Unsupported(e, "slice with a step")
            if s.lower is not None and s.upper is None:
                return "PyStr.slice_from %s %s" % (self.nat_bound(s.lower, env), paren(c)), t
            if s.lower is None and s.upper is not None:
                return "PyStr.slice_to %s %s" % (self.nat_bound(s.upper, env), paren(c)), t
            if s.lower is not None and s.upper is not None:
                return "PyStr.slice %s %s %s" % (self.nat_bound(s.lower, env), self.nat_bound(s.upper, env), paren(c)), t
            return c, t
        if isinstance(t, tuple) and t[0] == "tuple" and isinstance(e.slice, ast.Constant) and isinstance(e.slice.value, int) \
                and 0 <= e.slice.value < len(t[1]):
            k, n = e.slice.value, len(t[1])
            pat = ", ".join("p%d" % i if i == k else "_" for i in range(n))
            return "(let '(%s) := %s in p%d)" % (pat, c, k), t[1][k]
        raise Unsupported(e, "subscript (only slices of str / list and literal indices of tuples)")

    def e_Call(self, e, env):
        if e.keywords:
            raise Unsupported(e, "call with keyword arguments")
        if any(isinstance(a, ast.Starred) for a in e.args):
            raise Unsupported(e, "call with starred arguments")
        f = e.func
        if isinstance(f, ast.Name) and f.id == "len" and "len" not in env and len(e.args) == 1:
            c, t = self.expr(e.args[0], env)
            if t == "str" or (isinstance(t, tuple) and t[0] in ("list", "dict")):
                return "PyStr.len %s" % paren(c), "int"
            raise Unsupported(e, "len of a %s" % (t,))
        if isinstance(f, ast.Attribute):
            c, t = self.expr(f.value, env)
            if t == "str":
                return self.str_method(e, f.attr, c, env)
            raise Unsupported(e, "method of a %s" % (t,))
        raise Unsupported(e, "call (only len(..) and the listed str methods)")

    def const_str(self, node, nonempty):
        if isinstance(node, ast.Constant) and isinstance(node.value, str) and (node.value or not nonempty):
            return "%s %s" % (lit_str(node.value), comment_of(node.value)) if node.value else "[]"
        raise Unsupported(node, "argument must be a %sstr literal" % ("non-empty " if nonempty else ""))

    def str_method(self, e, name, c, env):
        args = e.args
        if "str." + name in self.opaque:
            if args:
                raise Unsupported(e, "opaque method with arguments")
            return "str_%s %s" % (name, paren(c)), "str"
        if name == "split" and len(args) == 1:
            return "PyStr.split %s %s" % (paren(self.const_str(args[0], True)), paren(c)), ("list", "str")
        if name in ("strip", "lstrip", "rstrip"):
            if not args:
                return "PyStr.%s_ws %s" % (name, paren(c)), "str"
            if len(args) == 1:
                return "PyStr.%s_chars %s %s" % (name, paren(self.const_str(args[0], False)), paren(c)), "str"
        if name in ("startswith", "endswith") and len(args) == 1:
            a, ta = self.expr(args[0], env)
            if ta != "str":
                raise Unsupported(e, "%s with an argument that is not a str (a tuple of prefixes, positions)" % name)
            return "PyStr.%s %s %s" % ("starts_with" if name == "startswith" else "ends_with", paren(a), paren(c)), "bool"
        raise Unsupported(e, "str method %s with %d argument(s)" % (name, len(args)))

    # ---- statements.  block(stmts, env, k) -> coq text of the function's result.
    # k(env) gives the text for "control reaches the end of this block"; None means: the end of the function.

    def always_leaves(self, stmts):
        """does control never reach the end of this block?"""
        for s in stmts:
            if isinstance(s, (ast.Return, ast.Raise)):
                return True
            if isinstance(s, ast.If) and s.orelse and self.always_leaves(s.body) and self.always_leaves(s.orelse):
                return True
        return False

    def has_exit(self, stmts):
        for s in stmts:
            for n in ast.walk(s):
                if isinstance(n, (ast.Return, ast.Raise)):
                    return True
        return False

    def assigned(self, stmts):
        """names (and 'self.<attr>') a block may assign, in order of first appearance"""
        out = []

        def add(n):
            if n not in out:
                out.append(n)

        def target(t):
            if isinstance(t, ast.Name):
                add(t.id)
            elif isinstance(t, ast.Tuple):
                for x in t.elts:
                    target(x)
            elif isinstance(t, ast.Subscript) and isinstance(t.value, ast.Attribute) and isinstance(t.value.value, ast.Name) \
                    and t.value.value.id == "self":
                add("self." + t.value.attr)
            else:
                raise Unsupported(t, "assignment target")

        for s in stmts:
            for n in ast.walk(s):
                if isinstance(n, ast.Assign):
                    for t in n.targets:
                        target(t)
                elif isinstance(n, (ast.AnnAssign, ast.AugAssign)):
                    target(n.target)
                elif isinstance(n, ast.For):
                    target(n.target)
                elif isinstance(n, (ast.NamedExpr, ast.With, ast.Try, ast.FunctionDef, ast.ClassDef, ast.Import,
                                    ast.ImportFrom, ast.Global, ast.Nonlocal, ast.Delete, ast.While, ast.AsyncFor,
                                    ast.AsyncWith, ast.Lambda, ast.ListComp, ast.SetComp, ast.DictComp, ast.GeneratorExp)):
                    raise Unsupported(n, "statement / expression kind not supported")
        return out

    def ret(self, value_text, env):
        """the function's result for `return <value>`: state attributes first, outcome wrapper when it may raise"""
        v = "PyStr.Ret %s" % paren(value_text) if self.raises else value_text
        if self.state:
            return "(%s)" % ", ".join([self.attr(a) for a in self.state] + [v])
        return v

    def stmt_return(self, s, env):
        rt = self.rtype
        if s is None or s.value is None or (isinstance(s.value, ast.Constant) and s.value.value is None):
            if rt == "none":
                return self.ret("tt", env)
            if isinstance(rt, tuple) and rt[0] == "option":
                return self.ret("None", env)
            raise Unsupported(s if s is not None else self.f, "the function may return None but its return type is %s" % (rt,))
        c, t = self.expr(s.value, env)
        if t == rt:
            return self.ret(c, env)
        if isinstance(rt, tuple) and rt[0] == "option" and t == rt[1]:
            return self.ret("Some %s" % paren(c), env)
        raise Unsupported(s, "returns a %s, the function's return type is %s" % (t, rt))

    def stmt_raise(self, s, env):
        x = s.exc
        if s.cause is not None or x is None:
            raise Unsupported(s, "raise without a class / with a cause")
        if isinstance(x, ast.Call):
            if x.keywords or not all(isinstance(a, ast.Constant) for a in x.args):
                raise Unsupported(s, "exception arguments must be literals")
            x = x.func
        if not isinstance(x, ast.Name):
            raise Unsupported(s, "raise of something that is not a plain class name")
        v = "PyStr.Raise %s %s" % (lit_str(x.id), comment_of(x.id))
        if self.state:
            return "(%s)" % ", ".join([self.attr(a) for a in self.state] + [v])
        return v

    def bind(self, target, t, env, node):
        """pattern text for binding a value of type t to an assignment target; extends env"""
        if isinstance(target, ast.Name):
            if target.id == "self":
                raise Unsupported(node, "assignment to self")
            env[target.id] = t
            return self.var(target.id)
        if isinstance(target, ast.Tuple) and isinstance(t, tuple) and t[0] == "tuple" and len(t[1]) == len(target.elts) \
                and all(isinstance(x, ast.Name) for x in target.elts) and len({x.id for x in target.elts}) == len(target.elts):
            for x, tx in zip(target.elts, t[1]):
                env[x.id] = tx
            return "'(%s)" % ", ".join(self.var(x.id) for x in target.elts)
        raise Unsupported(node, "assignment target does not fit a value of type %s" % (t,))

    def block(self, stmts, env, k, ind):
        if not stmts:
            return k(env) if k is not None else self.stmt_return(None, env)
        s, rest = stmts[0], stmts[1:]
        pad = "  " * ind
        if isinstance(s, ast.Expr) and isinstance(s.value, ast.Constant) and isinstance(s.value.value, str):
            return self.block(rest, env, k, ind)          # docstring
        if isinstance(s, ast.Pass):
            return self.block(rest, env, k, ind)
        if isinstance(s, ast.Return):
            if rest:
                raise Unsupported(rest[0], "statement after return")
            return self.stmt_return(s, env)
        if isinstance(s, ast.Raise):
            if rest:
                raise Unsupported(rest[0], "statement after raise")
            return self.stmt_raise(s, env)
        if isinstance(s, (ast.Assign, ast.AnnAssign)):
            if isinstance(s, ast.Assign):
                if len(s.targets) != 1:
                    raise Unsupported(s, "chained assignment")
                target, value = s.targets[0], s.value
            else:
                target, value = s.target, s.value
                if value is None:
                    raise Unsupported(s, "annotation without a value")
            env = dict(env)
            if isinstance(target, ast.Subscript):
                a = target.value
                if not (isinstance(a, ast.Attribute) and isinstance(a.value, ast.Name) and a.value.id == "self"
                        and a.attr in self.state and not isinstance(target.slice, ast.Slice)):
                    raise Unsupported(s, "item assignment (only self.<declared dict attribute>[key] = value)")
                td = self.attrs[a.attr]
                kc, kt = self.expr(target.slice, env)
                vc, vt = self.expr(value, env)
                if td[0] != "dict" or kt != td[1] or vt != td[2]:
                    raise Unsupported(s, "item assignment of %s : %s into %s" % (kt, vt, td))
                return "let %s := PyStr.dict_set %s %s %s in\n%s%s" % (
                    self.attr(a.attr), paren(kc), paren(vc), self.attr(a.attr), pad, self.block(rest, env, k, ind))
            c, t = self.expr(value, env)
            if isinstance(s, ast.AnnAssign) and parse_type(s.annotation, self.typevars) != t:
                raise Unsupported(s, "annotation differs from the type of the value")
            pat = self.bind(target, t, env, s)
            return "let %s := %s in\n%s%s" % (pat, c, pad, self.block(rest, env, k, ind))
        if isinstance(s, ast.If):
            cond = self.truth(s.test, env)
            if not self.has_exit(s.body) and not self.has_exit(s.orelse):
                # no way out of the function inside: the statement only updates variables
                names = self.assigned(s.body + s.orelse)
                vs = []
                for n in names:
                    if n.startswith("self."):
                        if n[5:] not in self.state:
                            raise Unsupported(s, "assignment to an undeclared attribute")
                        vs.append((n, self.attr(n[5:])))
                    else:
                        vs.append((n, self.var(n)))
                if not vs:
                    raise Unsupported(s, "if statement without any effect")
                tup = vs[0][1] if len(vs) == 1 else "(%s)" % ", ".join(v for _, v in vs)
                pat = vs[0][1] if len(vs) == 1 else "'" + tup
                envs = []

                def fin(e2, tup=tup, vs=vs, envs=envs, s=s):
                    for n, _ in vs:
                        if not n.startswith("self.") and n not in e2:
                            raise Unsupported(s, "variable %s is not bound on every path through the if statement" % n)
                    envs.append(e2)
                    return tup
                a = self.block(s.body, dict(env), fin, ind + 2)
                b = self.block(s.orelse, dict(env), fin, ind + 2)
                env2 = dict(env)
                for n, _ in vs:
                    if not n.startswith("self."):
                        ts = {repr(e2[n]) for e2 in envs}
                        if len(ts) != 1:
                            raise Unsupported(s, "variable %s gets different types in the branches" % n)
                        env2[n] = envs[0][n]
                return "let %s :=\n%s  if %s\n%s  then %s\n%s  else %s in\n%s%s" % (
                    pat, pad, cond, pad, a, pad, b, pad, self.block(rest, env2, k, ind))
            # a branch may leave the function: what follows the statement is the continuation of both branches
            if rest and not self.always_leaves(s.body) and not self.always_leaves(s.orelse or []):
                # both branches would carry a copy of everything that follows
                raise Unsupported(s, "if statement where both branches may fall through to further statements and one "
                                     "may leave the function (the continuation would have to be duplicated)")

            def after(e2):
                return self.block(rest, e2, k, ind + 1)
            a = self.block(s.body, dict(env), after, ind + 1)
            b = self.block(s.orelse, dict(env), after, ind + 1)
            return "if %s\n%sthen %s\n%selse %s" % (cond, pad, a, pad, b)
        if isinstance(s, ast.For):
            return self.stmt_for(s, rest, env, k, ind)
        raise Unsupported(s, "statement kind not supported")

    def stmt_for(self, s, rest, env, k, ind):
        pad = "  " * ind
        if s.orelse:
            raise Unsupported(s, "for .. else")
        for n in ast.walk(s):
            if isinstance(n, (ast.Break, ast.Continue)):
                raise Unsupported(n, "break / continue")
        ic, it = self.expr(s.iter, env)
        if not (isinstance(it, tuple) and it[0] == "list"):
            raise Unsupported(s.iter, "for over a %s (only lists)" % (it,))
        # variables assigned in the body that exist before the loop are carried from one round to the next; the loop
        # variable(s) and variables first assigned in the body are not visible after the loop (a later use of one is
        # refused as an unbound name)
        names = self.assigned([s])
        carried = []
        for n in names:
            if n.startswith("self."):
                if n[5:] not in self.state:
                    raise Unsupported(s, "assignment to an undeclared attribute")
                carried.append((n, self.attr(n[5:]), self.attrs[n[5:]]))
            elif n in env:
                carried.append((n, self.var(n), env[n]))
        self.nloop += 1
        sfx = "" if self.nloop == 1 else str(self.nloop)
        loop, lv, lt, xv = "loop" + sfx, "l" + sfx, "l" + sfx + "'", "x" + sfx
        tnames = [s.target.id] if isinstance(s.target, ast.Name) else [x.id for x in getattr(s.target, "elts", []) if isinstance(x, ast.Name)]
        for n in tnames:
            if n in env:
                raise Unsupported(s, "loop variable %s is also a variable bound before the loop" % n)
        carried = [c for c in carried if c[0] not in tnames]
        env_body = dict(env)
        pat = self.bind(s.target, it[1], env_body, s)
        rtxt = self.result_type_text()

        def again(e2):
            for n, v, t in carried:
                if not n.startswith("self.") and e2.get(n) != t:
                    raise Unsupported(s, "carried variable %s changes its type in the loop" % n)
            return " ".join([loop, lt] + [v for _, v, _ in carried])
        body = self.block(s.body, env_body, again, ind + 3)
        env_after = {n: t for n, t in env.items()}
        done = self.block(rest, env_after, k, ind + 3)
        binders = "".join(" (%s : %s)" % (v, ty_coq(t)) for _, v, t in carried)
        head = "%s :: %s" % (xv if pat.startswith("'") else pat, lt)
        pre = "let %s := %s in\n%s      " % (pat, xv, pad) if pat.startswith("'") else ""
        return ("(fix %s (%s : list %s)%s {struct %s} : %s :=\n%s   match %s with\n%s   | [] =>\n%s      %s\n%s   | %s =>\n%s      %s%s\n%s   end) %s%s"
                % (loop, lv, ty_atom(it[1]), binders, lv, rtxt, pad, lv, pad, pad, done, pad, head, pad, pre, body, pad, paren(ic),
                   "".join(" " + v for _, v, _ in carried)))

    def result_type_text(self):
        r = ty_coq(self.rtype)
        if self.raises:
            r = "PyStr.outcome %s" % ty_atom(self.rtype)
        if self.state:
            r = "(%s)" % " * ".join([ty_atom(self.attrs[a]) for a in self.state] + [paren(r)])
        return r

    # ---- the definition
    def translate(self):
        f = self.f
        a = f.args
        if a.vararg or a.kwarg or a.kwonlyargs or a.posonlyargs or a.defaults or a.kw_defaults:
            raise Unsupported(f, "parameters other than plain positional ones without defaults")
        for d in f.decorator_list:
            if not (isinstance(d, ast.Name) and d.id == "staticmethod"):
                raise Unsupported(d, "decorator")
        if isinstance(f, ast.AsyncFunctionDef):
            raise Unsupported(f, "async function")
        params = list(a.args)
        is_method = bool(params) and params[0].arg == "self" and params[0].annotation is None
        if is_method:
            params = params[1:]
        env = {}
        binders = []
        for p in params:
            if p.annotation is None:
                raise Unsupported(p, "parameter without annotation")
            env[p.arg] = parse_type(p.annotation, self.typevars)
            binders.append("(%s : %s)" % (self.var(p.arg), ty_coq(env[p.arg])))
        if f.returns is None:
            raise Unsupported(f, "no return annotation")
        self.rtype = parse_type(f.returns, self.typevars)
        self.raises = any(isinstance(n, ast.Raise) for n in ast.walk(f))
        assigned = self.assigned(f.body)
        self.state = [n[5:] for n in assigned if n.startswith("self.")]
        for st in self.state:
            if st not in self.attrs:
                raise Unsupported(f, "assignment into undeclared attribute self.%s" % st)
        for n in ast.walk(f):
            if isinstance(n, ast.Name) and n.id == "self" and not is_method:
                raise Unsupported(n, "self outside a method")
        used_attrs = []
        for n in ast.walk(f):
            if isinstance(n, ast.Attribute) and isinstance(n.value, ast.Name) and n.value.id == "self":
                if n.attr not in self.attrs:
                    raise Unsupported(n, "attribute of self that was not declared to the translator")
                if n.attr not in used_attrs:
                    used_attrs.append(n.attr)
        used_opaque = [o for o in self.opaque
                       if any(isinstance(n, ast.Attribute) and n.attr == o.split(".")[1] for n in ast.walk(f))]
        body = self.block(list(f.body), env, None, 1)
        tv = "".join(" {%s : Type}" % v for v in self.typevars)
        ob = "".join(" (%s : str -> str)" % o.replace(".", "_") for o in used_opaque)
        ab = "".join(" (%s : %s)" % (self.attr(x), ty_coq(self.attrs[x])) for x in used_attrs)
        return "Definition %s%s%s%s %s : %s :=\n  %s.\n" % (
            self.spec["name"], tv, ob, ab, " ".join(binders), self.result_type_text(), body)


def paren(c):
    c = c.strip()
    if c.startswith("(") and c.endswith(")") and balanced(c[1:-1]):
        return c
    if c.startswith("[") and c.endswith("]") and "(*" not in c:
        return c
    if all(ch.isalnum() or ch in "_'." for ch in c):
        return c
    return "(%s)" % c


def balanced(s):
    d = 0
    for ch in s:
        if ch == "(":
            d += 1
        elif ch == ")":
            d -= 1
            if d < 0:
                return False
    return d == 0


def find_function(tree, qualname):
    parts = qualname.split(".")
    scope = tree.body
    node = None
    for i, p in enumerate(parts):
        found = [n for n in scope if isinstance(n, (ast.FunctionDef, ast.AsyncFunctionDef, ast.ClassDef)) and n.name == p]
        if len(found) != 1:
            raise Unsupported(tree, "%d definitions named %s (of %s)" % (len(found), p, qualname))
        node = found[0]
        scope = node.body
    if not isinstance(node, ast.FunctionDef):
        raise Unsupported(node, "%s is not a plain function" % qualname)
    return node


def translate_spec(repo, spec):
    path = os.path.join(repo, spec["file"])
    src = open(path, encoding="utf-8").read()
    tree = ast.parse(src)
    fdef = find_function(tree, spec["func"])
    text = Fn(fdef, spec).translate()
    seg = ast.get_source_segment(src, fdef) or ""
    head = "(* %s :: %s, lines %d-%d\n%s\n*)\n" % (
        spec["file"], spec["func"], fdef.lineno, fdef.end_lineno,
        "\n".join("   | " + l for l in comment_safe(seg).splitlines()))
    return head + text


HEADER = """(* GENERATED by tools/py2coq.py from the Python source — do not edit.
   Structurally the Python: same statements, same branch order; str operations are calls of Lib/PyStr.v. *)
From Coq Require Import List NArith ZArith Bool.
From Baize Require Import Lib.PyStr.
Import ListNotations.
Local Open Scope N_scope.

"""


# ---------------------------------------------------------------- the obligation: translate, compile, re-check the proof

VERIF = os.path.dirname(os.path.dirname(os.path.abspath(__file__)))

FORBIDDEN_TOKENS = ("Admitted", "admit", "Axiom", "Axioms", "Parameter", "Parameters", "Conjecture", "Conjectures",
                    "Variable", "Variables", "Hypothesis", "Hypotheses", "Context", "Unset", "Set", "bypass_check")

TEMPLATE_BLOCK = "(* GENERATED-BEGIN *)\nFrom Baize Require %(pid)s.Generated_ref.\nModule G := Baize.%(pid)s.Generated_ref.\n(* GENERATED-END *)\n"
FRESH_BLOCK = "(* GENERATED-BEGIN *)\nFrom Fresh Require Generated.\nModule G := Fresh.Generated.\n(* GENERATED-END *)\n"


def strip_coq_comments(src):
    out, depth, i, instr = [], 0, 0, False
    while i < len(src):
        if depth and src[i] == '"':
            instr = not instr
            i += 1
        elif not instr and src.startswith("(*", i):
            depth += 1
            i += 2
        elif not instr and src.startswith("*)", i) and depth:
            depth -= 1
            i += 2
        else:
            if not depth:
                out.append(src[i])
            i += 1
    return "".join(out)


def definitions_only(text):
    """the generated text without comments and without the fixed header"""
    return "\n".join(l.rstrip() for l in strip_coq_comments(text).splitlines() if l.strip())


def run_coqc(args, cwd, timeout):
    import subprocess
    try:
        r = subprocess.run(["timeout", str(int(timeout)), "coqc"] + args, cwd=cwd, capture_output=True, text=True,
                           timeout=timeout + 10)
    except subprocess.TimeoutExpired:
        return 124, "", "coqc did not finish within %d s" % timeout
    return r.returncode, r.stdout, r.stderr


def check_target(pid, repo=None, verif=None, timeout=120, keep=False):
    """Translate the target functions of property <pid> from the source in <repo> as it is NOW, compile the generated file,
    and re-run coqc on coq/theories/<pid>/Translated.v against it.  -> [(name, ok, detail)]"""
    import re
    import shutil
    import time
    repo = repo or os.environ.get("BAIZE_REPO", "/repo")
    verif = verif or VERIF
    coq = os.path.join(verif, "coq")
    specs = TARGETS[pid]
    name = "%s/Translated.v (%s)" % (pid, ", ".join(sp["func"] for sp in specs))
    t0 = time.time()
    try:
        text = HEADER + "\n".join(translate_spec(repo, sp) for sp in specs)
    except Unsupported as e:
        # not applicable (None), not broken: the function was rewritten into a shape outside the translator's subset.  The
        # source-level tie then says nothing; the case-based tie (escalated to the thorough tier's cases by the source
        # fingerprint) decides alone, as it does for every function that was never translated.
        return [(name, None, "the translator does not understand the current source (it refuses rather than guess; this says "
                             "nothing about the behaviour of the code, the case-based tie decides alone): %s" % e)]
    except (OSError, SyntaxError) as e:
        return [(name, False, "cannot read the source: %s: %s" % (type(e).__name__, e))]
    except Exception as e:      # a defect of the translator itself: also closed
        return [(name, None, "the translator failed on the current source (%s: %s); the case-based tie decides alone" % (type(e).__name__, e))]
    bad = [t for t in FORBIDDEN_TOKENS if re.search(r"\b%s\b" % t, strip_coq_comments(text.replace(HEADER, "")))]
    if bad:
        return [(name, False, "generated text contains %s" % bad)]
    tv = os.path.join(coq, "theories", pid, "Translated.v")
    tsrc = open(tv).read()
    block = TEMPLATE_BLOCK % {"pid": pid}
    if tsrc.count(block) != 1:
        return [(name, False, "%s does not contain the marked Require block exactly once" % tv)]
    thms = re.findall(r"^\s*Theorem\s+(\w+)", strip_coq_comments(tsrc), re.M)
    printed = re.findall(r"Print Assumptions\s+(\w+)\s*\.", strip_coq_comments(tsrc))
    if not thms or [t for t in thms if t not in printed]:
        return [(name, False, "Translated.v: no theorem, or a theorem without Print Assumptions")]
    d = os.path.join(verif, ".work", "translate-%s-%d" % (pid, os.getpid()))
    fresh = os.path.join(d, "Fresh")
    shutil.rmtree(d, ignore_errors=True)
    os.makedirs(fresh)
    try:
        with open(os.path.join(fresh, "Generated.v"), "w") as f:
            f.write(text)
        with open(os.path.join(fresh, "Translated.v"), "w") as f:
            f.write(tsrc.replace(block, FRESH_BLOCK))
        base = ["-Q", "theories", "Baize", "-Q", fresh, "Fresh"]
        rc, out, err = run_coqc(base + [os.path.join(fresh, "Generated.v")], coq, timeout)
        if rc != 0:
            return [(name, False, "the generated definition does not compile (rc %d): %s" % (rc, (err or out)[-600:]))]
        rc, out, err = run_coqc(base + [os.path.join(fresh, "Translated.v")], coq, timeout)
        if rc == 124:       # the machine is too busy (the proof takes 2 s): no verdict from this tie, the case-based tie decides
            return [(name, None, "coqc did not finish within %d s; no verdict from the source-level tie in this run" % timeout)]
        if rc != 0:
            return [(name, False, "the proof that the function translated from the current source equals the model function "
                                  "no longer checks (rc %d): %s" % (rc, " ".join((err or out).split())[-600:]))]
        closed = out.count("Closed under the global context")
        if closed != len(printed) or "Axioms:" in out:
            return [(name, False, "Print Assumptions: %d of %d closed under the global context: %s" % (closed, len(printed), out[-300:]))]
        ref = os.path.join(coq, "theories", pid, "Generated_ref.v")
        same = os.path.exists(ref) and definitions_only(open(ref).read()) == definitions_only(text)
        return [(name, True, "%d theorem(s) re-checked against the definition translated from %s (%s the committed reference "
                             "copy), closed under the global context, %.1f s" % (
                                 len(thms), ", ".join(sorted({sp["file"] for sp in specs})),
                                 "identical to" if same else "DIFFERENT from", time.time() - t0))]
    finally:
        if not keep:
            shutil.rmtree(d, ignore_errors=True)


# ---------------------------------------------------------------- Lib/PyStr.v against the interpreter's str methods
#
# Every PyStr function is evaluated inside coqc (vm_compute) on every word up to length 3 over a hostile 18-letter
# alphabet and up to length 4 over a 6-letter one (the words are enumerated in Coq, not written as literals), the
# results are hashed per function, and the same hash is computed from the interpreter's own str methods.  A function
# whose hash differs is evaluated again word by word to name the first word on which it differs.

HOSTILE = [0, 9, 10, 11, 12, 13, 28, 31, 32, 34, 42, 44, 47, 87, 97, 133, 160, 0x2028]
SMALL = [32, 34, 44, 87, 47, 97]
M31 = 2 ** 31 - 1      # hashes: shift, add, mask (cheap inside the kernel's virtual machine; an odd multiplier, so one
                       # differing member always changes the sum)


def _hs(r):
    a = 7
    for c in r:
        a = (a * 33 + ord(c) + 1) & M31
    return a


def _hb(b):
    return 2 if b else 1


def _hl(r):
    a = 11
    for m in r:
        a = (a * 129 + _hs(m) + 3) & M31
    return a


def _hall(hs):
    a = 13
    for h in hs:
        a = (a * 65 + h + 5) & M31
    return a


def _words(alpha, n):
    import itertools
    out = []
    for k in range(n + 1):
        out.extend("".join(chr(c) for c in t) for t in itertools.product(alpha, repeat=k))
    return out


def _coq_str(s):
    return "[%s]" % "; ".join(str(ord(c)) for c in s)


def pystr_checks():
    """[(label, domain, coq function : domain element -> N, python function)]
    domains: W = words <= 3 over HOSTILE and <= 4 over SMALL; WM = words <= 4 over SMALL; WS = words <= 5 over 3 letters"""
    cs = []

    def add(label, coq, py, dom="W"):
        cs.append((label, dom, coq, py))
    add("not s", "fun s => hb (is_empty s)", lambda s: _hb(not s))
    add("len(s)", "fun s => Z.to_N (len s)", lambda s: len(s))
    add("s.strip()", "fun s => hs (strip_ws s)", lambda s: _hs(s.strip()))
    add("s.lstrip()", "fun s => hs (lstrip_ws s)", lambda s: _hs(s.lstrip()))
    add("s.rstrip()", "fun s => hs (rstrip_ws s)", lambda s: _hs(s.rstrip()))
    for ch in ['"', '" ', "", ",\x85a", "W/"]:
        dom = "W" if ch in ('"', '" ') else "WM"
        add("s.strip(%r)" % ch, "fun s => hs (strip_chars %s s)" % _coq_str(ch), lambda s, ch=ch: _hs(s.strip(ch)), dom)
        add("s.lstrip(%r)" % ch, "fun s => hs (lstrip_chars %s s)" % _coq_str(ch), lambda s, ch=ch: _hs(s.lstrip(ch)), dom)
        add("s.rstrip(%r)" % ch, "fun s => hs (rstrip_chars %s s)" % _coq_str(ch), lambda s, ch=ch: _hs(s.rstrip(ch)), dom)
    for p in ["W/", "", "a", "aa", "/", '"', " ", "a/"]:
        dom = "W" if p == "W/" else "WM"
        add("s.startswith(%r)" % p, "fun s => hb (starts_with %s s)" % _coq_str(p), lambda s, p=p: _hb(s.startswith(p)), dom)
        add("s.endswith(%r)" % p, "fun s => hb (ends_with %s s)" % _coq_str(p), lambda s, p=p: _hb(s.endswith(p)), dom)
        add("%r in s" % p, "fun s => hb (contains %s s)" % _coq_str(p), lambda s, p=p: _hb(p in s), dom)
    for p in ["\n", "\r", "\0", ","]:
        add("%r in s" % p, "fun s => hb (contains %s s)" % _coq_str(p), lambda s, p=p: _hb(p in s))
    for sep in [",", "W/", "aa", "a", " ", '","', "aWa"]:
        add("s.split(%r)" % sep, "fun s => hl (split %s s)" % _coq_str(sep), lambda s, sep=sep: _hl(s.split(sep)),
            "W" if sep == "," else "WM")
    for a in range(5):
        add("s[%d:]" % a, "fun s => hs (slice_from %d s)" % a, lambda s, a=a: _hs(s[a:]), "WS")
        add("s[:%d]" % a, "fun s => hs (slice_to %d s)" % a, lambda s, a=a: _hs(s[:a]), "WS")
        for b in range(5):
            add("s[%d:%d]" % (a, b), "fun s => hs (slice %d %d s)" % (a, b), lambda s, a=a, b=b: _hs(s[a:b]), "WS")
    add("s[len(s):]", "fun s => hs (slice_from (length s) s)", lambda s: _hs(s[len(s):]), "WS")
    add("a == b", "fun ab => hb (str_eqb (fst ab) (snd ab))", lambda ab: _hb(ab[0] == ab[1]), "PAIRS")
    add("a + b", "fun ab => hs (fst ab ++ snd ab)", lambda ab: _hs(ab[0] + ab[1]), "PAIRS")
    add("a.startswith(b)", "fun ab => hb (starts_with (snd ab) (fst ab))", lambda ab: _hb(ab[0].startswith(ab[1])), "PAIRS")
    add("a.endswith(b)", "fun ab => hb (ends_with (snd ab) (fst ab))", lambda ab: _hb(ab[0].endswith(ab[1])), "PAIRS")
    add("b in a", "fun ab => hb (contains (snd ab) (fst ab))", lambda ab: _hb(ab[1] in ab[0]), "PAIRS")

    def dict_py(ks):
        d = {}
        for k in ks:
            d[k] = chr(len(d))
        return _hl([x for kv in d.items() for x in kv])
    add("d[k] = v", "fun ks => hl (flat_map (fun kv => [fst kv; snd kv]) "
                    "(fold_left (fun d k => dict_set k [N.of_nat (length d)] d) ks []))", dict_py, "KEYSEQS")
    return cs


PYSTR_PRELUDE = """From Coq Require Import List NArith ZArith Bool.
From Baize Require Import Lib.PyStr.
Import ListNotations.
Local Open Scope N_scope.
Definition M31 : N := 2147483647.
Definition hs (r : str) : N := fold_left (fun a c => N.land (N.shiftl a 5 + a + c + 1) M31) r 7.
Definition hb (b : bool) : N := if b then 2 else 1.
Definition hl (r : list str) : N := fold_left (fun a m => N.land (N.shiftl a 7 + a + hs m + 3) M31) r 11.
Definition hall (rs : list N) : N := fold_left (fun a h => N.land (N.shiftl a 6 + a + h + 5) M31) rs 13.
Fixpoint exact {T : Type} (alpha : list T) (n : nat) : list (list T) :=
  match n with O => [[]] | S k => flat_map (fun c => map (cons c) (exact alpha k)) alpha end.
Fixpoint upto {T : Type} (alpha : list T) (n : nat) : list (list T) :=
  match n with O => exact alpha 0 | S k => upto alpha k ++ exact alpha (S k) end.
Definition HOSTILE : list N := %(hostile)s.
Definition SMALL : list N := %(small)s.
Definition W : list str := upto HOSTILE 3 ++ upto SMALL 4.
Definition WM : list str := upto SMALL 4.
Definition WS : list str := upto [97; 47; 32] 5.
Definition W2 : list str := upto SMALL 2.
Definition PAIRS : list (str * str) := flat_map (fun a => map (fun b => (a, b)) W2) (upto SMALL 3).
Definition KEYSEQS : list (list str) := upto [[]; [97]; [98]; [65]; [97; 98]] 4.
Fixpoint upfrom (n : nat) (c : N) : list N := match n with O => [] | S k => c :: upfrom k (N.succ c) end.
Definition SPACES : list N := filter is_space (upfrom (64 * 196 + 1) 0).   (* code points 0 .. 0x3100 *)
"""


def pystr_domains():
    import itertools
    w2 = _words(SMALL, 2)
    keys = ["", "a", "b", "A", "ab"]
    return {"W": _words(HOSTILE, 3) + _words(SMALL, 4), "WM": _words(SMALL, 4), "WS": _words([97, 47, 32], 5),
            "PAIRS": [(a, b) for a in _words(SMALL, 3) for b in w2],
            "KEYSEQS": [list(t) for k in range(5) for t in itertools.product(keys, repeat=k)]}


def pystr_check(verif=None, timeout=120, keep=False):
    """-> [(name, ok, detail)]: Lib/PyStr.v evaluated by coqc against the str methods of the running interpreter"""
    import re
    import shutil
    import time
    verif = verif or VERIF
    coq = os.path.join(verif, "coq")
    name = "Lib/PyStr.v against the interpreter's str methods"
    t0 = time.time()
    checks = pystr_checks()
    doms = pystr_domains()
    d = os.path.join(verif, ".work", "pystr-%d" % os.getpid())
    shutil.rmtree(d, ignore_errors=True)
    os.makedirs(d)
    prelude = PYSTR_PRELUDE % {"hostile": "[%s]" % "; ".join(map(str, HOSTILE)), "small": "[%s]" % "; ".join(map(str, SMALL))}

    def evaluate(fname, lines):
        vf = os.path.join(d, fname)
        with open(vf, "w") as f:
            f.write(prelude + "".join(lines))
        rc, out, err = run_coqc(["-Q", "theories", "Baize", vf], coq, timeout)
        if rc != 0:
            raise RuntimeError("coqc rc %d: %s" % (rc, (err or out)[-400:]))
        blocks = re.split(r"\n\s*: (?:N|list N)\b", out)
        return [[int(x) for x in re.findall(r"\b(\d+)(?:%N)?\b", b.split("=", 1)[1])] for b in blocks if "=" in b]

    try:
        try:
            res = evaluate("PyStrCheck.v", ["Eval vm_compute in SPACES.\n"] +
                           ["Eval vm_compute in (hall (map (%s) %s)).\n" % (coq_f, dom) for _, dom, coq_f, _ in checks])
        except RuntimeError as e:
            return [(name, None if "rc 124" in str(e) else False, str(e))]
        if len(res) != len(checks) + 1:
            return [(name, False, "expected %d results from coqc, parsed %d" % (len(checks) + 1, len(res)))]
        bad = []
        py_spaces = [c for c in range(0x110000) if chr(c).isspace()]
        strip_spaces = [c for c in range(0x110000) if (chr(c) + "x" + chr(c)).strip() == "x"]
        if res[0] != py_spaces or strip_spaces != py_spaces:
            bad.append("is_space: PyStr %s, str.isspace %s, removed by str.strip() %s" % (
                sorted(set(res[0]) ^ set(py_spaces)), len(py_spaces), sorted(set(strip_spaces) ^ set(py_spaces))))
        n_eval = 0
        for (label, dom, coq_f, py_f), r in zip(checks, res[1:]):
            n_eval += len(doms[dom])
            want = _hall([py_f(x) for x in doms[dom]])
            if r != [want]:
                # word by word
                try:
                    per = evaluate("PyStrDetail.v", ["Eval vm_compute in (map (%s) %s).\n" % (coq_f, dom)])[0]
                except RuntimeError as e:
                    per = []
                first = next((x for x, h in zip(doms[dom], per) if py_f(x) != h), None)
                bad.append("%s differs from PyStr, first on %r" % (label, first))
                if len(bad) >= 3:
                    break
        if bad:
            return [(name, False, "; ".join(bad)[:600])]
        return [(name, True, "%d functions/argument shapes, %d evaluations inside coqc (every word of length <= 3 over %d hostile code "
                             "points and <= 4 over %d), is_space = str.isspace on all code points, %.1f s" % (
                                 len(checks), n_eval, len(HOSTILE), len(SMALL), time.time() - t0))]
    finally:
        if not keep:
            shutil.rmtree(d, ignore_errors=True)


# ---------------------------------------------------------------- methods of a class whose state is a pair list and a dict
#
# C17: MultiMapping / MutableMultiMapping keep self._list (a list of (key, value) pairs) and self._dict (a dict).  Each method
# is translated on its own into a Gallina function over the threaded state: a method that changes the state takes
# self__list and self__dict and gives (self__list, self__dict, PyStr.outcome <result>) -- always both attributes, always an
# outcome, so that one method can call another --; a method that only reads gives its result.  The key and value types are
# type variables; `==` on keys is the argument KT_eqb (nothing is claimed about it).  List and dict operations are calls of
# Lib/PyList.v.
#
# Understood (everything else is refused, per method)
#   statements   x = <expression that builds a new list, or a non-list value>   (never an alias of a list / dict object);
#                self._list = <new list>;  self._list.append(e) / .clear() / .extend(<generator or new list>);
#                self._dict[k] = e  (e may be l[-1]: IndexError when l is empty);  del self._dict[k]  (KeyError);
#                del self[k]  (a call of the translated __delitem__ of the class);  try: del self[k]  except <Class>: pass;
#                self._list[i] = e,  del self._list[i]  for a position i that enumerate gave (IndexError when there is no such
#                position);  x = l[0]  (IndexError when l is empty);
#                if / elif / else (what follows it in the block becomes a local function of the state that both branches end
#                with);  for <fresh name> in <local list, reversed(local list)>:  (a local fix over the list that carries the
#                state; no break / continue / else, no assignment to a variable bound outside);
#                return [e];  a docstring;  pass
#   expressions  names, self._list, self._dict, tuples, == and != on keys / values of the same type variable is only
#                understood for keys (KT_eqb);  `k in self`  (when no class defines __contains__ and __getitem__ is
#                `return self._dict[key]`: the Mapping mix-in then answers from self._dict);  the truth value of a list;
#                [e for <names> in <list> if c], (e for ..) where a generator is consumed at once: as *(..) inside a list
#                display, as the argument of extend or of tuple(..);  [*a, *b]; l[:]; t[i] for a tuple t and a literal i;
#                enumerate(l) as the iterable of a comprehension (positions have a type of their own: never negative, only
#                compared with each other with == / != and used as positions);  reversed(<local sequence>) as the iterable
#                of a for statement  (enumerate / tuple / reversed must be the builtins: not bound anywhere in the module)

METHOD_TARGETS = {
    "C17": dict(
        file="baize/datastructures.py",
        typevars=["KT", "VT"],
        attrs={"_list": ("list", ("tuple", (("var", "KT"), ("var", "VT")))), "_dict": ("dict", ("var", "KT"), ("var", "VT"))},
        classes=["MutableMultiMapping", "MultiMapping"],        # most derived first: where self.<special method> is looked up
        methods=[
            dict(cls="MultiMapping", func="getlist", name="getlist"),
            dict(cls="MutableMultiMapping", func="append", name="append"),
            dict(cls="MutableMultiMapping", func="__delitem__", name="delitem"),
            dict(cls="MutableMultiMapping", func="setlist", name="setlist"),
            dict(cls="MutableMultiMapping", func="poplist", name="poplist"),
            dict(cls="MutableMultiMapping", func="__setitem__", name="setitem"),
        ]),
}

UNRELATED_EXCEPTIONS = ("KeyError", "ValueError", "TypeError", "IndexError")   # none is a subclass of another
# (KeyError and IndexError share the base LookupError, which is not in the list: `except LookupError` is refused)

HEADER_METHODS = """(* GENERATED by tools/py2coq.py from the Python source — do not edit.
   Structurally the Python: same statements, same branch order; list / dict operations are calls of Lib/PyList.v.
   A method that changes the object takes and gives self._list and self._dict; KT_eqb is `==` on keys. *)
From Coq Require Import List NArith ZArith Bool.
From Baize Require Import Lib.PyStr Lib.PyList.
Import ListNotations.
Local Open Scope N_scope.

"""


def is_list(t):
    return isinstance(t, tuple) and t[0] == "list"


class ClassCtx:
    """the classes of one METHOD_TARGETS entry, read from the source; translations are memoised per method name"""

    def __init__(self, repo, target):
        self.target = target
        self.path = os.path.join(repo, target["file"])
        self.src = open(self.path, encoding="utf-8").read()
        self.tree = ast.parse(self.src)
        self.classes = {}
        for cname in target["classes"]:
            found = [n for n in self.tree.body if isinstance(n, ast.ClassDef) and n.name == cname]
            if len(found) != 1:
                raise Unsupported(self.tree, "%d classes named %s" % (len(found), cname))
            self.classes[cname] = found[0]
        self.done = {}          # name -> MethodFn (translated) or Unsupported

    def lookup(self, special):
        """the definition of a special method as an instance of the most derived class sees it -> (class name, FunctionDef)"""
        for cname in self.target["classes"]:
            found = [n for n in self.classes[cname].body if isinstance(n, (ast.FunctionDef, ast.AsyncFunctionDef)) and n.name == special]
            assigned = [n for n in ast.walk(self.classes[cname]) if isinstance(n, ast.Name) and n.id == special]
            if assigned or len(found) > 1:
                raise Unsupported(self.classes[cname], "%s is bound in class %s in a way that is not one plain def" % (special, cname))
            if found:
                if not isinstance(found[0], ast.FunctionDef) or found[0].decorator_list:
                    raise Unsupported(found[0], "%s is not a plain undecorated function" % special)
                return cname, found[0]
        return None, None

    def contains_is_dict_membership(self, node):
        """`k in self` is answered by Mapping.__contains__ (try self[k] / except KeyError) from self._dict"""
        c, f = self.lookup("__contains__")
        if f is not None:
            raise Unsupported(node, "`in self` when class %s defines __contains__" % c)
        c, f = self.lookup("__getitem__")
        if f is None:
            raise Unsupported(node, "`in self` without a __getitem__ in the translated classes")
        body = [s for s in f.body if not (isinstance(s, ast.Expr) and isinstance(s.value, ast.Constant))]
        a = f.args
        ok = (len(a.args) == 2 and not (a.vararg or a.kwarg or a.kwonlyargs or a.posonlyargs or a.defaults) and len(body) == 1
              and isinstance(body[0], ast.Return) and isinstance(body[0].value, ast.Subscript)
              and ast.dump(body[0].value.value) == ast.dump(ast.parse("%s._dict" % a.args[0].arg, mode="eval").body)
              and isinstance(body[0].value.slice, ast.Name) and body[0].value.slice.id == a.args[1].arg)
        if not ok or self.target["attrs"].get("_dict", ("",))[0] != "dict":
            raise Unsupported(node, "`in self` when __getitem__ is not `return self._dict[key]`")

    def method(self, name):
        """the translation of the method called <name> in the target's table -> MethodFn; raises Unsupported"""
        if name not in self.done:
            spec = next((m for m in self.target["methods"] if m["name"] == name), None)
            try:
                if spec is None:
                    raise Unsupported(self.tree, "method %s is not in the translator's table" % name)
                self.done[name] = None          # guards against recursion
                fdefs = [n for n in self.classes[spec["cls"]].body
                         if isinstance(n, (ast.FunctionDef, ast.AsyncFunctionDef)) and n.name == spec["func"]]
                if len(fdefs) != 1 or not isinstance(fdefs[0], ast.FunctionDef):
                    raise Unsupported(self.classes[spec["cls"]], "%d plain definitions of %s.%s" % (len(fdefs), spec["cls"], spec["func"]))
                m = MethodFn(self, fdefs[0], spec)
                m.translate()
                self.done[name] = m
            except Unsupported as e:
                self.done[name] = e
        r = self.done[name]
        if r is None:
            raise Unsupported(self.tree, "method %s calls itself" % name)
        if isinstance(r, Unsupported):
            raise r
        return r


class MethodFn:
    def __init__(self, ctx, fdef, spec):
        self.ctx, self.f, self.spec = ctx, fdef, spec
        self.typevars = list(ctx.target["typevars"])
        self.attrs = dict(ctx.target["attrs"])
        self.deps = []          # names of translated methods this one calls, in order of first call
        self.raises = set()     # exception class names the generated function may give
        self.n = 0
        self.text = None
        self.frozen = frozenset()       # names that may not be assigned here (bound outside the loop / branch being translated)

    def fresh(self):
        self.n += 1
        return str(self.n)

    def var(self, name):
        return "v_" + name

    def attr(self, name):
        return "self_" + name

    def state_tuple(self):
        return ", ".join(self.attr(a) for a in self.attrs)

    # ---- expressions -> (text, type).  'gen' in the type's place of 'list' marks a generator (to be consumed at once)
    def expr(self, e, env):
        m = getattr(self, "e_" + type(e).__name__, None)
        if m is None:
            raise Unsupported(e, "expression kind not supported")
        return m(e, env)

    def e_Name(self, e, env):
        if e.id not in env:
            raise Unsupported(e, "name is not a parameter or a local variable bound on every path to here")
        return self.var(e.id), env[e.id]

    def e_Attribute(self, e, env):
        if isinstance(e.value, ast.Name) and e.value.id == "self" and "self" not in env and e.attr in self.attrs:
            return self.attr(e.attr), self.attrs[e.attr]
        raise Unsupported(e, "attribute access (only the declared attributes of self)")

    def e_Tuple(self, e, env):
        if len(e.elts) < 2 or any(isinstance(x, ast.Starred) for x in e.elts):
            raise Unsupported(e, "empty, one-element or starred tuple")
        parts = [self.expr(x, env) for x in e.elts]
        if any(p[1][0] in ("gen", "list", "dict") for p in parts if isinstance(p[1], tuple)):
            raise Unsupported(e, "tuple that holds a list / dict / generator object")
        return "(%s)" % ", ".join(p[0] for p in parts), ("tuple", tuple(p[1] for p in parts))

    def e_Compare(self, e, env):
        if len(e.ops) != 1:
            raise Unsupported(e, "chained comparison")
        op, right = e.ops[0], e.comparators[0]
        if isinstance(op, (ast.In, ast.NotIn)):
            if not (isinstance(right, ast.Name) and right.id == "self" and "self" not in env):
                raise Unsupported(e, "`in` other than `in self`")
            self.ctx.contains_is_dict_membership(e)
            a, ta = self.expr(e.left, env)
            if ta != self.attrs["_dict"][1]:
                raise Unsupported(e, "`in self` of a %s" % (ta,))
            c = "PyList.dict_mem %s_eqb %s %s" % (ta[1], paren(a), self.attr("_dict"))
            return (c if isinstance(op, ast.In) else "negb (%s)" % c), "bool"
        if isinstance(op, (ast.Eq, ast.NotEq)):
            (a, ta), (b, tb) = self.expr(e.left, env), self.expr(right, env)
            if ta == tb == "index":
                c = "Nat.eqb %s %s" % (paren(a), paren(b))
                return (c if isinstance(op, ast.Eq) else "negb (%s)" % c), "bool"
            if ta != tb or ta != self.attrs["_dict"][1] or ta[0] != "var":
                raise Unsupported(e, "== between %s and %s (only between keys)" % (ta, tb))
            c = "%s_eqb %s %s" % (ta[1], paren(a), paren(b))
            return (c if isinstance(op, ast.Eq) else "negb (%s)" % c), "bool"
        raise Unsupported(e, "comparison operator %s" % type(op).__name__)

    def e_Subscript(self, e, env):
        c, t = self.expr(e.value, env)
        if isinstance(e.slice, ast.Slice):
            s = e.slice
            if is_list(t) and s.lower is None and s.upper is None and s.step is None:
                return "PyList.copy %s" % paren(c), t
            raise Unsupported(e, "slice other than l[:] of a list")
        if isinstance(t, tuple) and t[0] == "tuple" and isinstance(e.slice, ast.Constant) and type(e.slice.value) is int \
                and 0 <= e.slice.value < len(t[1]):
            k, n = e.slice.value, len(t[1])
            pat = ", ".join("p%d" % i if i == k else "_" for i in range(n))
            return "(let '(%s) := %s in p%d)" % (pat, c, k), t[1][k]
        raise Unsupported(e, "subscript (only l[:], literal indices of tuples, and l[-1] as the whole right-hand side of an assignment)")

    def comprehension(self, e, env, kind):
        if len(e.generators) != 1:
            raise Unsupported(e, "comprehension with several for clauses")
        g = e.generators[0]
        if g.is_async or len(g.ifs) > 1:
            raise Unsupported(e, "async comprehension / several if clauses")
        for part in [e.elt] + list(g.ifs):
            for n in ast.walk(part):
                if isinstance(n, ast.Name) and n.id == "self":
                    raise Unsupported(e, "comprehension whose element or condition looks at self (it may run after self has changed)")
                if isinstance(n, (ast.NamedExpr, ast.Lambda, ast.ListComp, ast.GeneratorExp, ast.SetComp, ast.DictComp, ast.Await, ast.Yield)):
                    raise Unsupported(n, "nested comprehension / assignment expression")
        ic, it = self.expr(g.iter, env)
        if not (isinstance(it, tuple) and it[0] in ("list", "gen")):
            raise Unsupported(g.iter, "comprehension over a %s (only lists)" % (it,))
        env2 = dict(env)
        tg = g.target
        if isinstance(tg, ast.Name) and tg.id != "self":
            env2[tg.id] = it[1]
            pat = self.var(tg.id)
        elif isinstance(tg, ast.Tuple) and isinstance(it[1], tuple) and it[1][0] == "tuple" and len(it[1][1]) == len(tg.elts) \
                and all(isinstance(x, ast.Name) and x.id != "self" for x in tg.elts) and len({x.id for x in tg.elts}) == len(tg.elts):
            for x, tx in zip(tg.elts, it[1][1]):
                env2[x.id] = tx
            pat = "'(%s)" % ", ".join(self.var(x.id) for x in tg.elts)
        else:
            raise Unsupported(e, "comprehension target does not fit an element of type %s" % (it[1],))
        ec, et = self.expr(e.elt, env2)
        if isinstance(et, tuple) and et[0] in ("gen", "list", "dict"):
            raise Unsupported(e, "comprehension of list / dict objects")
        if g.ifs:
            cc, ct = self.expr(g.ifs[0], env2)
            if ct != "bool":
                raise Unsupported(g.ifs[0], "comprehension condition that is not a bool")
        else:
            cc = "true"
        return "PyList.comp (fun %s => %s) (fun %s => %s) %s" % (pat, ec, pat, cc, paren(ic)), (kind, et)

    def builtin(self, e, env, name):
        """is e the builtin <name> (not a parameter, local or module-level binding of that name)?"""
        if not (isinstance(e, ast.Name) and e.id == name):
            return False
        if name in env:
            raise Unsupported(e, "%s is a local name here" % name)
        for n in ast.walk(self.ctx.tree):
            if (isinstance(n, ast.Name) and n.id == name and not isinstance(n.ctx, ast.Load)) \
                    or (isinstance(n, (ast.FunctionDef, ast.AsyncFunctionDef, ast.ClassDef)) and n.name == name) \
                    or (isinstance(n, ast.alias) and (n.asname or n.name).split(".")[0] in (name, "*")) \
                    or (isinstance(n, ast.arg) and n.arg == name):
                raise Unsupported(e, "%s may not be the builtin in this module" % name)
        return True

    def e_Call(self, e, env):
        if e.keywords or len(e.args) != 1 or isinstance(e.args[0], ast.Starred):
            raise Unsupported(e, "call (only enumerate(l), tuple(<generator>), reversed(<local sequence>))")
        f, arg = e.func, e.args[0]
        if self.builtin(f, env, "enumerate"):
            c, t = self.expr(arg, env)
            if not is_list(t):
                raise Unsupported(e, "enumerate of a %s" % (t,))
            return "PyList.enumerate %s" % paren(c), ("gen", ("tuple", ("index", t[1])))
        if self.builtin(f, env, "tuple") and isinstance(arg, ast.GeneratorExp):
            c, t = self.expr(arg, env)
            return "PyList.tuple_of %s" % paren(c), ("list", t[1])
        if self.builtin(f, env, "reversed") and isinstance(arg, ast.Name):
            c, t = self.expr(arg, env)      # a local sequence: nothing changes it (only attributes of self are ever changed)
            if not is_list(t):
                raise Unsupported(e, "reversed of a %s" % (t,))
            return "PyList.reversed %s" % paren(c), ("gen", t[1])
        raise Unsupported(e, "call (only enumerate(l), tuple(<generator>), reversed(<local sequence>))")

    def e_ListComp(self, e, env):
        return self.comprehension(e, env, "list")

    def e_GeneratorExp(self, e, env):
        return self.comprehension(e, env, "gen")

    def e_List(self, e, env):
        # [*a, *b]: each of a, b a generator or a list; evaluated from left to right, at once
        if len(e.elts) == 2 and all(isinstance(x, ast.Starred) for x in e.elts):
            parts = [self.expr(x.value, env) for x in e.elts]
            if all(isinstance(t, tuple) and t[0] in ("gen", "list") for _, t in parts) and parts[0][1][1] == parts[1][1][1]:
                return "PyList.concat2 %s %s" % (paren(parts[0][0]), paren(parts[1][0])), ("list", parts[0][1][1])
        raise Unsupported(e, "list display other than [*a, *b] of two lists / generators of one element type")

    def fresh_list(self, e, env, want):
        """a list-valued expression that is a NEW list object (no alias of self._list or of a parameter)"""
        if not isinstance(e, (ast.ListComp, ast.List)) and not (isinstance(e, ast.Subscript) and isinstance(e.slice, ast.Slice)) \
                and not (isinstance(e, ast.Call) and isinstance(e.func, ast.Name) and e.func.id == "tuple"):
            raise Unsupported(e, "a list that may be an alias of another list object (only comprehensions, displays, l[:])")
        c, t = self.expr(e, env)
        if want is not None and t != want:
            raise Unsupported(e, "a %s where a %s is expected" % (t, want))
        return c, t

    def truth(self, e, env):
        c, t = self.expr(e, env)
        if t == "bool":
            return c
        if is_list(t):
            return "negb (PyStr.is_empty %s)" % paren(c)
        raise Unsupported(e, "truth value of a %s" % (t,))

    # ---- statements
    def ret(self, value):
        if self.mut:
            return "(%s, PyStr.Ret %s)" % (self.state_tuple(), paren(value))
        return value

    def raise_(self, cls):
        if not self.mut:
            raise Unsupported(self.f, "a method that only reads but may raise")
        self.raises.add(cls)
        return "(%s, PyStr.Raise %s %s)" % (self.state_tuple(), lit_str(cls), comment_of(cls))

    def end(self, node, env):
        if self.rtype != "none":
            raise Unsupported(node, "control may reach the end of the function, whose return type is %s" % (self.rtype,))
        return self.ret("tt")

    def is_self_attr(self, e, name=None):
        return isinstance(e, ast.Attribute) and isinstance(e.value, ast.Name) and e.value.id == "self" \
            and e.attr in self.attrs and (name is None or e.attr == name)

    def call_method(self, name, args, handlers, node, pad, cont):
        """a call of another translated method as a statement (its result is dropped); handlers: exception class names that
        are caught and passed over"""
        m = self.ctx.method(name)
        if not m.mut:
            raise Unsupported(node, "call of a method that only reads, as a statement")
        known = set(UNRELATED_EXCEPTIONS)
        if not (m.raises <= known and set(handlers) <= known):
            raise Unsupported(node, "exception classes outside %s (subclass relations are not modelled)" % (UNRELATED_EXCEPTIONS,))
        if name not in self.deps:
            self.deps.append(name)
        self.raises |= (m.raises - set(handlers))
        i = self.fresh()
        names = "[%s]" % "; ".join("%s %s" % (lit_str(h), comment_of(h)) for h in handlers)
        return ("let '(%s, o%s) := %s %s_eqb %s %s in\n%smatch PyList.uncaught %s o%s with\n%s| Some exc%s => (%s, PyStr.Raise exc%s)\n%s| None =>\n%s    %s\n%send"
                % (self.state_tuple(), i, name, self.attrs["_dict"][1][1], " ".join(self.attr(a) for a in self.attrs),
                   " ".join(paren(a) for a in args), pad, names, i, pad, i, self.state_tuple(), i, pad, pad, cont(), pad))

    def del_self_item(self, s, env):
        """`del self[k]` -> the text of k, or None when s is something else"""
        if isinstance(s, ast.Delete) and len(s.targets) == 1 and isinstance(s.targets[0], ast.Subscript) \
                and isinstance(s.targets[0].value, ast.Name) and s.targets[0].value.id == "self" and "self" not in env \
                and not isinstance(s.targets[0].slice, ast.Slice):
            cname, f = self.ctx.lookup("__delitem__")
            spec = next((m for m in self.ctx.target["methods"] if m["func"] == "__delitem__" and m["cls"] == cname), None)
            if spec is None:
                raise Unsupported(s, "del self[..] when __delitem__ is not one of the translated methods")
            kc, kt = self.expr(s.targets[0].slice, env)
            if kt != self.attrs["_dict"][1]:
                raise Unsupported(s, "del self[..] with a %s" % (kt,))
            return spec["name"], kc
        return None, None

    def block(self, stmts, env, ind, k=None):
        """k: None, or a function that gives the text for `control reaches the end of this block` (the rest of an enclosing
        block, the next round of a loop)"""
        pad = "  " * ind
        if not stmts:
            return k() if k is not None else self.end(self.f, env)
        s, rest = stmts[0], stmts[1:]

        def cont(env=env):
            return self.block(rest, env, ind + 1, k)
        if isinstance(s, ast.Expr) and isinstance(s.value, ast.Constant) and isinstance(s.value.value, str):
            return self.block(rest, env, ind, k)
        if isinstance(s, ast.Pass):
            return self.block(rest, env, ind, k)
        if isinstance(s, ast.Return):
            if rest:
                raise Unsupported(rest[0], "statement after return")
            if s.value is None or (isinstance(s.value, ast.Constant) and s.value.value is None):
                return self.end(s, env)
            c, t = self.expr(s.value, env)
            if t != self.rtype:
                raise Unsupported(s, "returns a %s, the function's return type is %s" % (t, self.rtype))
            if is_list(t) and not isinstance(s.value, (ast.Name, ast.ListComp)):
                raise Unsupported(s, "returns a list object that is not a local variable or a comprehension")
            return self.ret(c)
        if isinstance(s, ast.Assign):
            if len(s.targets) != 1:
                raise Unsupported(s, "chained assignment")
            tg = s.targets[0]
            if isinstance(tg, ast.Name):
                if tg.id == "self":
                    raise Unsupported(s, "assignment to self")
                if tg.id in self.frozen:
                    raise Unsupported(s, "assignment inside a loop to a variable bound before the loop")
                v = s.value
                if isinstance(v, ast.Subscript) and isinstance(v.slice, ast.Constant) and type(v.slice.value) is int and v.slice.value == 0:
                    lc, lt = self.expr(v.value, env)
                    if is_list(lt):         # l[0]
                        if isinstance(lt[1], tuple) and lt[1][0] in ("list", "dict", "gen"):
                            raise Unsupported(s, "an element that is a list / dict object")
                        env = dict(env)
                        env[tg.id] = lt[1]
                        return ("match PyList.first_item %s with\n%s| None => %s\n%s| Some %s =>\n%s    %s\n%send"
                                % (paren(lc), pad, self.raise_("IndexError"), pad, self.var(tg.id), pad,
                                   self.block(rest, env, ind + 2, k), pad))
                c, t = self.expr(s.value, env)
                if isinstance(t, tuple) and t[0] in ("list", "dict", "gen"):
                    c, t = self.fresh_list(s.value, env, None)
                env = dict(env)
                env[tg.id] = t
                return "let %s := %s in\n%s%s" % (self.var(tg.id), c, pad, self.block(rest, env, ind, k))
            if self.is_self_attr(tg) and is_list(self.attrs[tg.attr]):
                c, t = self.fresh_list(s.value, env, self.attrs[tg.attr])
                return "let %s := %s in\n%s%s" % (self.attr(tg.attr), c, pad, self.block(rest, env, ind, k))
            if isinstance(tg, ast.Subscript) and self.is_self_attr(tg.value) and self.attrs[tg.value.attr][0] == "dict" \
                    and not isinstance(tg.slice, ast.Slice):
                td = self.attrs[tg.value.attr]
                kc, kt = self.expr(tg.slice, env)
                if kt != td[1]:
                    raise Unsupported(s, "item assignment with a key of type %s" % (kt,))
                a = self.attr(tg.value.attr)
                v = s.value
                if isinstance(v, ast.Subscript) and isinstance(v.slice, ast.UnaryOp) and isinstance(v.slice.op, ast.USub) \
                        and isinstance(v.slice.operand, ast.Constant) and type(v.slice.operand.value) is int and v.slice.operand.value == 1:
                    lc, lt = self.expr(v.value, env)       # l[-1]
                    if not is_list(lt) or lt[1] != td[2]:
                        raise Unsupported(s, "item assignment of the last element of a %s" % (lt,))
                    i = self.fresh()
                    return ("match PyList.last_item %s with\n%s| None => %s\n%s| Some x%s =>\n%s    let %s := PyList.dict_set %s_eqb %s x%s %s in\n%s    %s\n%send"
                            % (paren(lc), pad, self.raise_("IndexError"), pad, i, pad, a, td[1][1], paren(kc), i, a, pad,
                               self.block(rest, env, ind + 2, k), pad))
                vc, vt = self.expr(v, env)
                if vt != td[2]:
                    raise Unsupported(s, "item assignment of a %s" % (vt,))
                return "let %s := PyList.dict_set %s_eqb %s %s %s in\n%s%s" % (a, td[1][1], paren(kc), paren(vc), a, pad, self.block(rest, env, ind, k))
            if isinstance(tg, ast.Subscript) and self.is_self_attr(tg.value) and is_list(self.attrs[tg.value.attr]) \
                    and not isinstance(tg.slice, ast.Slice):
                ta = self.attrs[tg.value.attr]
                ic, it = self.expr(tg.slice, env)
                vc, vt = self.expr(s.value, env)
                if it != "index" or vt != ta[1]:
                    raise Unsupported(s, "item assignment l[%s] = %s (only a position that enumerate gave)" % (it, vt))
                a = self.attr(tg.value.attr)
                return ("match PyList.set_item %s %s %s with\n%s| None => %s\n%s| Some %s =>\n%s    %s\n%send"
                        % (a, paren(ic), paren(vc), pad, self.raise_("IndexError"), pad, a, pad, self.block(rest, env, ind + 2, k), pad))
            raise Unsupported(s, "assignment target")
        if isinstance(s, ast.Expr) and isinstance(s.value, ast.Call):
            call = s.value
            f = call.func
            if call.keywords or any(isinstance(a, ast.Starred) for a in call.args) or not isinstance(f, ast.Attribute) \
                    or not self.is_self_attr(f.value) or not is_list(self.attrs[f.value.attr]):
                raise Unsupported(s, "call statement (only append / clear / extend of a list attribute of self)")
            a, ta = self.attr(f.value.attr), self.attrs[f.value.attr]
            if f.attr == "append" and len(call.args) == 1:
                c, t = self.expr(call.args[0], env)
                if t != ta[1]:
                    raise Unsupported(s, "append of a %s to a %s" % (t, ta))
                return "let %s := PyList.append %s %s in\n%s%s" % (a, a, paren(c), pad, self.block(rest, env, ind, k))
            if f.attr == "clear" and not call.args:
                return "let %s := PyList.clear %s in\n%s%s" % (a, a, pad, self.block(rest, env, ind, k))
            if f.attr == "extend" and len(call.args) == 1:
                arg = call.args[0]
                for n in ast.walk(arg):
                    if isinstance(n, ast.Name) and n.id == "self":
                        raise Unsupported(s, "extend with an argument that looks at self (it is consumed while the list grows)")
                if isinstance(arg, ast.GeneratorExp):
                    c, t = self.expr(arg, env)
                else:
                    c, t = self.fresh_list(arg, env, None)
                if t[1] != ta[1]:
                    raise Unsupported(s, "extend of a %s by a %s" % (ta, t))
                return "let %s := PyList.extend %s %s in\n%s%s" % (a, a, paren(c), pad, self.block(rest, env, ind, k))
            raise Unsupported(s, "list method %s with %d argument(s)" % (f.attr, len(call.args)))
        if isinstance(s, ast.Delete):
            name, kc = self.del_self_item(s, env)
            if name is not None:
                return self.call_method(name, [kc], [], s, pad, cont)
            if len(s.targets) == 1 and isinstance(s.targets[0], ast.Subscript) and self.is_self_attr(s.targets[0].value) \
                    and self.attrs[s.targets[0].value.attr][0] == "dict" and not isinstance(s.targets[0].slice, ast.Slice):
                tg = s.targets[0]
                td = self.attrs[tg.value.attr]
                kc, kt = self.expr(tg.slice, env)
                if kt != td[1]:
                    raise Unsupported(s, "del of a key of type %s" % (kt,))
                a = self.attr(tg.value.attr)
                return ("match PyList.dict_delitem %s_eqb %s %s with\n%s| None => %s\n%s| Some %s =>\n%s    %s\n%send"
                        % (td[1][1], paren(kc), a, pad, self.raise_("KeyError"), pad, a, pad, self.block(rest, env, ind + 2, k), pad))
            if len(s.targets) == 1 and isinstance(s.targets[0], ast.Subscript) and self.is_self_attr(s.targets[0].value) \
                    and is_list(self.attrs[s.targets[0].value.attr]) and not isinstance(s.targets[0].slice, ast.Slice):
                tg = s.targets[0]
                ic, it = self.expr(tg.slice, env)
                if it != "index":
                    raise Unsupported(s, "del l[%s] (only a position that enumerate gave)" % (it,))
                a = self.attr(tg.value.attr)
                return ("match PyList.del_item %s %s with\n%s| None => %s\n%s| Some %s =>\n%s    %s\n%send"
                        % (a, paren(ic), pad, self.raise_("IndexError"), pad, a, pad, self.block(rest, env, ind + 2, k), pad))
            raise Unsupported(s, "del (only del self._dict[k], del self._list[i] and del self[k])")
        if isinstance(s, ast.Try):
            if s.orelse or s.finalbody or len(s.handlers) != 1 or len(s.body) != 1:
                raise Unsupported(s, "try statement (only try: del self[k] / except <Class>: pass)")
            h = s.handlers[0]
            if h.name is not None or not isinstance(h.type, ast.Name) or not all(isinstance(x, ast.Pass) for x in h.body):
                raise Unsupported(s, "handler (only `except <Class>: pass`)")
            name, kc = self.del_self_item(s.body[0], env)
            if name is None:
                raise Unsupported(s, "try body (only del self[k])")
            return self.call_method(name, [kc], [h.type.id], s, pad, cont)
        if isinstance(s, ast.If):
            cond = self.truth(s.test, env)
            if not rest:
                a = self.block(list(s.body), dict(env), ind + 1, k)
                b = self.block(list(s.orelse), dict(env), ind + 1, k)
                return "if %s\n%sthen %s\n%selse %s" % (cond, pad, a, pad, b)
            # what follows the statement becomes a local function of the state, called at the end of either branch (a variable
            # first assigned in a branch is not visible in it: a use is refused as an unbound name)
            if not self.mut:
                raise Unsupported(s, "if statement that is not the last statement of its block, in a method that only reads")
            kn = "k" + self.fresh()
            binders = " ".join("(%s : %s)" % (self.attr(x), ty_coq(self.attrs[x])) for x in self.attrs)
            after = self.block(rest, dict(env), ind + 2, k)

            def join():
                return "%s %s" % (kn, " ".join(self.attr(x) for x in self.attrs))
            frozen = self.frozen
            self.frozen = frozen | set(env)
            try:
                a = self.block(list(s.body), dict(env), ind + 1, join)
                b = self.block(list(s.orelse), dict(env), ind + 1, join)
            finally:
                self.frozen = frozen
            return "let %s := fun %s =>\n%s    %s in\n%sif %s\n%sthen %s\n%selse %s" % (kn, binders, pad, after, pad, cond, pad, a, pad, b)
        if isinstance(s, ast.For):
            if not self.mut:
                raise Unsupported(s, "for statement in a method that only reads")
            if s.orelse or any(isinstance(n, (ast.Break, ast.Continue)) for n in ast.walk(s)):
                raise Unsupported(s, "for .. else / break / continue")
            if any(isinstance(n, ast.Name) and n.id == "self" for n in ast.walk(s.iter)):
                raise Unsupported(s.iter, "for over something that looks at self (the body may change it)")
            if not (isinstance(s.target, ast.Name) and s.target.id != "self" and s.target.id not in env):
                raise Unsupported(s, "loop target (only one fresh name)")
            ic, it = self.expr(s.iter, env)
            if not (isinstance(it, tuple) and it[0] in ("list", "gen")) or (isinstance(it[1], tuple) and it[1][0] in ("list", "dict", "gen")):
                raise Unsupported(s.iter, "for over a %s" % (it,))
            i = self.fresh()
            loop, lv = "loop" + i, "l" + i
            states = " ".join(self.attr(x) for x in self.attrs)
            binders = " ".join("(%s : %s)" % (self.attr(x), ty_coq(self.attrs[x])) for x in self.attrs)
            done = self.block(rest, dict(env), ind + 3, k)
            env_body = dict(env)
            env_body[s.target.id] = it[1]
            frozen = self.frozen
            self.frozen = frozen | set(env)
            try:
                body = self.block(list(s.body), env_body, ind + 3, lambda: "%s %s' %s" % (loop, lv, states))
            finally:
                self.frozen = frozen
            return ("(fix %s (%s : list %s) %s {struct %s} : %s :=\n%s   match %s with\n%s   | [] =>\n%s      %s\n%s   | %s :: %s' =>\n%s      %s\n%s   end) %s %s"
                    % (loop, lv, ty_atom(it[1]), binders, lv, self.result_type_text(), pad, lv, pad, pad, done, pad,
                       self.var(s.target.id), lv, pad, body, pad, paren(ic), states))
        raise Unsupported(s, "statement kind not supported")

    def is_mutating(self, stmts):
        for s in stmts:
            if isinstance(s, ast.If):
                if self.is_mutating(s.body) or self.is_mutating(s.orelse):
                    return True
            elif isinstance(s, ast.Assign) and all(isinstance(t, ast.Name) for t in s.targets):
                pass
            elif isinstance(s, (ast.Return, ast.Pass)) or (isinstance(s, ast.Expr) and isinstance(s.value, ast.Constant)):
                pass
            else:
                return True
        return False

    def translate(self):
        f = self.f
        a = f.args
        if a.vararg or a.kwarg or a.kwonlyargs or a.posonlyargs or a.defaults or a.kw_defaults:
            raise Unsupported(f, "parameters other than plain positional ones without defaults")
        if f.decorator_list:
            raise Unsupported(f.decorator_list[0], "decorator")
        params = list(a.args)
        if not params or params[0].arg != "self" or params[0].annotation is not None:
            raise Unsupported(f, "not a method (first parameter self)")
        for n in ast.walk(f):
            if isinstance(n, (ast.Global, ast.Nonlocal, ast.FunctionDef, ast.AsyncFunctionDef, ast.ClassDef, ast.Lambda, ast.NamedExpr,
                              ast.Yield, ast.YieldFrom, ast.Await, ast.While, ast.AsyncFor, ast.With, ast.Import, ast.ImportFrom)) and n is not f:
                raise Unsupported(n, "statement / expression kind not supported")
        env = {}
        binders = []
        for p in params[1:]:
            if p.annotation is None:
                raise Unsupported(p, "parameter without annotation")
            env[p.arg] = parse_type(p.annotation, self.typevars)
            binders.append("(%s : %s)" % (self.var(p.arg), ty_coq(env[p.arg])))
        if f.returns is None:
            raise Unsupported(f, "no return annotation")
        self.rtype = parse_type(f.returns, self.typevars)
        self.mut = self.is_mutating(f.body)
        body = self.block(list(f.body), env, 2)
        used = [x for x in self.attrs
                if self.mut or any(self.is_self_attr(n, x) for n in ast.walk(f))
                or (x == "_dict" and any(isinstance(n, ast.Compare) and isinstance(n.ops[0], (ast.In, ast.NotIn)) for n in ast.walk(f)))]
        kv = self.attrs["_dict"][1][1]
        tv = "".join(" {%s : Type}" % v for v in self.typevars)
        ab = "".join(" (%s : %s)" % (self.attr(x), ty_coq(self.attrs[x])) for x in used)
        r = self.result_type_text()
        self.text = "Definition %s%s (%s_eqb : %s -> %s -> bool)%s %s : %s :=\n    %s.\n" % (
            self.spec["name"], tv, kv, kv, kv, ab, " ".join(binders), r, body)
        seg = ast.get_source_segment(self.ctx.src, f) or ""
        self.head = "(* %s :: %s.%s, lines %d-%d\n%s\n*)\n" % (
            self.ctx.target["file"], self.spec["cls"], self.spec["func"], f.lineno, f.end_lineno,
            "\n".join("   | " + l for l in comment_safe(seg).splitlines()))
        return self.text

    def result_type_text(self):
        if self.mut:
            return "(%s)" % " * ".join([ty_atom(self.attrs[x]) for x in self.attrs] + ["(PyStr.outcome %s)" % ty_atom(self.rtype)])
        return ty_coq(self.rtype)

    def closure(self):
        """names of the methods whose definitions this one needs, dependencies first, itself last"""
        out = []
        for dname in self.deps:
            for x in self.ctx.method(dname).closure():
                if x not in out:
                    out.append(x)
        out.append(self.spec["name"])
        return out


def translate_methods(repo, pid):
    """-> (ctx, [(spec, MethodFn or Unsupported)])"""
    target = METHOD_TARGETS[pid]
    ctx = ClassCtx(repo, target)
    out = []
    for spec in target["methods"]:
        try:
            out.append((spec, ctx.method(spec["name"])))
        except Unsupported as e:
            out.append((spec, e))
    return ctx, out


def methods_text(ctx, names):
    return HEADER_METHODS + "\n".join(ctx.method(n).head + ctx.method(n).text for n in names)


def split_segments(tsrc):
    """Translated.v of a METHOD_TARGETS property: the text before the first marked segment, and the segments by method name"""
    import re
    segs = {m.group(1): m.group(0) for m in re.finditer(r"\(\* METHOD-BEGIN (\w+) \*\).*?\(\* METHOD-END \1 \*\)\n?", tsrc, re.S)}
    first = tsrc.find("(* METHOD-BEGIN ")
    return (tsrc if first < 0 else tsrc[:first]), segs


def check_methods(pid, repo=None, verif=None, timeout=120, keep=False):
    """The source-level tie of a METHOD_TARGETS property, one verdict per method: translate each method from the source in <repo>
    as it is NOW; for each one that translates, compile its definition (and those of the methods it calls) and re-run coqc on
    the part of coq/theories/<pid>/Translated.v that is about it (the text before the first segment, the segments of the
    methods it calls, its own segment) against the fresh definitions.  -> [(name, ok, detail)]"""
    import re
    import shutil
    import time
    from concurrent.futures import ThreadPoolExecutor
    repo = repo or os.environ.get("BAIZE_REPO", "/repo")
    verif = verif or VERIF
    coq = os.path.join(verif, "coq")
    target = METHOD_TARGETS[pid]

    def label(spec):
        return "%s/Translated.v (%s.%s)" % (pid, spec["cls"], spec["func"])
    try:
        ctx, res = translate_methods(repo, pid)
    except Unsupported as e:
        return [(label(sp), None, "the translator does not understand the current source (it refuses rather than guess): %s" % e)
                for sp in target["methods"]]
    except (OSError, SyntaxError) as e:
        return [(label(sp), False, "cannot read the source: %s: %s" % (type(e).__name__, e)) for sp in target["methods"]]
    except Exception as e:      # a defect of the translator itself: also closed
        return [(label(sp), None, "the translator failed on the current source (%s: %s); the case-based tie decides alone"
                 % (type(e).__name__, e)) for sp in target["methods"]]
    tv = os.path.join(coq, "theories", pid, "Translated.v")
    tsrc = open(tv).read()
    block = TEMPLATE_BLOCK % {"pid": pid}
    pre, segs = split_segments(tsrc)
    ref = os.path.join(coq, "theories", pid, "Generated_ref.v")
    refdefs = definitions_only(open(ref).read()) if os.path.exists(ref) else ""
    root = os.path.join(verif, ".work", "translate-%s-%d" % (pid, os.getpid()))
    shutil.rmtree(root, ignore_errors=True)

    def one(spec, m):
        name = label(spec)
        t0 = time.time()
        if isinstance(m, Unsupported):
            return (name, None, "the translator does not understand the current source (it refuses rather than guess; this says "
                                "nothing about the behaviour of the code, the case-based tie decides alone): %s" % m)
        try:
            names = m.closure()
            text = methods_text(ctx, names)
        except Exception as e:
            return (name, None, "the translator failed on the current source (%s: %s); the case-based tie decides alone" % (type(e).__name__, e))
        bad = [t for t in FORBIDDEN_TOKENS if re.search(r"\b%s\b" % t, strip_coq_comments(text.replace(HEADER_METHODS, "")))]
        if bad:
            return (name, False, "generated text contains %s" % bad)
        if pre.count(block) != 1 or any(n not in segs for n in names):
            return (name, False, "%s does not contain the marked Require block exactly once before the segments, or lacks the segment of "
                                 "one of %s" % (tv, names))
        part = pre.replace(block, FRESH_BLOCK) + "".join(segs[n] for n in names)
        own = strip_coq_comments(segs[spec["name"]])
        thms = re.findall(r"^\s*Theorem\s+(\w+)", own, re.M)
        printed = re.findall(r"Print Assumptions\s+(\w+)\s*\.", strip_coq_comments(part))
        if not thms or [t for t in thms if t not in printed]:
            return (name, False, "Translated.v: no theorem about %s, or a theorem without Print Assumptions" % spec["name"])
        fresh = os.path.join(root, spec["name"], "Fresh")
        os.makedirs(fresh)
        with open(os.path.join(fresh, "Generated.v"), "w") as f:
            f.write(text)
        with open(os.path.join(fresh, "Translated.v"), "w") as f:
            f.write(part)
        base = ["-Q", "theories", "Baize", "-Q", fresh, "Fresh"]
        rc, out, err = run_coqc(base + [os.path.join(fresh, "Generated.v")], coq, timeout)
        if rc == 124:
            return (name, None, "coqc did not finish within %d s; no verdict from the source-level tie in this run" % timeout)
        if rc != 0:
            return (name, False, "the generated definition does not compile (rc %d): %s" % (rc, (err or out)[-600:]))
        rc, out, err = run_coqc(base + [os.path.join(fresh, "Translated.v")], coq, timeout)
        if rc == 124:
            return (name, None, "coqc did not finish within %d s; no verdict from the source-level tie in this run" % timeout)
        if rc != 0:
            return (name, False, "the proof that the method translated from the current source equals the model function "
                                 "no longer checks (rc %d): %s" % (rc, " ".join((err or out).split())[-600:]))
        closed = out.count("Closed under the global context")
        if closed != len(printed) or "Axioms:" in out:
            return (name, False, "Print Assumptions: %d of %d closed under the global context: %s" % (closed, len(printed), out[-300:]))
        same = definitions_only(m.text) in refdefs
        return (name, True, "%s re-checked against the definition translated from %s (%s the committed reference copy%s), closed "
                            "under the global context, %.1f s" % (
                                ", ".join(thms), target["file"], "identical to" if same else "DIFFERENT from",
                                ("; with the definitions of %s" % ", ".join(names[:-1])) if len(names) > 1 else "", time.time() - t0))
    try:
        with ThreadPoolExecutor(max(1, len(res))) as ex:
            return list(ex.map(lambda sm: one(*sm), res))
    finally:
        if not keep:
            shutil.rmtree(root, ignore_errors=True)


# ---------------------------------------------------------------- Lib/PyList.v against the interpreter's list and dict
#
# As for PyStr: every PyList function is evaluated inside coqc (vm_compute) on every pair list of up to 3 pairs over 5 pairs
# (3 keys), every position 0..3, every sequence of up to 5 dict operations (set / del of 3 keys); the results are hashed per
# function and the same hash is computed from the interpreter's own list and dict.

PAIR_ALPHA = [(0, 5), (0, 6), (1, 5), (1, 6), (2, 5)]


def _hn(ns):
    a = 7
    for c in ns:
        a = (a * 33 + c + 1) & M31
    return a


def _flat(pairs):
    return [x for p in pairs for x in p]


def _seqs(alpha, n):
    import itertools
    return [list(t) for k in range(n + 1) for t in itertools.product(alpha, repeat=k)]


PYLIST_PRELUDE = """Definition PA : list (N * N) := %(pa)s.
Definition PL : list (list (N * N)) := upto PA 3.
Definition PL2 : list (list (N * N) * list (N * N)) := flat_map (fun a => map (fun b => (a, b)) (upto PA 2)) (upto PA 2).
Definition OPS : list (list N) := upto [0; 1; 2; 3; 4; 5] 5.
Definition flat (l : list (N * N)) : list N := flat_map (fun p => [fst p; snd p]) l.
Definition hp (l : list (N * N)) : N := hs (flat l).
Definition ho (o : option (list (N * N))) : N := match o with None => 1 | Some l => 2 + hp l end.
Definition hv (o : option N) : N := match o with None => 1 | Some v => 2 + v end.
Definition dstep (st : list (N * N) * N) (op : N) : list (N * N) * N :=
  if N.ltb op 3 then (PyList.dict_set N.eqb op (N.of_nat (length (fst st))) (fst st), snd st)
  else match PyList.dict_delitem N.eqb (op - 3) (fst st) with
       | Some d' => (d', snd st)
       | None => (fst st, snd st + 1)
       end.
Definition drun (ops : list N) : list (N * N) * N := fold_left dstep ops ([], 0).
"""


def pylist_checks():
    cs = []

    def add(label, dom, coq, py):
        cs.append((label, dom, coq, py))
    for k in range(3):
        add("[v for a, v in l if a == %d]" % k, "PL", "fun l => hs (PyList.comp (fun '(a, b) => b) (fun '(a, _) => N.eqb a %d) l)" % k,
            lambda l, k=k: _hn([v for a, v in l if a == k]))
        add("[(a, v) for a, v in l if a != %d]" % k, "PL", "fun l => hp (PyList.comp (fun '(a, b) => (a, b)) (fun '(a, _) => negb (N.eqb a %d)) l)" % k,
            lambda l, k=k: _hn(_flat([(a, v) for a, v in l if a != k])))
        add("%d in d / d[%d] after a run of d[k] = v / del d[k]" % (k, k), "OPS",
            "fun ops => hv (PyList.dict_get N.eqb %d (fst (drun ops))) + (if PyList.dict_mem N.eqb %d (fst (drun ops)) then 1000 else 0)" % (k, k),
            lambda ops, k=k: (lambda d: (1 if k not in d else 2 + d[k]) + (1000 if k in d else 0))(_drun(ops)[0]))
    add("[(7, v) for v in (b for a, b in l)]", "PL", "fun l => hp (PyList.comp (fun v => (7, v)) (fun _ => true) (map snd l))",
        lambda l: _hn(_flat([(7, v) for v in [b for a, b in l]])))
    add("l.append((9, 9))", "PL", "fun l => hp (PyList.append l (9, 9))", lambda l: (lambda m: (m.append((9, 9)), _hn(_flat(m)))[1])(list(l)))
    add("l[:]", "PL", "fun l => hp (PyList.copy l)", lambda l: _hn(_flat(l[:])))
    add("l.clear()", "PL", "fun l => hp (PyList.clear l)", lambda l: (lambda m: (m.clear(), _hn(_flat(m)))[1])(list(l)))
    add("l[-1]", "PL", "fun l => match PyList.last_item l with None => 1 | Some p => 2 + hp [p] end", lambda l: 2 + _hn(_flat([l[-1]])) if l else 1)
    add("l[0]", "PL", "fun l => match PyList.first_item l with None => 1 | Some p => 2 + hp [p] end", lambda l: 2 + _hn(_flat([l[0]])) if l else 1)
    add("enumerate(l)", "PL", "fun l => hs (flat_map (fun ip => [N.of_nat (fst ip); fst (snd ip); snd (snd ip)]) (PyList.enumerate l))",
        lambda l: _hn([x for i, p in enumerate(l) for x in (i, p[0], p[1])]))
    add("tuple(x for x in l)", "PL", "fun l => hp (PyList.tuple_of l)", lambda l: _hn(_flat(tuple(x for x in l))))
    add("reversed(l)", "PL", "fun l => hp (PyList.reversed l)", lambda l: _hn(_flat(list(reversed(tuple(l))))))
    for i in range(4):
        def seti(l, i=i):
            m = list(l)
            try:
                m[i] = (9, 9)
            except IndexError:
                return 1
            return 2 + _hn(_flat(m))

        def deli(l, i=i):
            m = list(l)
            try:
                del m[i]
            except IndexError:
                return 1
            return 2 + _hn(_flat(m))
        add("l[%d] = x" % i, "PL", "fun l => ho (PyList.set_item l %d%%nat (9, 9))" % i, seti)
        add("del l[%d]" % i, "PL", "fun l => ho (PyList.del_item l %d%%nat)" % i, deli)
    add("l.extend(m)", "PL2", "fun ab => hp (PyList.extend (fst ab) (snd ab))", lambda ab: (lambda m: (m.extend(x for x in ab[1]), _hn(_flat(m)))[1])(list(ab[0])))
    add("[*a, *b]", "PL2", "fun ab => hp (PyList.concat2 (fst ab) (snd ab))", lambda ab: _hn(_flat([*(x for x in ab[0]), *(x for x in ab[1])])))
    add("d[k] = v / del d[k] (the dict and the number of KeyErrors)", "OPS", "fun ops => hp (fst (drun ops)) + snd (drun ops)",
        lambda ops: (lambda r: _hn(_flat(list(r[0].items()))) + r[1])(_drun(ops)))
    return cs


def _drun(ops):
    d, errs = {}, 0
    for op in ops:
        if op < 3:
            d[op] = len(d)
        else:
            try:
                del d[op - 3]
            except KeyError:
                errs += 1
    return d, errs


def pylist_check(verif=None, timeout=120, keep=False):
    """-> [(name, ok, detail)]: Lib/PyList.v evaluated by coqc against the list and dict of the running interpreter"""
    import re
    import shutil
    import time
    verif = verif or VERIF
    coq = os.path.join(verif, "coq")
    name = "Lib/PyList.v against the interpreter's list and dict"
    t0 = time.time()
    checks = pylist_checks()
    pl = _seqs(PAIR_ALPHA, 3)
    pl2 = _seqs(PAIR_ALPHA, 2)
    doms = {"PL": pl, "PL2": [(a, b) for a in pl2 for b in pl2], "OPS": _seqs(range(6), 5)}
    d = os.path.join(verif, ".work", "pylist-%d" % os.getpid())
    shutil.rmtree(d, ignore_errors=True)
    os.makedirs(d)
    prelude = PYSTR_PRELUDE % {"hostile": "[]", "small": "[]"}
    prelude = prelude.replace("From Baize Require Import Lib.PyStr.", "From Baize Require Import Lib.PyStr Lib.PyList.")
    prelude += PYLIST_PRELUDE % {"pa": "[%s]" % "; ".join("(%d, %d)" % p for p in PAIR_ALPHA)}
    try:
        vf = os.path.join(d, "PyListCheck.v")
        with open(vf, "w") as f:
            f.write(prelude + "".join("Eval vm_compute in (hall (map (%s) %s)).\n" % (c, dom) for _, dom, c, _ in checks))
        rc, out, err = run_coqc(["-Q", "theories", "Baize", vf], coq, timeout)
        if rc != 0:
            return [(name, None if rc == 124 else False, "coqc rc %d: %s" % (rc, (err or out)[-400:]))]
        res = [int(x) for x in re.findall(r"=\s*(\d+)(?:%N)?\s*:\s*N\b", out)]
        if len(res) != len(checks):
            return [(name, False, "expected %d results from coqc, parsed %d" % (len(checks), len(res)))]
        bad = [label for (label, dom, _, py), r in zip(checks, res) if r != _hall([py(x) for x in doms[dom]])]
        if bad:
            return [(name, False, "differs from PyList on: %s" % "; ".join(bad)[:500])]
        return [(name, True, "%d functions/argument shapes, %d evaluations inside coqc (every pair list of <= 3 pairs over %d pairs, every "
                             "run of <= 5 dict operations on 3 keys), %.1f s" % (
                                 len(checks), sum(len(doms[dom]) for _, dom, _, _ in checks), len(PAIR_ALPHA), time.time() - t0))]
    finally:
        if not keep:
            shutil.rmtree(d, ignore_errors=True)


def obligations(pid, repo=None, verif=None, timeout=120):
    """what a harness module's extra_obligations(tier) returns: the translation obligation of <pid> and the PyStr comparison,
    run side by side"""
    from concurrent.futures import ThreadPoolExecutor
    with ThreadPoolExecutor(3) as ex:
        a = ex.submit(check_methods if pid in METHOD_TARGETS else check_target, pid, repo, verif, timeout)
        b = ex.submit(pystr_check, verif, timeout)
        c = ex.submit(pylist_check, verif, timeout) if pid in METHOD_TARGETS else None
        return list(a.result()) + list(b.result()) + (list(c.result()) if c is not None else [])


def main():
    ap = argparse.ArgumentParser()
    ap.add_argument("--repo", default=os.environ.get("BAIZE_REPO", "/repo"))
    ap.add_argument("--target")
    ap.add_argument("--file")
    ap.add_argument("--func")
    ap.add_argument("--name")
    ap.add_argument("--attr", action="append", default=[])
    ap.add_argument("--typevar", action="append", default=[])
    ap.add_argument("--opaque", action="append", default=[])
    ap.add_argument("-o", "--out")
    ap.add_argument("--check", action="store_true", help="with --target: translate, compile, re-check Translated.v")
    ap.add_argument("--pystr-check", action="store_true", help="compare Lib/PyStr.v with this interpreter's str methods")
    ap.add_argument("--pylist-check", action="store_true", help="compare Lib/PyList.v with this interpreter's list and dict")
    ap.add_argument("--keep", action="store_true", help="keep the scratch directory under .work")
    a = ap.parse_args()
    if a.pystr_check or a.pylist_check or (a.check and a.target):
        res = pystr_check(keep=a.keep) if a.pystr_check else pylist_check(keep=a.keep) if a.pylist_check else \
            (check_methods if a.target in METHOD_TARGETS else check_target)(a.target, a.repo, keep=a.keep)
        for name, ok, detail in res:
            print("%s: %s — %s" % ("ok" if ok else "BROKEN" if ok is not None else "not applicable", name, detail))
        return 0 if all(ok for _, ok, _ in res) else 1
    if a.target in METHOD_TARGETS:
        try:
            ctx, res = translate_methods(a.repo, a.target)
        except (Unsupported, OSError, SyntaxError) as e:
            print("py2coq: NOT TRANSLATED: %s" % e, file=sys.stderr)
            return 2
        for spec, m in res:
            if isinstance(m, Unsupported):
                print("py2coq: NOT TRANSLATED (%s.%s): %s" % (spec["cls"], spec["func"], m), file=sys.stderr)
        text = methods_text(ctx, [spec["name"] for spec, m in res if not isinstance(m, Unsupported)])
        if a.out:
            with open(a.out, "w") as f:
                f.write(text)
        else:
            sys.stdout.write(text)
        return 0 if not any(isinstance(m, Unsupported) for _, m in res) else 2
    if a.target:
        if a.target not in TARGETS:
            print("py2coq: unknown target %s" % a.target, file=sys.stderr)
            return 2
        specs = TARGETS[a.target]
    elif a.file and a.func:
        specs = [dict(file=a.file, func=a.func, name=a.name or a.func.split(".")[-1].strip("_"),
                      attrs=dict(x.split("=", 1) for x in a.attr), typevars=a.typevar, opaque=a.opaque)]
    else:
        ap.error("--target or --file/--func")
    try:
        text = HEADER + "\n".join(translate_spec(a.repo, s) for s in specs)
    except Unsupported as e:
        print("py2coq: NOT TRANSLATED (%s): %s" % (", ".join(s["func"] for s in specs), e), file=sys.stderr)
        return 2
    except (OSError, SyntaxError) as e:
        print("py2coq: cannot read the source: %s: %s" % (type(e).__name__, e), file=sys.stderr)
        return 2
    except Exception as e:      # a defect of the translator itself: also closed
        print("py2coq: NOT TRANSLATED, internal error %s: %s" % (type(e).__name__, e), file=sys.stderr)
        return 2
    if a.out:
        os.makedirs(os.path.dirname(os.path.abspath(a.out)), exist_ok=True)
        with open(a.out, "w") as f:
            f.write(text)
    else:
        sys.stdout.write(text)
    return 0


if __name__ == "__main__":
    sys.exit(main())
