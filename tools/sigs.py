#!/venv/bin/python
"""tools/sigs.py Cxx [tier] — distinct oracle failure signatures and mismatch samples (debug aid)."""
import sys, random, importlib, collections, os
sys.path.insert(0, os.path.dirname(os.path.dirname(os.path.abspath(__file__))))
sys.path.insert(0, os.environ.get("BAIZE_REPO", "/repo"))
from harness import core
pid = sys.argv[1]; tier = sys.argv[2] if len(sys.argv) > 2 else "quick"
mod = importlib.import_module("harness." + pid.lower())
cs = [c for _, c in mod.cases(tier, random.Random(int(os.environ.get("VERIF_SEED", "20260926"))))]
lines, il = core.run_impl(mod, cs)
ml = core.run_model(pid, lines)
sig = collections.Counter(); ex = {}
mm = 0; mmex = []
for c, l, i, m in zip(cs, lines, il, ml):
    v = mod.oracle(c, core.dec_line(i))
    if v: sig[v[0]] += 1; ex.setdefault(v[0], (l, v[1]))
    if i != m:
        mm += 1
        if v is None and len(mmex) < 5: mmex.append((l, i, m))
print("cases", len(cs), "mismatches", mm)
for k, n in sig.most_common(): print(n, k, "|", ex[k][1][:300], "|", ex[k][0][:200])
print("--- mismatches without oracle failure:")
for l, i, m in mmex: print("CASE", l[:300]); print(" IMPL ", i[:600]); print(" MODEL", m[:600])
