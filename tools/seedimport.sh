#!/bin/bash
# tools/seedimport.sh <Cxx> <src-dir with patch.diff demo.py meta.json> : copy as the next seeded/<Cxx>-<k> and run seedtest
set -e
cd "$(dirname "$0")/.."
p=$1; src=$2
k=1; while [ -e seeded/$p-$k ]; do k=$((k+1)); done
mkdir -p seeded/$p-$k
cp $src/patch.diff $src/demo.py $src/meta.json seeded/$p-$k/
echo "imported as seeded/$p-$k"
python3 tools/seedtest.py seeded/$p-$k > .work/seedtest-$p-$k.log 2>&1 || true
python3 - <<P
import json
m=json.load(open('seeded/$p-$k/meta.json'))
v=m['verification']
print('$p-$k', 'confirmed', v.get('confirmed'), {k:(c['caught'],c['with_failing_input'],c['wall_s'],c['detail'][-1:] ) for k,c in v.get('checks',{}).items()})
P
