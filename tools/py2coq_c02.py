#!/usr/bin/env python3
"""py2coq_c02 — the source-level tie of C02: the pure helpers of FileResponseMixin (baize/responses.py).

    tools/py2coq_c02.py [--repo /repo] [-o Generated.v]     translate judge_if_range, generate_multipart, generate_common_headers
    tools/py2coq_c02.py --check [--repo /repo]              translate, compile, re-check coq/theories/C02/Translated.v
    tools/py2coq_c02.py --pylib-check                       coq/theories/C02/PyLib.v against this interpreter

The functions are re-read with `ast` from $BAIZE_REPO (default /repo) on every run and turned into Gallina text that is
structurally the Python: one `let` per assignment in the order of the source, one call of a Lib/PyStr.v or C02/PyLib.v
function per library operation, the same operand order.  coq/theories/C02/Translated.v proves each generated function
equal to the function of C02/Model.v; coqc re-checks the part of that file that is about a function against the fresh
definition (one verdict per function).  Helpers (Unsupported, find_function, run_coqc, ...) are those of tools/py2coq.py.

FAIL CLOSED.  Anything not listed is refused (Unsupported -> verdict None: the tie says nothing, no alarm).

Understood
  functions    a method / classmethod of the class whose parameters (after self / cls) are annotated str, int, Optional[str],
               Sequence[Tuple[int, int]] (any type py2coq.parse_type knows) or os.stat_result; a docstring, statements, a
               final `return e` (no return elsewhere)
  statements   `x = e` / `x: T = e` (never a plain copy `x = y`; in a function that has a lambda or a comprehension every name
               is assigned at most once and no parameter is assigned: that makes the late binding of the free variables of
               a closure harmless; elsewhere a second assignment is a new `let` that shadows the first);
               d["literal or str expression"] = <str> for a local d made by a dict display in this function (PyStr.dict_set:
               dicts are association lists in insertion order);
               if / else (a `let` of the tuple of names that are bound with the same type at the end of both branches; a name
               whose binding or type depends on the branch cannot be used afterwards);
               try: <str>.encode("latin-1") / except UnicodeEncodeError: A / else: B  (a match on PyLib.encode_latin1);  pass
  expressions  names; int / str / bool literals; + - * on int, + on str; and / or / not on bool; `x or y` for x a str or
               Optional[str] and y a str (the value); as the test of an `if`: the truth value of bool / str / Optional[str]
               operands combined with and / or / not; one == or != between two str or two int, < <= > >= on int; tuples;
               dict displays with distinct str literal keys and str values; f-strings whose fields are str or int valued
               without conversion or format (an int field is str(int): PyLib.str_int);
               len(<str or list>), str(<int>), sum(<one generator expression / list comprehension with one `for` over a list
               parameter, no `if`, int valued>) -- the builtins, which the module must not rebind;
               <str>.encode("latin-1") (PyLib.encode_latin1: None is UnicodeEncodeError);
               lambda a, b: e  where the return annotation gives the parameter types (Callable[[int, int], bytes]);
  oracles      (arguments of the generated function, a fixed list per function: the theorem quantifies over them, nothing is
               claimed about them)
               <self or cls>.generate_etag(<stat>)                         generate_etag : Stat -> str
               formatdate(<int>, usegmt=True)                              formatdate_usegmt : Z -> str
                   formatdate being `from email.utils import formatdate`
               int(<stat>.st_mtime)                                        int_st_mtime : Stat -> Z
               os.path.basename(<str>)   (`import os`)                     basename : str -> str
               quote(<str>)   (`from urllib.parse import quote`)           quote : str -> str
               where Stat is an arbitrary type (the os.stat_result parameter).
"""
import argparse
import ast
import importlib.util
import os
import sys

HERE = os.path.dirname(os.path.abspath(__file__))
_spec = importlib.util.spec_from_file_location("py2coq", os.path.join(HERE, "py2coq.py"))
py2coq = importlib.util.module_from_spec(_spec)
_spec.loader.exec_module(py2coq)
Unsupported = py2coq.Unsupported
paren = py2coq.paren

PID = "C02"
TARGET = dict(file="baize/responses.py", cls="FileResponseMixin", functions=[
    dict(func="judge_if_range", name="judge_if_range", oracles=["generate_etag", "formatdate_usegmt", "int_st_mtime"]),
    dict(func="generate_multipart", name="generate_multipart"),
    dict(func="generate_common_headers", name="generate_common_headers",
         oracles=["generate_etag", "formatdate_usegmt", "int_st_mtime", "basename", "quote"]),
])
BUILTINS = ("len", "str", "sum", "int")

HEADER = """(* GENERATED by tools/py2coq_c02.py from the Python source — do not edit.
   Structurally the Python: one let per assignment in source order, the same operand order; library operations are calls of
   Lib/PyStr.v and C02/PyLib.v; generate_etag, formatdate(.., usegmt=True), int(<stat>.st_mtime), os.path.basename and quote are
   arguments. *)
From Coq Require Import List NArith ZArith Bool.
From Baize Require Import Lib.PyStr.
From Baize Require C02.PyLib.
Import ListNotations.
Local Open Scope N_scope.

"""


# ---------------------------------------------------------------- the module around the functions

def module_bindings(tree):
    """every name bound at module level -> where it comes from (a (module, name) pair for `from m import n`, else a word)"""
    out = {}

    def bind(name, origin):
        out[name] = origin if name not in out else "rebound"

    def walk(stmts):
        for s in stmts:
            if isinstance(s, ast.ImportFrom):
                for a in s.names:
                    bind(a.asname or a.name, (s.module, a.name) if s.level == 0 else "relative")
            elif isinstance(s, ast.Import):
                for a in s.names:
                    bind((a.asname or a.name).split(".")[0], "module")
            elif isinstance(s, (ast.FunctionDef, ast.AsyncFunctionDef, ast.ClassDef)):
                bind(s.name, "def")
            elif isinstance(s, (ast.Assign, ast.AnnAssign, ast.AugAssign)):
                targets = s.targets if isinstance(s, ast.Assign) else [s.target]
                for t in targets:
                    for n in ast.walk(t):
                        if isinstance(n, ast.Name):
                            bind(n.id, "assigned")
            elif isinstance(s, (ast.If, ast.Try, ast.With, ast.For, ast.While)):
                for field in ("body", "orelse", "finalbody"):
                    walk(getattr(s, field, []))
                for h in getattr(s, "handlers", []):
                    walk(h.body)
                if isinstance(s, ast.For):
                    for n in ast.walk(s.target):
                        if isinstance(n, ast.Name):
                            bind(n.id, "assigned")
                if isinstance(s, ast.With):
                    for it in s.items:
                        if it.optional_vars is not None:
                            for n in ast.walk(it.optional_vars):
                                if isinstance(n, ast.Name):
                                    bind(n.id, "assigned")
            elif isinstance(s, (ast.Global, ast.Delete)):
                raise Unsupported(s, "global / del at module level")
    walk(tree.body)
    # a `global x` inside any function can bind module names as well
    for n in ast.walk(tree):
        if isinstance(n, ast.Global):
            for name in n.names:
                out[name] = "rebound"
    return out


# ---------------------------------------------------------------- one function

class Fn:
    def __init__(self, fdef, bindings, spec_oracles=()):
        self.f = fdef
        self.bindings = bindings
        self.spec_oracles = list(spec_oracles)
        self.oracles = []       # in order of first use: (argument name, Coq type)
        self.stat_used = False

    def var(self, name):
        return "v_" + name

    def oracle(self, name, ty):
        if (name, ty) not in self.oracles:
            self.oracles.append((name, ty))
        return name

    def builtin(self, e, env, name):
        f = e.func
        return (isinstance(f, ast.Name) and f.id == name and name not in env and name not in self.bindings)

    # ---- expressions -> (coq text, type); `want` is the type the context asks for (only a lambda needs it)
    def expr(self, e, env, want=None):
        m = getattr(self, "e_" + type(e).__name__, None)
        if m is None:
            raise Unsupported(e, "expression kind not supported")
        if isinstance(e, (ast.Lambda, ast.Tuple)):
            return m(e, env, want)
        return m(e, env)

    def e_Name(self, e, env):
        if e.id not in env:
            raise Unsupported(e, "name is not a parameter or a local variable assigned before")
        return self.var(e.id), env[e.id]

    def e_Constant(self, e, env):
        v = e.value
        if isinstance(v, bool):
            return ("true" if v else "false"), "bool"
        if isinstance(v, int):
            return ("%d%%Z" % v if v >= 0 else "(%d)%%Z" % v), "int"
        if isinstance(v, str):
            return ("%s %s" % (py2coq.lit_str(v), py2coq.comment_of(v)) if v else "[]"), "str"
        raise Unsupported(e, "literal of this kind")

    def e_Tuple(self, e, env, want=None):
        if len(e.elts) < 2 or any(isinstance(x, ast.Starred) for x in e.elts):
            raise Unsupported(e, "empty, one-element or starred tuple")
        wants = [None] * len(e.elts)
        if isinstance(want, tuple) and want[0] == "tuple" and len(want[1]) == len(e.elts):
            wants = list(want[1])
        parts = [self.expr(x, env, w) for x, w in zip(e.elts, wants)]
        return "(%s)" % ", ".join(p[0] for p in parts), ("tuple", tuple(p[1] for p in parts))

    def e_Dict(self, e, env):
        if not e.keys or any(k is None for k in e.keys):
            raise Unsupported(e, "empty dict display or ** in a dict display")
        keys = [k.value if isinstance(k, ast.Constant) and isinstance(k.value, str) else None for k in e.keys]
        if None in keys or len(set(keys)) != len(keys):
            raise Unsupported(e, "dict display whose keys are not distinct str literals")
        items = []
        for k, v in zip(e.keys, e.values):
            c, t = self.expr(v, env)
            if t != "str":
                raise Unsupported(v, "dict display with a value that is not a str")
            items.append("(%s, %s)" % (self.e_Constant(k, env)[0], c))
        return "[%s]" % ";\n     ".join(items), ("dict", "str", "str")

    def e_JoinedStr(self, e, env):
        parts, pending = [], ""
        for v in e.values:
            if isinstance(v, ast.Constant) and isinstance(v.value, str):
                pending += v.value
                continue
            if pending:
                parts.append("%s %s" % (py2coq.lit_str(pending), py2coq.comment_of(pending)))
                pending = ""
            if isinstance(v, ast.FormattedValue) and v.conversion == -1 and v.format_spec is None:
                c, t = self.expr(v.value, env)
                if t == "str":
                    parts.append(paren(c))
                elif t == "int":
                    parts.append("PyLib.str_int %s" % paren(c))
                else:
                    raise Unsupported(v, "f-string field that is neither a str nor an int")
            else:
                raise Unsupported(v, "f-string field with conversion or format")
        if pending:
            parts.append("%s %s" % (py2coq.lit_str(pending), py2coq.comment_of(pending)))
        return ("(%s)" % " ++ ".join(parts) if parts else "[]"), "str"

    def e_BinOp(self, e, env):
        a, ta = self.expr(e.left, env)
        b, tb = self.expr(e.right, env)
        if ta == "int" and tb == "int":
            op = {ast.Add: "Z.add", ast.Sub: "Z.sub", ast.Mult: "Z.mul"}.get(type(e.op))
            if op is None:
                raise Unsupported(e, "operator on int (only + - *)")
            return "(%s %s %s)" % (op, paren(a), paren(b)), "int"
        if ta == "str" and tb == "str" and isinstance(e.op, ast.Add):
            return "(%s ++ %s)" % (paren(a), paren(b)), "str"
        raise Unsupported(e, "binary operator on %s and %s" % (ta, tb))

    def e_BoolOp(self, e, env):
        parts = [self.expr(x, env) for x in e.values]
        if (isinstance(e.op, ast.Or) and len(parts) == 2 and parts[1][1] == "str" and parts[0][1] in ("str", ("option", "str"))):
            # x or y: x when x is true (a non-empty str), else y
            (x, tx), (y, _) = parts
            if tx == "str":
                return "(if PyStr.is_empty %s then %s else %s)" % (paren(x), y, x), "str"
            return "(match %s with Some s_ => if PyStr.is_empty s_ then %s else s_ | None => %s end)" % (x, y, y), "str"
        if any(t != "bool" for _, t in parts):
            raise Unsupported(e, "and / or on operands that are not bool (the result would be an operand, not a bool)")
        op = " && " if isinstance(e.op, ast.And) else " || "
        # `a or b or c` evaluates from the left; the operands are pure, so the value is the left-nested orb
        text = paren(parts[0][0])
        for c, _ in parts[1:]:
            text = "(%s%s%s)" % (text, op, paren(c))
        return text, "bool"

    def e_UnaryOp(self, e, env):
        c, t = self.expr(e.operand, env)
        if isinstance(e.op, ast.Not) and t == "bool":
            return "(negb %s)" % paren(c), "bool"
        if isinstance(e.op, ast.USub) and t == "int":
            return "(Z.opp %s)" % paren(c), "int"
        raise Unsupported(e, "unary operator on %s" % (t,))

    def e_Compare(self, e, env):
        if len(e.ops) != 1:
            raise Unsupported(e, "chained comparison")
        a, ta = self.expr(e.left, env)
        b, tb = self.expr(e.comparators[0], env)
        if ta != tb or ta not in ("str", "int"):
            raise Unsupported(e, "comparison between %s and %s" % (ta, tb))
        if isinstance(e.ops[0], (ast.Eq, ast.NotEq)):
            c = "%s %s %s" % ("PyStr.str_eqb" if ta == "str" else "Z.eqb", paren(a), paren(b))
            return ("(%s)" % c if isinstance(e.ops[0], ast.Eq) else "(negb (%s))" % c), "bool"
        if ta == "int":
            if type(e.ops[0]) in (ast.Lt, ast.LtE):
                return "(%s %s %s)" % ("Z.ltb" if isinstance(e.ops[0], ast.Lt) else "Z.leb", paren(a), paren(b)), "bool"
            if type(e.ops[0]) in (ast.Gt, ast.GtE):
                return "(%s %s %s)" % ("Z.ltb" if isinstance(e.ops[0], ast.Gt) else "Z.leb", paren(b), paren(a)), "bool"
        raise Unsupported(e, "comparison operator")

    def is_stat_mtime_int(self, e, env):
        """int(<stat>.st_mtime) -> the stat expression, or None"""
        if (isinstance(e, ast.Call) and self.builtin(e, env, "int") and len(e.args) == 1 and not e.keywords
                and isinstance(e.args[0], ast.Attribute) and e.args[0].attr == "st_mtime"):
            c, t = self.expr(e.args[0].value, env)
            if t == "stat":
                return c
        return None

    def e_Call(self, e, env):
        f = e.func
        if any(isinstance(a, ast.Starred) for a in e.args) or any(k.arg is None for k in e.keywords):
            raise Unsupported(e, "call with * or ** arguments")
        # formatdate(int(<stat>.st_mtime), usegmt=True)
        if isinstance(f, ast.Name) and f.id == "formatdate" and "formatdate" not in env:
            if self.bindings.get("formatdate") != ("email.utils", "formatdate"):
                raise Unsupported(e, "formatdate is not (only) `from email.utils import formatdate`")
            kw = {k.arg: k.value for k in e.keywords}
            if (len(e.args) == 1 and set(kw) == {"usegmt"} and isinstance(kw["usegmt"], ast.Constant)
                    and kw["usegmt"].value is True):
                c, t = self.expr(e.args[0], env)
                if t == "int":
                    return "%s %s" % (self.oracle("formatdate_usegmt", "Z -> str"), paren(c)), "str"
            raise Unsupported(e, "formatdate called otherwise than formatdate(<int>, usegmt=True)")
        # int(<stat>.st_mtime)
        st = self.is_stat_mtime_int(e, env)
        if st is not None:
            self.stat_used = True
            return "%s %s" % (self.oracle("int_st_mtime", "Stat -> Z"), paren(st)), "int"
        if e.keywords:
            raise Unsupported(e, "call with keyword arguments")
        # <receiver>.generate_etag(<stat>)
        if (isinstance(f, ast.Attribute) and isinstance(f.value, ast.Name) and f.value.id == self.receiver
                and f.value.id not in env and f.attr == "generate_etag" and len(e.args) == 1):
            c, t = self.expr(e.args[0], env)
            if t != "stat":
                raise Unsupported(e, "generate_etag of something that is not the stat parameter")
            self.stat_used = True
            return "%s %s" % (self.oracle("generate_etag", "Stat -> str"), paren(c)), "str"
        # os.path.basename(<str>), quote(<str>)
        if (isinstance(f, ast.Attribute) and f.attr == "basename" and isinstance(f.value, ast.Attribute) and f.value.attr == "path"
                and isinstance(f.value.value, ast.Name) and f.value.value.id == "os" and "os" not in env
                and self.bindings.get("os") == "module" and len(e.args) == 1):
            c, t = self.expr(e.args[0], env)
            if t == "str":
                return "%s %s" % (self.oracle("basename", "str -> str"), paren(c)), "str"
        if (isinstance(f, ast.Name) and f.id == "quote" and "quote" not in env
                and self.bindings.get("quote") == ("urllib.parse", "quote") and len(e.args) == 1):
            c, t = self.expr(e.args[0], env)
            if t == "str":
                return "%s %s" % (self.oracle("quote", "str -> str"), paren(c)), "str"
        if self.builtin(e, env, "len") and len(e.args) == 1:
            c, t = self.expr(e.args[0], env)
            if t == "str" or (isinstance(t, tuple) and t[0] == "list"):
                return "PyStr.len %s" % paren(c), "int"
            raise Unsupported(e, "len of a %s" % (t,))
        if self.builtin(e, env, "str") and len(e.args) == 1:
            c, t = self.expr(e.args[0], env)
            if t == "int":
                return "PyLib.str_int %s" % paren(c), "str"
            raise Unsupported(e, "str of a %s" % (t,))
        if self.builtin(e, env, "sum") and len(e.args) == 1 and isinstance(e.args[0], (ast.GeneratorExp, ast.ListComp)):
            return self.sum_of(e.args[0], env), "int"
        if (isinstance(f, ast.Attribute) and f.attr == "encode" and len(e.args) == 1 and isinstance(e.args[0], ast.Constant)
                and isinstance(e.args[0].value, str) and e.args[0].value.lower().replace("_", "-") in ("latin-1", "latin1", "iso-8859-1")):
            c, t = self.expr(f.value, env)
            if t == "str":
                return "PyLib.encode_latin1 %s" % paren(c), "bytes"
        raise Unsupported(e, "call not understood")

    def sum_of(self, g, env):
        if len(g.generators) != 1:
            raise Unsupported(g, "more than one for in the comprehension")
        gen = g.generators[0]
        if gen.ifs or gen.is_async:
            raise Unsupported(g, "comprehension with if / async")
        it, tit = self.expr(gen.iter, env)
        if not (isinstance(tit, tuple) and tit[0] == "list"):
            raise Unsupported(gen.iter, "comprehension over something that is not a list")
        inner = dict(env)
        el = tit[1]
        if isinstance(gen.target, ast.Name):
            inner[gen.target.id] = el
            pat = self.var(gen.target.id)
        elif (isinstance(gen.target, ast.Tuple) and all(isinstance(x, ast.Name) for x in gen.target.elts)
              and isinstance(el, tuple) and el[0] == "tuple" and len(el[1]) == len(gen.target.elts)
              and len({x.id for x in gen.target.elts}) == len(gen.target.elts)):
            for x, t in zip(gen.target.elts, el[1]):
                inner[x.id] = t
            pat = "'(%s)" % ", ".join(self.var(x.id) for x in gen.target.elts)
        else:
            raise Unsupported(gen.target, "comprehension target")
        body, tb = self.expr(g.elt, inner)
        if tb != "int":
            raise Unsupported(g.elt, "sum of values that are not int")
        return "PyLib.sum (map (fun %s => %s) %s)" % (pat, body, paren(it))

    def e_Lambda(self, e, env, want=None):
        a = e.args
        if a.vararg or a.kwarg or a.kwonlyargs or a.defaults or a.kw_defaults or a.posonlyargs:
            raise Unsupported(e, "lambda with defaults, * or keyword-only parameters")
        if not (isinstance(want, tuple) and want[0] == "fun" and len(want[1]) == len(a.args)):
            raise Unsupported(e, "lambda whose parameter types the return annotation does not give")
        names = [x.arg for x in a.args]
        if len(set(names)) != len(names):
            raise Unsupported(e, "lambda parameters")
        inner = dict(env)
        for n, t in zip(names, want[1]):
            inner[n] = t
        body, tb = self.expr(e.body, inner)
        if tb != want[2]:
            raise Unsupported(e, "lambda gives %s, the annotation says %s" % (tb, want[2]))
        return "(fun %s => %s)" % (" ".join("(%s : %s)" % (self.var(n), coq_type(t)) for n, t in zip(names, want[1])), body), want

    # ---- the function
    def translate(self, name):
        f = self.f
        decos = [d.id if isinstance(d, ast.Name) else None for d in f.decorator_list]
        if decos not in ([], ["classmethod"]):
            raise Unsupported(f, "decorators other than @classmethod")
        a = f.args
        if a.vararg or a.kwarg or a.kwonlyargs or a.defaults or a.kw_defaults or a.posonlyargs or len(a.args) < 1:
            raise Unsupported(f, "parameters with defaults, * or keyword-only parameters")
        self.receiver = a.args[0].arg
        env, params = {}, []
        for p in a.args[1:]:
            if p.annotation is None:
                raise Unsupported(p, "parameter without annotation")
            t = parse_type(p.annotation)
            env[p.arg] = t
            params.append((p.arg, t))
        if self.receiver in env or len(env) != len(params):
            raise Unsupported(f, "parameter names")
        rtype = parse_type(f.returns) if f.returns is not None else None
        body = list(f.body)
        if body and isinstance(body[0], ast.Expr) and isinstance(body[0].value, ast.Constant) and isinstance(body[0].value.value, str):
            body = body[1:]
        if not body or not isinstance(body[-1], ast.Return) or body[-1].value is None:
            raise Unsupported(f, "the body does not end with `return <expression>`")
        for n in ast.walk(f):
            if n is not f and isinstance(n, (ast.NamedExpr, ast.Global, ast.Nonlocal, ast.Yield, ast.YieldFrom, ast.Await, ast.FunctionDef,
                                             ast.AsyncFunctionDef, ast.ClassDef)):
                raise Unsupported(n, "walrus / global / nonlocal / yield / nested def")
        # a closure (lambda, comprehension) sees the LAST value of a free variable: only single assignment makes that the value
        # at the point where the closure is written
        self.closures = any(isinstance(n, (ast.Lambda, ast.GeneratorExp, ast.ListComp, ast.SetComp, ast.DictComp)) for n in ast.walk(f))
        self.params = {n for n, _ in params}
        lets, _ = self.stmts(body[:-1], env, 1)
        c, t = self.expr(body[-1].value, env, rtype)
        if rtype is not None and t != rtype:
            raise Unsupported(body[-1], "the returned value is a %s, the annotation says %s" % (t, rtype))
        declared = self.spec_oracles
        if [o for o, _ in self.oracles if o not in declared]:
            raise Unsupported(f, "uses an oracle that is not declared for this function: %s" % [o for o, _ in self.oracles if o not in declared])
        args = []
        if any(o in ("generate_etag", "int_st_mtime") for o in declared):
            args.append("{Stat : Type}")
        args += ["(%s : %s)" % (o, ORACLE_TYPES[o]) for o in declared]
        args += ["(%s : %s)" % (self.var(n), coq_type(t)) for n, t in params]
        return "Definition %s %s :=\n%s\n  %s.\n" % (name, " ".join(args), "\n".join(lets), c) if lets else \
               "Definition %s %s :=\n  %s.\n" % (name, " ".join(args), c)

    # ---- statements: -> (lines of `let .. in`, names assigned); env is updated in place
    def assign(self, s, target, env):
        if target == self.receiver or target in BUILTINS or target in ("formatdate", "quote", "os", "UnicodeEncodeError"):
            raise Unsupported(s, "a builtin / module name is assigned")
        if self.closures and (target in env or target in self.params):
            raise Unsupported(s, "a name is assigned twice (or a parameter is assigned) in a function that has a lambda / comprehension")

    def stmts(self, body, env, ind):
        pad = "  " * ind
        lines, assigned = [], set()
        for s in body:
            if isinstance(s, ast.Pass):
                continue
            if (isinstance(s, ast.Assign) and len(s.targets) == 1 and isinstance(s.targets[0], ast.Name)) or \
               (isinstance(s, ast.AnnAssign) and isinstance(s.target, ast.Name) and s.value is not None and s.simple):
                target = s.targets[0].id if isinstance(s, ast.Assign) else s.target.id
                self.assign(s, target, env)
                if isinstance(s.value, ast.Name):
                    raise Unsupported(s, "a plain copy of a name (it would be an alias if the object is mutable)")
                c, t = self.expr(s.value, env)
                if isinstance(t, tuple) and t[0] == "fun":
                    raise Unsupported(s, "a lambda bound to a name")
                if isinstance(s, ast.AnnAssign) and parse_type(s.annotation) != t:
                    raise Unsupported(s, "the value is a %s, the annotation says otherwise" % (t,))
                lines.append("%slet %s := %s in" % (pad, self.var(target), c))
                env[target] = t
                assigned.add(target)
            elif (isinstance(s, ast.Assign) and len(s.targets) == 1 and isinstance(s.targets[0], ast.Subscript)
                  and isinstance(s.targets[0].value, ast.Name)):
                d = s.targets[0].value.id
                if d in self.params or env.get(d) != ("dict", "str", "str"):
                    raise Unsupported(s, "item assignment to something that is not a local Dict[str, str] made in this function")
                k, tk = self.expr(s.targets[0].slice, env)
                v, tv = self.expr(s.value, env)
                if tk != "str" or tv != "str":
                    raise Unsupported(s, "item assignment with a key / value that is not a str")
                lines.append("%slet %s := PyStr.dict_set %s %s %s in" % (pad, self.var(d), paren(k), paren(v), self.var(d)))
                assigned.add(d)
            elif isinstance(s, ast.If):
                c = self.cond(s.test, env)
                lines += self.branches(s, env, ind, assigned, "if %s then" % c, s.body, "else", s.orelse)
            elif isinstance(s, ast.Try):
                # try: <str>.encode("latin-1")  except UnicodeEncodeError: A  else: B
                if (s.finalbody or len(s.handlers) != 1 or len(s.body) != 1 or not isinstance(s.body[0], ast.Expr)
                        or s.handlers[0].name is not None or not isinstance(s.handlers[0].type, ast.Name)
                        or s.handlers[0].type.id != "UnicodeEncodeError" or "UnicodeEncodeError" in env
                        or "UnicodeEncodeError" in self.bindings):
                    raise Unsupported(s, "try statement (only: try: <str>.encode('latin-1') / except UnicodeEncodeError: / else:)")
                c, t = self.expr(s.body[0].value, env)
                if t != "bytes":
                    raise Unsupported(s, "try body is not <str>.encode('latin-1')")
                lines += self.branches(s, env, ind, assigned, "match %s with None =>" % c, s.handlers[0].body, "| Some _ =>", s.orelse,
                                       close=" end")
            else:
                raise Unsupported(s, "statement not understood")
        return lines, assigned

    def branches(self, s, env, ind, assigned, head1, body1, head2, body2, close=""):
        pad = "  " * ind
        e1, e2 = dict(env), dict(env)
        l1, a1 = self.stmts(body1, e1, ind + 2)
        l2, a2 = self.stmts(body2, e2, ind + 2)
        both = sorted(a1 | a2)
        carried = [n for n in both if n in e1 and n in e2 and e1[n] == e2[n]]
        for n in both:
            env.pop(n, None)            # a name whose binding or type depends on the branch is not available afterwards
        if not carried:
            return []                   # nothing that is visible afterwards is computed here (expressions cannot raise)
        for n in carried:
            env[n] = e1[n]
        assigned.update(carried)
        tup = self.var(carried[0]) if len(carried) == 1 else "(%s)" % ", ".join(self.var(n) for n in carried)
        pat = self.var(carried[0]) if len(carried) == 1 else "'%s" % tup
        inner = "  " * (ind + 2)
        return (["%slet %s :=" % (pad, pat), "%s  %s (" % (pad, head1)] + l1 + ["%s%s)" % (inner, tup), "%s  %s (" % (pad, head2)]
                + l2 + ["%s%s)%s in" % (inner, tup, close)])

    def truth(self, e, env):
        c, t = self.expr(e, env)
        if t == "bool":
            return paren(c)
        if t == "str":
            return "(negb (PyStr.is_empty %s))" % paren(c)
        if t == ("option", "str"):
            return "(match %s with Some s_ => negb (PyStr.is_empty s_) | None => false end)" % c
        raise Unsupported(e, "truth value of a %s" % (t,))

    def cond(self, e, env):
        """the truth value of e as a bool: bool(a or b) = bool(a) or bool(b), bool(a and b) = bool(a) and bool(b)"""
        if isinstance(e, ast.BoolOp):
            op = " && " if isinstance(e.op, ast.And) else " || "
            text = self.cond(e.values[0], env)
            for x in e.values[1:]:
                text = "(%s%s%s)" % (text, op, self.cond(x, env))
            return text
        if isinstance(e, ast.UnaryOp) and isinstance(e.op, ast.Not):
            return "(negb %s)" % self.cond(e.operand, env)
        return self.truth(e, env)


ORACLE_TYPES = {"generate_etag": "Stat -> str", "formatdate_usegmt": "Z -> str", "int_st_mtime": "Stat -> Z",
                "basename": "str -> str", "quote": "str -> str"}
ORACLE_ORDER = ["generate_etag", "formatdate_usegmt", "int_st_mtime"]


def coq_type(t):
    if t == "stat":
        return "Stat"
    if t == "bytes":
        return "option (list N)"
    if isinstance(t, tuple) and t[0] == "fun":
        return "(%s)" % " -> ".join([coq_type(x) for x in t[1]] + [coq_type(t[2])])
    if isinstance(t, tuple) and t[0] == "tuple":
        return "(%s)" % " * ".join(coq_type(x) for x in t[1])
    if isinstance(t, tuple) and t[0] == "list":
        return "(list %s)" % coq_type(t[1])
    return py2coq.ty_atom(t)


def parse_type(node):
    """py2coq.parse_type plus os.stat_result, bytes and Callable[[..], R]"""
    if (isinstance(node, ast.Attribute) and isinstance(node.value, ast.Name) and node.value.id == "os"
            and node.attr == "stat_result"):
        return "stat"
    if isinstance(node, ast.Name) and node.id == "bytes":
        return "bytes"
    if isinstance(node, ast.Subscript) and isinstance(node.value, ast.Name):
        args = node.slice.elts if isinstance(node.slice, ast.Tuple) else [node.slice]
        if node.value.id == "Callable" and len(args) == 2 and isinstance(args[0], ast.List):
            return ("fun", tuple(parse_type(x) for x in args[0].elts), parse_type(args[1]))
        if node.value.id in ("Tuple", "tuple") and args and not any(isinstance(x, ast.Constant) and x.value is Ellipsis for x in args):
            return ("tuple", tuple(parse_type(x) for x in args))
        if node.value.id in ("List", "Sequence", "list") and len(args) == 1:
            return ("list", parse_type(args[0]))
    return py2coq.parse_type(node, [])


def translate_all(repo):
    """-> [(spec, (head, text) or Unsupported)]"""
    path = os.path.join(repo, TARGET["file"])
    src = open(path, encoding="utf-8").read()
    tree = ast.parse(src)
    bindings = module_bindings(tree)
    out = []
    for spec in TARGET["functions"]:
        try:
            fdef = py2coq.find_function(tree, "%s.%s" % (TARGET["cls"], spec["func"]))
            text = Fn(fdef, bindings, spec.get("oracles", ())).translate(spec["name"])
            seg = ast.get_source_segment(src, fdef) or ""
            head = "(* %s :: %s.%s, lines %d-%d\n%s\n*)\n" % (
                TARGET["file"], TARGET["cls"], spec["func"], fdef.lineno, fdef.end_lineno,
                "\n".join("   | " + l for l in py2coq.comment_safe(seg).splitlines()))
            out.append((spec, (head, text)))
        except Unsupported as e:
            out.append((spec, e))
    return out


# ---------------------------------------------------------------- the obligation, one verdict per function

TEMPLATE_BLOCK = py2coq.TEMPLATE_BLOCK % {"pid": PID}


def check_functions(repo=None, verif=None, timeout=120, keep=False):
    import re
    import shutil
    import time
    from concurrent.futures import ThreadPoolExecutor
    repo = repo or os.environ.get("BAIZE_REPO", "/repo")
    verif = verif or py2coq.VERIF
    coq = os.path.join(verif, "coq")

    def label(spec):
        return "%s/Translated.v (%s.%s)" % (PID, TARGET["cls"], spec["func"])
    refuse = ("the translator does not understand the current source (it refuses rather than guess; this says nothing about the "
              "behaviour of the code, the case-based tie decides alone): %s")
    try:
        res = translate_all(repo)
    except Unsupported as e:
        return [(label(sp), None, refuse % e) for sp in TARGET["functions"]]
    except (OSError, SyntaxError) as e:
        return [(label(sp), False, "cannot read the source: %s: %s" % (type(e).__name__, e)) for sp in TARGET["functions"]]
    except Exception as e:      # a defect of the translator itself: also closed
        return [(label(sp), None, "the translator failed on the current source (%s: %s); the case-based tie decides alone"
                 % (type(e).__name__, e)) for sp in TARGET["functions"]]
    tv = os.path.join(coq, "theories", PID, "Translated.v")
    tsrc = open(tv).read()
    pre, segs = py2coq.split_segments(tsrc)
    ref = os.path.join(coq, "theories", PID, "Generated_ref.v")
    refdefs = py2coq.definitions_only(open(ref).read()) if os.path.exists(ref) else ""
    root = os.path.join(verif, ".work", "translate-%s-%d" % (PID, os.getpid()))
    shutil.rmtree(root, ignore_errors=True)

    def one(spec, m):
        name = label(spec)
        t0 = time.time()
        if isinstance(m, Unsupported):
            return (name, None, refuse % m)
        head, body = m
        text = HEADER + head + body
        bad = [t for t in py2coq.FORBIDDEN_TOKENS if re.search(r"\b%s\b" % t, py2coq.strip_coq_comments(body))]
        if bad:
            return (name, False, "generated text contains %s" % bad)
        if pre.count(TEMPLATE_BLOCK) != 1 or spec["name"] not in segs:
            return (name, False, "%s does not contain the marked Require block exactly once before the segments, or lacks the "
                                 "segment of %s" % (tv, spec["name"]))
        part = pre.replace(TEMPLATE_BLOCK, py2coq.FRESH_BLOCK) + segs[spec["name"]]
        own = py2coq.strip_coq_comments(segs[spec["name"]])
        thms = re.findall(r"^\s*Theorem\s+(\w+)", own, re.M)
        printed = re.findall(r"Print Assumptions\s+(\w+)\s*\.", py2coq.strip_coq_comments(part))
        if not thms or [t for t in thms if t not in printed]:
            return (name, False, "Translated.v: no theorem about %s, or a theorem without Print Assumptions" % spec["name"])
        fresh = os.path.join(root, spec["name"], "Fresh")
        os.makedirs(fresh)
        with open(os.path.join(fresh, "Generated.v"), "w") as f:
            f.write(text)
        with open(os.path.join(fresh, "Translated.v"), "w") as f:
            f.write(part)
        base = ["-Q", "theories", "Baize", "-Q", fresh, "Fresh"]
        rc, out, err = py2coq.run_coqc(base + [os.path.join(fresh, "Generated.v")], coq, timeout)
        if rc == 124:
            return (name, None, "coqc did not finish within %d s; no verdict from the source-level tie in this run" % timeout)
        if rc != 0:
            return (name, False, "the generated definition does not compile (rc %d): %s" % (rc, (err or out)[-600:]))
        rc, out, err = py2coq.run_coqc(base + [os.path.join(fresh, "Translated.v")], coq, timeout)
        if rc == 124:
            return (name, None, "coqc did not finish within %d s; no verdict from the source-level tie in this run" % timeout)
        if rc != 0:
            return (name, False, "the proof that the function translated from the current source equals the model function "
                                 "no longer checks (rc %d): %s" % (rc, " ".join((err or out).split())[-600:]))
        closed = out.count("Closed under the global context")
        if closed != len(printed) or "Axioms:" in out:
            return (name, False, "Print Assumptions: %d of %d closed under the global context: %s" % (closed, len(printed), out[-300:]))
        same = py2coq.definitions_only(body) in refdefs
        return (name, True, "%s re-checked against the definition translated from %s (%s the committed reference copy), closed "
                            "under the global context, %.1f s" % (", ".join(thms), TARGET["file"],
                                                                  "identical to" if same else "DIFFERENT from", time.time() - t0))
    try:
        with ThreadPoolExecutor(max(1, len(res))) as ex:
            return list(ex.map(lambda sm: one(*sm), res))
    finally:
        if not keep:
            shutil.rmtree(root, ignore_errors=True)


# ---------------------------------------------------------------- C02/PyLib.v against the interpreter

INTS = (list(range(-120, 1200)) + [10 ** k + d for k in range(3, 40) for d in (-1, 0, 1)] + [-(10 ** k) + d for k in range(3, 40) for d in (-1, 0, 1)]
        + [2 ** k + d for k in (31, 32, 53, 63, 64, 100) for d in (-1, 0, 1)] + [-(2 ** k) for k in (31, 63, 64)])
CODEPOINTS = [0, 1, 9, 10, 13, 32, 34, 65, 97, 127, 128, 160, 233, 254, 255, 256, 257, 300, 0x20AC, 0xD7FF, 0xE000, 0xFFFF, 0x10000, 0x10FFFF]
SUMS = [[], [0], [5], [-3], [1, 2, 3], [-1, 1], [10 ** 20, -(10 ** 20), 7], [3, -10, 4, 4], [2 ** 64, 2 ** 64], list(range(-5, 30))]

PYLIB_PRELUDE = """From Coq Require Import List NArith ZArith Bool.
From Baize Require Import Lib.PyStr.
From Baize Require C02.PyLib.
Import ListNotations.
Local Open Scope N_scope.
Definition M31 : N := 2147483647.
Definition hs (r : list N) : N := fold_left (fun a c => N.land (N.shiftl a 5 + a + c + 1) M31) r 7.
Definition hall (rs : list N) : N := fold_left (fun a h => N.land (N.shiftl a 6 + a + h + 5) M31) rs 13.
Definition ho (r : option (list N)) : N := match r with Some s => hs (1 :: s) | None => 0 end.
Definition hz (z : Z) : N := hs (PyLib.str_int z).
Fixpoint exact {T : Type} (alpha : list T) (n : nat) : list (list T) :=
  match n with O => [[]] | S k => flat_map (fun c => map (cons c) (exact alpha k)) alpha end.
Definition CP : list N := %(cp)s.
Definition WORDS : list (list N) := exact CP 0 ++ exact CP 1 ++ exact CP 2.
Definition INTS : list Z := %(ints)s.
Definition SUMS : list (list Z) := %(sums)s.
"""


def _zl(zs):
    return "[%s]%%Z" % "; ".join("%d" % z if z >= 0 else "(%d)" % z for z in zs) if zs else "([] : list Z)"


def pylib_check(verif=None, timeout=120, keep=False):
    """-> [(name, ok, detail)]: C02/PyLib.v evaluated by coqc against str(int), sum and str.encode('latin-1') of this interpreter"""
    import itertools
    import re
    import shutil
    import time
    verif = verif or py2coq.VERIF
    coq = os.path.join(verif, "coq")
    name = "C02/PyLib.v against the interpreter's str(int), sum, str.encode('latin-1')"
    t0 = time.time()
    d = os.path.join(verif, ".work", "pylib-c02-%d" % os.getpid())
    shutil.rmtree(d, ignore_errors=True)
    os.makedirs(d)
    hs, hall = py2coq._hs, py2coq._hall
    words = [""] + [chr(c) for c in CODEPOINTS] + [chr(a) + chr(b) for a, b in itertools.product(CODEPOINTS, repeat=2)]

    def enc(w):
        try:
            return hs("\x01" + w.encode("latin-1").decode("latin-1"))
        except UnicodeEncodeError:
            return 0
    want = [hall([hs(str(z)) for z in INTS]),
            hall([enc(w) for w in words]),
            hall([hs(str(sum(x for x in l))) for l in SUMS])]
    text = PYLIB_PRELUDE % {"cp": "[%s]" % "; ".join(map(str, CODEPOINTS)), "ints": _zl(INTS),
                            "sums": "[%s]" % "; ".join(_zl(l) for l in SUMS)}
    text += ("Eval vm_compute in (hall (map hz INTS)).\n"
             "Eval vm_compute in (hall (map (fun w => ho (PyLib.encode_latin1 w)) WORDS)).\n"
             "Eval vm_compute in (hall (map (fun l => hz (PyLib.sum l)) SUMS)).\n")
    try:
        vf = os.path.join(d, "PyLibCheck.v")
        with open(vf, "w") as f:
            f.write(text)
        rc, out, err = py2coq.run_coqc(["-Q", "theories", "Baize", vf], coq, timeout)
        if rc == 124:
            return [(name, None, "coqc did not finish within %d s" % timeout)]
        if rc != 0:
            return [(name, False, "coqc rc %d: %s" % (rc, (err or out)[-400:]))]
        got = [int(x) for x in re.findall(r"=\s*(\d+)(?:%N)?\s*:\s*N\b", out)]
        if got != want:
            labels = ["str(int) / f-string int field", "str.encode('latin-1')", "sum"]
            diff = [l for l, g, w in zip(labels, got + [None] * 3, want) if g != w]
            return [(name, False, "PyLib differs from the interpreter on: %s (coqc gave %s, the interpreter %s)" % (", ".join(diff), got, want))]
        return [(name, True, "str_int on %d ints (negative, powers of 10 and 2 and their neighbours), encode_latin1 on %d words over %d "
                             "code points, sum on %d lists: all evaluated inside coqc, equal to the interpreter, %.1f s" % (
                                 len(INTS), len(words), len(CODEPOINTS), len(SUMS), time.time() - t0))]
    finally:
        if not keep:
            shutil.rmtree(d, ignore_errors=True)


def obligations(repo=None, verif=None, timeout=120):
    """what harness/c02.py's extra_obligations(tier) returns"""
    from concurrent.futures import ThreadPoolExecutor
    with ThreadPoolExecutor(3) as ex:
        a = ex.submit(check_functions, repo, verif, timeout)
        b = ex.submit(pylib_check, verif, timeout)
        c = ex.submit(py2coq.pystr_check, verif, timeout)
        return list(a.result()) + list(b.result()) + list(c.result())


def main():
    ap = argparse.ArgumentParser()
    ap.add_argument("--repo", default=os.environ.get("BAIZE_REPO", "/repo"))
    ap.add_argument("--check", action="store_true")
    ap.add_argument("--pylib-check", action="store_true")
    ap.add_argument("--keep", action="store_true")
    ap.add_argument("-o", "--output")
    a = ap.parse_args()
    if a.pylib_check:
        res = pylib_check(keep=a.keep)
    elif a.check:
        res = check_functions(a.repo, keep=a.keep)
    else:
        res = translate_all(a.repo)
        bad = [(sp, m) for sp, m in res if isinstance(m, Unsupported)]
        for sp, m in bad:
            print("py2coq_c02: %s: %s" % (sp["func"], m), file=sys.stderr)
        text = HEADER + "\n".join(m[0] + m[1] for sp, m in res if not isinstance(m, Unsupported))
        if a.output:
            with open(a.output, "w") as f:
                f.write(text)
        else:
            sys.stdout.write(text)
        return 2 if bad else 0
    status = 0
    for name, ok, detail in res:
        print("%s: %s: %s" % ("ok" if ok else ("n/a" if ok is None else "BROKEN"), name, detail))
        if ok is False:
            status = 1
    return status


if __name__ == "__main__":
    sys.exit(main())
