#!/usr/bin/env python3
"""Source-level tie for C05: the code that builds and sends the ASGI response messages of the plain response classes.

Six functions, each re-read with `ast` from the source as it is NOW and emitted as a Gallina definition:
  send_http_start, send_http_body      baize/asgi/helper.py       (class Fn, described below)
  BaseResponse.list_headers            baize/responses.py         (class ListHeadersFn: a pure function, see its docstring)
  Response.__call__                    baize/asgi/responses.py    (class CallFn, see its docstring: it applies the three above)
  SmallResponse.__call__               baize/asgi/responses.py    (class CallFn with the larger subset: conditions on the truth
                                       value of a str / bytes, "k" in self.headers, s.startswith("lit"), str(len(b)), +, +=,
                                       the result of the abstract coroutine render as an argument)
  Response.__call__ (WSGI)             baize/wsgi/responses.py    (class WsgiCallFn: a pure function that gives the calls of
                                       start_response and the items of the iterable returned; StatusStringMapping: an argument)
What the translated code uses of other classes is an argument of the generated function (MutableHeaders.__setitem__ /
__contains__, str of an int, the Latin-1 codec, bytes(cookie) / str(cookie), the result of render); the theorems of
C05/Translated.v quantify over it or instantiate it with the model's own function (hset', hmem, decn of Resp/Model.v and
Lib/Wire.v; identity for the codec and the cookie renderings: the model represents a Latin-1 text and its encoding by the
same list of numbers, a cookie by its rendered line).  s.startswith / the truth value of a str are Lib/PyStr.v's
starts_with / is_empty (compared with the interpreter by pystr_check, harness/c17.py).

The two helpers:

send_http_start and send_http_body ("the single place that builds the start message") are re-read with `ast` from the
source as it is NOW and emitted as Gallina terms of type  PyLib.M unit  (C05/PyLib.v: budget of successful sends ->
(result or SendFailed) * messages delivered * budget left), statement by statement and in statement order:

    await send(e)                                srv_send e        (`send` is the parameter annotated Send; nothing else may
                                                                   be done with it)
    a + b  on ints, [] / () as a header list     (a + b), @nil header
    {"k": v, ...}                                dict_lit [(lit "k", V v); ...]   in the order written; keys: distinct str
                                                 literals; V by the type of v: VStr / VInt / VBytes / VBool / VHeaders
    d["k"] = e                                   let v_d := dict_set (lit "k") (V e) v_d in ...   (d: a local variable that holds
                                                 a dict display, not yet handed to send)
    x = e                                        let v_x := e in ...
    if h is not None: A else: B                  match v_h with Some v_h => A | None => B end      (h: an Optional parameter;
    if h is None: A else: B                      the branches swapped                               inside A it is the value)
    if <bool>: A else: B                         if .. then A else B
    an `if` that other statements follow         let '(the variables it assigns) := (if/match .. ) in ...; its branches may only
                                                 assign (no await, no return)
    return / return None / falling off the end   ret tt

Types come from the annotations: int -> nat (the status code of the model), bytes, bool, str,
Iterable/List/Sequence[Tuple[bytes, bytes]] -> list header, Optional[..] of it -> option (list header).
Everything else is refused (Unsupported): the translator never guesses.  It also refuses when the module rebinds one of
the function names, or defines one twice, or decorates it.

coqc then re-checks, per function, the part of coq/theories/C05/Translated.v about it against the fresh definitions.
C05/PyLib.v's dict_lit / dict_set / dict_get are compared with this interpreter's dict by evaluation inside coqc on
every run (pylib_check).

    python3 tools/py2coq_c05.py --emit      print the generated file (what C05/Generated_ref.v is a copy of)
    python3 tools/py2coq_c05.py --check     run the obligations
"""
import ast
import importlib.util
import os
import re
import sys

VERIF = os.path.dirname(os.path.dirname(os.path.abspath(__file__)))


def _base():
    spec = importlib.util.spec_from_file_location("py2coq", os.path.join(VERIF, "tools", "py2coq.py"))
    m = importlib.util.module_from_spec(spec)
    spec.loader.exec_module(m)
    return m


P = _base()
Unsupported = P.Unsupported

PID = "C05"
FILE = "baize/asgi/helper.py"

# python name -> name of the generated definition
FUNCS = [
    ("send_http_start", "py_send_http_start"),
    ("send_http_body", "py_send_http_body"),
    ("BaseResponse.list_headers", "py_list_headers"),
    ("Response.__call__", "py_Response_call"),
    ("SmallResponse.__call__", "py_SmallResponse_call"),
    ("wsgi.Response.__call__", "py_wsgi_Response_call"),
]
FILE_WSGI = "baize/wsgi/responses.py"
FILE_BASE = "baize/responses.py"
BASE_CLS = "BaseResponse"
HELPERS = ("send_http_start", "send_http_body")
FILE_RESP = "baize/asgi/responses.py"
RESP_CLS = "Response"
COQ_NAME = dict(FUNCS)

HEADER = """(* GENERATED by tools/py2coq_c05.py from the Python source — do not edit.
   Structurally the Python: same statements, same order of effects, same branch order, in the monad of C05/PyLib.v. *)
From Coq Require Import List NArith Bool Arith.
From Baize Require Import Lib.Wire C02.Model C05.PyLib.
From Baize Require Lib.PyStr.
Import ListNotations.

"""

TY_COQ = {"hstore": "list header", "unit": "unit", "int": "nat", "bytes": "bytes", "bool": "bool", "str": "list N", "headers": "list header",
          "opt_headers": "option (list header)", "dict": "pydict"}
VCON = {"str": "VStr", "int": "VInt", "bytes": "VBytes", "bool": "VBool", "headers": "VHeaders"}
_PAIR = r"(typing\.)?Tuple\[bytes, bytes\]"
_HDRS = r"(typing\.)?(Iterable|List|Sequence)\[%s\]" % _PAIR
RESERVED = ("send", "None", "True", "False")


def ann_type(node, what):
    if node is None:
        raise Unsupported(what, "no annotation")
    s = ast.unparse(node)
    if s == "None":
        return "unit"
    if s == "Send":
        return "send"
    if s in ("int", "bytes", "bool", "str"):
        return s
    if re.fullmatch(_HDRS, s):
        return "headers"
    if re.fullmatch(r"(typing\.)?Optional\[%s\]" % _HDRS, s):
        return "opt_headers"
    raise Unsupported(node, "annotation not understood")


def lit(s, node):
    if not isinstance(s, str) or any(not (32 <= ord(c) < 127) or c in '"\\' for c in s):
        raise Unsupported(node, "only printable ASCII literals without quote or backslash")
    return '(lit "%s")' % s


def is_doc(s):
    return isinstance(s, ast.Expr) and isinstance(s.value, ast.Constant) and isinstance(s.value.value, str)


class Ctx:
    def __init__(self, repo):
        self.repo = repo
        self.path = os.path.join(repo, FILE)
        self.src = open(self.path, encoding="utf-8").read()
        self.tree = ast.parse(self.src)
        self.check_module()
        self.cache = {}

    def check_module(self):
        names = set(COQ_NAME)
        for st in self.tree.body:
            # module level: imports, the functions, docstrings; anything else could rebind what the functions use
            if isinstance(st, (ast.FunctionDef, ast.AsyncFunctionDef)) or is_doc(st):
                continue
            if isinstance(st, (ast.Import, ast.ImportFrom)):
                for a in st.names:
                    if (a.asname or a.name).split(".")[0] in names or a.name == "*":
                        raise Unsupported(st, "an import rebinds a translated function / star import")
                continue
            raise Unsupported(st, "a module-level statement that is not an import or a function")
        for n in ast.walk(self.tree):
            if isinstance(n, (ast.Global, ast.Nonlocal)):
                raise Unsupported(n, "global / nonlocal")
            if isinstance(n, ast.Call) and isinstance(n.func, ast.Name) and n.func.id in ("setattr", "delattr", "exec", "eval", "globals", "vars"):
                raise Unsupported(n, "%s(...) in the module" % n.func.id)

    def fdef(self, pyname):
        found = [n for n in ast.walk(self.tree) if isinstance(n, (ast.FunctionDef, ast.AsyncFunctionDef, ast.ClassDef)) and n.name == pyname]
        top = [n for n in self.tree.body if isinstance(n, ast.AsyncFunctionDef) and n.name == pyname]
        if len(found) != 1 or len(top) != 1:
            raise Unsupported(self.tree, "%s is not defined exactly once, as a module-level coroutine function" % pyname)
        return top[0]

    def func(self, pyname):
        if pyname not in COQ_NAME:
            raise Unsupported(pyname, "not a function this translator knows")
        if pyname not in self.cache:
            self.cache[pyname] = "in progress"
            try:
                f = (CallFn(self, pyname) if pyname in ("Response.__call__", "SmallResponse.__call__") else
                     ListHeadersFn(self, pyname) if pyname == "BaseResponse.list_headers" else
                     WsgiCallFn(self, pyname) if pyname == "wsgi.Response.__call__" else Fn(self, pyname, self.fdef(pyname)))
                f.translate()
                self.cache[pyname] = f
            except Unsupported as e:
                self.cache[pyname] = e
        r = self.cache[pyname]
        if r == "in progress":
            raise Unsupported(pyname, "recursive function")
        if isinstance(r, Unsupported):
            raise r
        return r


class Fn:
    def __init__(self, ctx, pyname, fdef):
        self.ctx, self.pyname, self.fdef = ctx, pyname, fdef
        self.coq = COQ_NAME[pyname]
        self.calls = []
        self.signature()

    def signature(self):
        f = self.fdef
        if f.decorator_list:
            raise Unsupported(f, "decorated function")
        a = f.args
        if a.vararg or a.kwarg or a.posonlyargs:
            raise Unsupported(f, "parameter list")
        allp = list(a.args) + list(a.kwonlyargs)
        ps = [(p.arg, ann_type(p.annotation, p)) for p in allp]
        if not ps or ps[0][1] != "send" or any(ty in ("send", "unit") for _, ty in ps[1:]):
            raise Unsupported(f, "the first parameter, and only it, must be the send channel (annotated Send)")
        self.send = ps[0][0]
        self.params = ps[1:]
        self.pos = [p.arg for p in a.args[1:]]
        self.defaults = dict([(p.arg, d) for p, d in zip(a.args[len(a.args) - len(a.defaults):], a.defaults)]
                             + [(p.arg, d) for p, d in zip(a.kwonlyargs, a.kw_defaults) if d is not None])
        names = [p for p, _ in ps]
        if len(set(names)) != len(names) or any(p in ("None", "True", "False") for p in names):
            raise Unsupported(f, "parameter names")
        # defaults: evaluated once, at definition time; only constants of the parameter's type (they are arguments of the
        # generated function, so they matter at call sites only)
        for p, d in list(zip(a.args[len(a.args) - len(a.defaults):], a.defaults)) + [(p, d) for p, d in zip(a.kwonlyargs, a.kw_defaults) if d is not None]:
            if not isinstance(d, ast.Constant):
                raise Unsupported(d, "a default that is not a constant")
        if ann_type(f.returns, f) != "unit":
            raise Unsupported(f, "a coroutine that is not declared -> None")
        for n in ast.walk(f):
            if isinstance(n, (ast.Yield, ast.YieldFrom, ast.Global, ast.Nonlocal, ast.Lambda, ast.FunctionDef, ast.AsyncFunctionDef,
                              ast.ClassDef, ast.NamedExpr, ast.Try, ast.With, ast.AsyncWith, ast.For, ast.AsyncFor, ast.While,
                              ast.Delete, ast.ListComp, ast.SetComp, ast.DictComp, ast.GeneratorExp)) and n is not f:
                raise Unsupported(n, "not in the subset")
            if isinstance(n, ast.Name) and n.id == self.send and not isinstance(n.ctx, ast.Load):
                raise Unsupported(n, "the send channel is rebound")

    # ---- pure expressions: -> (term, type)
    def expr(self, e, env):
        if isinstance(e, ast.Constant):
            v = e.value
            if isinstance(v, bool):
                return ("true" if v else "false"), "bool"
            if isinstance(v, str):
                return lit(v, e), "str"
            if isinstance(v, bytes):
                return lit(v.decode("latin-1"), e), "bytes"
            if isinstance(v, int) and v >= 0:
                return "%d" % v, "int"
            raise Unsupported(e, "constant")
        if isinstance(e, ast.Name):
            if e.id not in env or e.id == self.send:
                raise Unsupported(e, "a name that is not a parameter or a local variable assigned before")
            return "v_" + e.id, env[e.id]
        if isinstance(e, ast.UnaryOp) and isinstance(e.op, ast.Not):
            t, ty = self.expr(e.operand, env)
            if ty != "bool":
                raise Unsupported(e, "`not` of something that is not a bool")
            return "(negb %s)" % t, "bool"
        if isinstance(e, ast.BinOp) and isinstance(e.op, ast.Add):
            (t1, ty1), (t2, ty2) = self.expr(e.left, env), self.expr(e.right, env)
            if ty1 != "int" or ty2 != "int":
                raise Unsupported(e, "+ on something that is not an int")
            return "(%s + %s)" % (t1, t2), "int"
        if isinstance(e, (ast.List, ast.Tuple)) and not e.elts:
            return "(@nil header)", "headers"
        if isinstance(e, ast.Dict):
            seen, fields = set(), []
            for k, v in zip(e.keys, e.values):
                if not (isinstance(k, ast.Constant) and isinstance(k.value, str)) or k.value in seen:
                    raise Unsupported(e, "dict key that is not a distinct str literal")
                seen.add(k.value)
                fields.append("(%s, %s)" % (lit(k.value, k), self.as_value(v, env)))
            return "(dict_lit [%s])" % "; ".join(fields), "dict"
        raise Unsupported(e, "expression")

    def as_value(self, e, env):
        t, ty = self.expr(e, env)
        if ty not in VCON:
            raise Unsupported(e, "a %s as an entry of a message" % ty)
        return "(%s %s)" % (VCON[ty], t)

    def none_test(self, e, env):
        """`x is None` / `x is not None` on an Optional variable -> (x, True when the test holds for a value)"""
        if (isinstance(e, ast.Compare) and len(e.ops) == 1 and isinstance(e.ops[0], (ast.Is, ast.IsNot))
                and isinstance(e.left, ast.Name) and isinstance(e.comparators[0], ast.Constant) and e.comparators[0].value is None
                and env.get(e.left.id) == "opt_headers"):
            return e.left.id, isinstance(e.ops[0], ast.IsNot)
        return None

    def send_call(self, e, env):
        """await send(<dict>) -> the message term, or None when e is something else"""
        if not (isinstance(e, ast.Await) and isinstance(e.value, ast.Call) and isinstance(e.value.func, ast.Name)
                and e.value.func.id == self.send):
            return None
        c = e.value
        if len(c.args) != 1 or c.keywords or isinstance(c.args[0], ast.Starred):
            raise Unsupported(c, "send is awaited with one positional argument")
        t, ty = self.expr(c.args[0], env)
        if ty != "dict":
            raise Unsupported(c, "send of something that is not a message")
        return t

    # ---- statements
    def assigned(self, stmts):
        out = set()
        for s in stmts:
            if isinstance(s, (ast.Assign, ast.AugAssign)):
                for tg in (s.targets if isinstance(s, ast.Assign) else [s.target]):
                    if isinstance(tg, ast.Name):
                        out.add(tg.id)
                    elif isinstance(tg, ast.Subscript) and isinstance(tg.value, ast.Name):
                        out.add(tg.value.id)
                    elif isinstance(tg, ast.Subscript) and ast.unparse(tg.value) == "self.headers":
                        out.add("self_headers")
                    else:
                        raise Unsupported(s, "assignment target")
            elif isinstance(s, ast.If):
                out |= self.assigned(s.body) | self.assigned(s.orelse)
        return out

    def assign(self, s, env, sent):
        """x = e / x["k"] = e -> (name, term, type)"""
        if isinstance(s, ast.AugAssign):
            raise Unsupported(s, "augmented assignment")
        if len(s.targets) != 1:
            raise Unsupported(s, "multiple assignment")
        tg = s.targets[0]
        if isinstance(tg, ast.Name):
            t, ty = self.expr(s.value, env)
            if tg.id in RESERVED or tg.id == self.send or ty not in TY_COQ or tg.id.startswith("self_"):
                raise Unsupported(s, "assignment")
            if ty == "dict" and not isinstance(s.value, ast.Dict):
                raise Unsupported(s, "a second name for a dict (it is mutable)")
            if tg.id in env and env[tg.id] != ty:
                raise Unsupported(s, "a variable changes its type")
            return tg.id, t, ty
        if isinstance(tg, ast.Subscript) and isinstance(tg.value, ast.Name) and env.get(tg.value.id) == "dict":
            k = tg.slice
            if not (isinstance(k, ast.Constant) and isinstance(k.value, str)):
                raise Unsupported(s, "a key that is not a str literal")
            if tg.value.id in sent:
                raise Unsupported(s, "a message is changed after it was handed to send")
            return tg.value.id, "dict_set %s %s v_%s" % (lit(k.value, k), self.as_value(s.value, env), tg.value.id), "dict"
        raise Unsupported(s, "assignment target")

    def cond(self, s, env, A, B, ind):
        """the if / match around the two translated branches (each a function of the environment of its branch)"""
        nt = self.none_test(s.test, env)
        if nt:
            x, some_first = nt
            envv = dict(env)
            envv[x] = "headers"
            some, none = (s.body, s.orelse) if some_first else (s.orelse, s.body)
            bs = "%s| Some v_%s =>\n%s\n" % (ind, x, A(some, envv))
            bn = "%s| None =>\n%s\n" % (ind, B(none, env))
            return "%smatch v_%s with\n%s%send" % (ind, x, (bs + bn) if some_first else (bn + bs), ind)
        t = self.test(s.test, env)
        return "%sif %s then (\n%s\n%s) else (\n%s\n%s)" % (ind, t, A(s.body, env), ind, B(s.orelse, env), ind)

    def test(self, e, env):
        t, ty = self.expr(e, env)
        if ty != "bool":
            raise Unsupported(e, "a condition that is not a bool or a None test (truthiness is not translated)")
        return t

    def update(self, stmts, env, sent, W, ind):
        """a branch of an `if` that other statements follow: assignments only; the term is the tuple of the variables W"""
        if not stmts:
            return ind + self.tuple(W)
        s, rest = stmts[0], stmts[1:]
        if isinstance(s, ast.Pass) or is_doc(s):
            return self.update(rest, env, sent, W, ind)
        if isinstance(s, (ast.Assign, ast.AugAssign)):
            x, t, ty = self.assign(s, env, sent)
            env2 = dict(env)
            env2[x] = ty
            return "%slet v_%s := %s in\n" % (ind, x, t) + self.update(rest, env2, sent, W, ind)
        if isinstance(s, ast.If):
            return self.nontail_if(s, rest, env, sent, ind, lambda env2: self.update(rest, env2, sent, W, ind))
        raise Unsupported(s, "a statement other than an assignment in an `if` that other statements follow")

    @staticmethod
    def tuple(W):
        return "v_" + W[0] if len(W) == 1 else "(%s)" % ", ".join("v_" + w for w in W)

    def nontail_if(self, s, rest, env, sent, ind, k):
        # a variable first assigned inside a branch stays local to it (using it afterwards is refused: not in env)
        W = sorted(w for w in self.assigned(s.body) | self.assigned(s.orelse) if w in env)
        if not W:
            raise Unsupported(s, "an `if` without effect that other statements follow")
        i2 = ind + "    "
        body = self.cond(s, env, lambda b, e: self.update(b, e, sent, W, i2 + "    "),
                         lambda b, e: self.update(b, e, sent, W, i2 + "    "), i2)
        pat = "v_" + W[0] if len(W) == 1 else "'(%s)" % ", ".join("v_" + w for w in W)
        return "%slet %s :=\n%s in\n" % (ind, pat, body) + k(env)

    def block(self, stmts, env, sent, ind):
        """a term of type M unit: what is left of the function body"""
        if not stmts:
            return ind + "ret tt"
        s, rest = stmts[0], stmts[1:]
        if isinstance(s, ast.Pass) or is_doc(s):
            return self.block(rest, env, sent, ind)
        if isinstance(s, ast.Return):
            if rest:
                raise Unsupported(s, "dead code after return")
            if s.value is None or (isinstance(s.value, ast.Constant) and s.value.value is None):
                return ind + "ret tt"
            m = self.send_call(s.value, env)        # return await send(m): the channel's result is None (Send = ... -> Awaitable[None])
            if m is None:
                raise Unsupported(s, "return of a value")
            return "%ssrv_send %s ;;;\n%sret tt" % (ind, m, ind)
        if isinstance(s, ast.Expr):
            m = self.send_call(s.value, env)
            if m is None:
                raise Unsupported(s, "expression statement")
            sent2 = set(sent)
            if isinstance(s.value.value.args[0], ast.Name):
                sent2.add(s.value.value.args[0].id)
            return "%ssrv_send %s ;;;\n" % (ind, m) + self.block(rest, env, sent2, ind)
        if isinstance(s, (ast.Assign, ast.AugAssign)):
            x, t, ty = self.assign(s, env, sent)
            env2 = dict(env)
            env2[x] = ty
            sent2 = set(sent)
            if isinstance(s, ast.Assign) and isinstance(s.targets[0], ast.Name):
                sent2.discard(x)        # a fresh display
            return "%slet v_%s := %s in\n" % (ind, x, t) + self.block(rest, env2, sent2, ind)
        if isinstance(s, ast.If):
            if not rest:
                i2 = ind + "    "
                return self.cond(s, env, lambda b, e: self.block(b, e, sent, i2), lambda b, e: self.block(b, e, sent, i2), ind)
            return self.nontail_if(s, rest, env, sent, ind, lambda env2: self.block(rest, env2, sent, ind))
        raise Unsupported(s, "statement")

    def translate(self):
        env = {p: ty for p, ty in self.params}
        body = self.block(self.fdef.body, env, set(), "    ")
        ps = "".join(" (v_%s : %s)" % (p, TY_COQ[ty]) for p, ty in self.params)
        self.text = "Definition %s%s : M unit :=\n%s.\n" % (self.coq, ps, body)
        seg = ast.get_source_segment(self.SRC(), self.fdef) or ""
        self.head = "(* %s :: %s, lines %d-%d\n%s\n*)\n" % (
            self.FILE, self.pyname, self.fdef.lineno, self.fdef.end_lineno,
            "\n".join("   | " + l for l in P.comment_safe(seg).splitlines()))

    FILE = FILE

    def SRC(self):
        return self.ctx.src

    def closure(self):
        return [self.pyname]


class CallFn(Fn):
    """Response.__call__(self, scope, receive, send) of baize/asgi/responses.py.  What it uses of the object:
        self.status_code                      v_self_status_code : nat
        self.headers["k"] = "v"               let v_self_headers := headers_setitem (lit "k") (lit "v") v_self_headers in ...
                                              (MutableHeaders.__setitem__: an argument of the generated function)
        self.list_headers(as_bytes=True)      py_list_headers encode_latin1 cookie_bytes cookie_str true v_self_headers v_self_cookies
                                              (the translation of BaseResponse.list_headers: Response adds only __call__)
        await send_http_start(send, a, b) / await send_http_body(send, ...)     the translations of the two helpers, applied
                                              (arguments bound as Python binds them, omitted ones from the constant defaults)"""
    FILE = FILE_RESP

    def __init__(self, ctx, pyname):
        self.ctx, self.pyname = ctx, pyname
        self.coq = COQ_NAME[pyname]
        self.small = pyname.startswith("Small")
        self.renders = 0
        self.calls = []
        self.src = open(os.path.join(ctx.repo, FILE_RESP), encoding="utf-8").read()
        self.tree = ast.parse(self.src)
        self.fdef = self.find()
        self.signature()

    def SRC(self):
        return self.src

    def find(self):
        t = self.tree
        bound = {}
        for n in ast.walk(t):
            names = []
            if isinstance(n, (ast.FunctionDef, ast.AsyncFunctionDef, ast.ClassDef)):
                names = [n.name]
            elif isinstance(n, ast.Name) and not isinstance(n.ctx, ast.Load):
                names = [n.id]
            elif isinstance(n, ast.arg):
                names = [n.arg]
            elif isinstance(n, (ast.Import, ast.ImportFrom)):
                names = [(a.asname or a.name).split(".")[0] for a in n.names]
                if any(a.name == "*" for a in n.names):
                    raise Unsupported(n, "star import")
            elif isinstance(n, (ast.Global, ast.Nonlocal)):
                names = list(n.names)
            for x in names:
                bound[x] = bound.get(x, 0) + 1
            if isinstance(n, ast.Call) and isinstance(n.func, ast.Name) and n.func.id in ("setattr", "delattr", "exec", "eval", "globals", "vars"):
                raise Unsupported(n, "%s(...) in the module" % n.func.id)
            if isinstance(n, ast.Attribute) and not isinstance(n.ctx, ast.Load) and isinstance(n.value, ast.Name) and n.value.id == RESP_CLS:
                raise Unsupported(n, "an attribute of %s is assigned outside its class body" % RESP_CLS)
        # the two helpers: imported once from .helper, at module level, under their own names, and bound nowhere else
        imp = [st for st in t.body if isinstance(st, ast.ImportFrom) and st.module == "helper" and st.level == 1]
        got = [a.name for st in imp for a in st.names if a.asname is None]
        for h in HELPERS:
            if got.count(h) != 1 or bound.get(h) != 1:
                raise Unsupported(t, "%s is not imported exactly once from .helper, or is rebound" % h)
        # BaseResponse: the class of baize/responses.py, imported once, bound nowhere else; Response adds only __call__, so
        # self.list_headers is BaseResponse.list_headers
        imp = [a for st in t.body if isinstance(st, ast.ImportFrom) and st.level == 0 and st.module == "baize.responses"
               for a in st.names if a.name == BASE_CLS and a.asname is None]
        if len(imp) != 1 or bound.get(BASE_CLS) != 1:
            raise Unsupported(t, "%s is not imported exactly once from baize.responses, or is rebound" % BASE_CLS)
        cls = [n for n in t.body if isinstance(n, ast.ClassDef) and n.name == RESP_CLS]
        if len(cls) != 1 or bound.get(RESP_CLS) != 1 or cls[0].decorator_list or cls[0].keywords or [ast.unparse(b) for b in cls[0].bases] != ["BaseResponse"]:
            raise Unsupported(t, "class %s(BaseResponse) is not defined exactly once, plainly" % RESP_CLS)
        body = [st for st in cls[0].body if not is_doc(st)]
        if len(body) != 1 or not isinstance(body[0], ast.AsyncFunctionDef) or body[0].name != "__call__":
            raise Unsupported(cls[0], "the body of %s is not just the coroutine __call__" % RESP_CLS)
        if not self.small:
            return body[0]
        # SmallResponse(Response, abc.ABC, Generic[..]): class attributes media_type / charset (defaults of the instance
        # attributes that __init__ sets), __init__, the abstract coroutine render, __call__; nothing that would change what
        # self.headers / self.status_code / self.cookies / self.list_headers are
        for b in ("str", "len"):
            if b in bound:
                raise Unsupported(t, "the builtin %s is rebound in the module" % b)
        cls = [n for n in t.body if isinstance(n, ast.ClassDef) and n.name == "SmallResponse"]
        if len(cls) != 1 or bound.get("SmallResponse") != 1 or cls[0].decorator_list or cls[0].keywords or \
                [ast.unparse(b) for b in cls[0].bases] != ["Response", "abc.ABC", "Generic[_ContentType]"]:
            raise Unsupported(t, "class SmallResponse(Response, abc.ABC, Generic[_ContentType]) is not defined exactly once, plainly")
        calls = []
        for st in cls[0].body:
            if is_doc(st):
                continue
            if isinstance(st, (ast.Assign, ast.AnnAssign)):
                tgs = st.targets if isinstance(st, ast.Assign) else [st.target]
                if all(isinstance(x, ast.Name) and x.id in ("media_type", "charset") for x in tgs):
                    continue
                raise Unsupported(st, "a class attribute other than media_type / charset")
            if isinstance(st, (ast.FunctionDef, ast.AsyncFunctionDef)) and st.name in ("__init__", "render", "__call__"):
                if st.name == "__call__":
                    calls.append(st)
                continue
            raise Unsupported(st, "a statement in the body of SmallResponse that is not media_type / charset / __init__ / render / __call__")
        if len(calls) != 1 or not isinstance(calls[0], ast.AsyncFunctionDef):
            raise Unsupported(cls[0], "SmallResponse.__call__ is not defined exactly once, as a coroutine")
        return calls[0]

    def signature(self):
        f = self.fdef
        a = f.args
        if f.decorator_list or a.vararg or a.kwarg or a.posonlyargs or a.kwonlyargs or a.defaults:
            raise Unsupported(f, "parameter list")
        if [p.arg for p in a.args] != ["self", "scope", "receive", "send"] or \
                [ast.unparse(p.annotation) if p.annotation else None for p in a.args] != [None, "Scope", "Receive", "Send"]:
            raise Unsupported(f, "__call__ is not (self, scope: Scope, receive: Receive, send: Send)")
        if ann_type(f.returns, f) != "unit":
            raise Unsupported(f, "a coroutine that is not declared -> None")
        self.send = "send"
        self.params = []
        for n in ast.walk(f):
            if isinstance(n, (ast.Yield, ast.YieldFrom, ast.Global, ast.Nonlocal, ast.Lambda, ast.FunctionDef, ast.AsyncFunctionDef,
                              ast.ClassDef, ast.NamedExpr, ast.Try, ast.With, ast.AsyncWith, ast.For, ast.AsyncFor, ast.While,
                              ast.Delete, ast.ListComp, ast.SetComp, ast.DictComp, ast.GeneratorExp)) and n is not f:
                raise Unsupported(n, "not in the subset")
            if isinstance(n, ast.Name) and n.id in ("self", "scope", "receive", "send") and not isinstance(n.ctx, ast.Load):
                raise Unsupported(n, "a parameter is rebound")

    def expr(self, e, env):
        if isinstance(e, ast.Attribute) and isinstance(e.value, ast.Name) and e.value.id == "self" and e.attr == "status_code" \
                and isinstance(e.ctx, ast.Load):
            return "v_self_status_code", "int"
        if isinstance(e, ast.Call) and isinstance(e.func, ast.Attribute) and isinstance(e.func.value, ast.Name) \
                and e.func.value.id == "self" and e.func.attr == "list_headers":
            if e.args or len(e.keywords) != 1 or e.keywords[0].arg != "as_bytes" or not (
                    isinstance(e.keywords[0].value, ast.Constant) and e.keywords[0].value.value is True):
                raise Unsupported(e, "list_headers is called other than with as_bytes=True")
            callee = self.ctx.func("BaseResponse.list_headers")     # refused there -> refused here
            if "BaseResponse.list_headers" not in self.calls:
                self.calls.append("BaseResponse.list_headers")
            return "(%s encode_latin1 cookie_bytes cookie_str true v_self_headers v_self_cookies)" % callee.coq, "headers"
        if isinstance(e, ast.Name) and e.id in ("self", "scope", "receive"):
            raise Unsupported(e, "the object / scope / receive used as a value")
        if self.small:
            if isinstance(e, ast.Attribute) and isinstance(e.ctx, ast.Load) and ast.unparse(e) in ("self.media_type", "self.charset"):
                return "v_self_" + e.attr, "str"
            if isinstance(e, ast.BinOp) and isinstance(e.op, ast.Add):
                (t1, ty1), (t2, ty2) = self.expr(e.left, env), self.expr(e.right, env)
                if ty1 == ty2 and ty1 in ("str", "bytes"):
                    return "(%s ++ %s)" % (t1, t2), ty1
                if ty1 != "int" or ty2 != "int":
                    raise Unsupported(e, "+ on a %s and a %s" % (ty1, ty2))
            if isinstance(e, ast.Call) and not e.keywords and len(e.args) == 1 and not isinstance(e.args[0], ast.Starred):
                a = e.args[0]
                if isinstance(e.func, ast.Attribute) and e.func.attr == "startswith" and isinstance(a, ast.Constant) and isinstance(a.value, str):
                    t, ty = self.expr(e.func.value, env)
                    if ty == "str":
                        return "(Lib.PyStr.starts_with %s %s)" % (lit(a.value, a), t), "bool"
                # str(len(x)): the decimal numeral of a length (str of an int: an argument of the generated function)
                if (isinstance(e.func, ast.Name) and e.func.id == "str" and "str" not in env and isinstance(a, ast.Call)
                        and isinstance(a.func, ast.Name) and a.func.id == "len" and "len" not in env and not a.keywords
                        and len(a.args) == 1 and not isinstance(a.args[0], ast.Starred)):
                    t, ty = self.expr(a.args[0], env)
                    if ty in ("bytes", "str"):
                        return "(str_of_int (length %s))" % t, "str"
            if isinstance(e, ast.Compare) and len(e.ops) == 1 and isinstance(e.ops[0], (ast.In, ast.NotIn)) \
                    and isinstance(e.left, ast.Constant) and isinstance(e.left.value, str) \
                    and ast.unparse(e.comparators[0]) == "self.headers":
                t = "(headers_contains %s v_self_headers)" % lit(e.left.value, e.left)
                return (t if isinstance(e.ops[0], ast.In) else "(negb %s)" % t), "bool"
        return Fn.expr(self, e, env)

    def test(self, e, env):
        """a condition: bools, the truth value of a str / bytes (non-empty), and / or / not of conditions"""
        if not self.small:
            return Fn.test(self, e, env)
        if isinstance(e, ast.BoolOp):
            return "(%s)" % (" && " if isinstance(e.op, ast.And) else " || ").join(self.test(v, env) for v in e.values)
        if isinstance(e, ast.UnaryOp) and isinstance(e.op, ast.Not):
            return "(negb %s)" % self.test(e.operand, env)
        t, ty = self.expr(e, env)
        if ty == "bool":
            return t
        if ty in ("str", "bytes"):
            return "(negb (Lib.PyStr.is_empty %s))" % t
        raise Unsupported(e, "the truth value of a %s" % ty)

    def assign(self, s, env, sent):
        if isinstance(s, ast.AugAssign):
            if not (self.small and isinstance(s.op, ast.Add) and isinstance(s.target, ast.Name) and env.get(s.target.id) in ("str", "bytes")):
                raise Unsupported(s, "augmented assignment")
            t, ty = self.expr(s.value, env)
            if ty != env[s.target.id]:
                raise Unsupported(s, "+= of a %s to a %s" % (ty, env[s.target.id]))
            return s.target.id, "v_%s ++ %s" % (s.target.id, t), ty
        if len(s.targets) == 1 and isinstance(s.targets[0], ast.Subscript) and ast.unparse(s.targets[0].value) == "self.headers":
            k = s.targets[0].slice
            t, ty = self.expr(s.value, env)
            if not (isinstance(k, ast.Constant) and isinstance(k.value, str)) or ty != "str":
                raise Unsupported(s, "self.headers[..] = .. other than <str literal> and a str")
            return "self_headers", "headers_setitem %s %s v_self_headers" % (lit(k.value, k), t), "hstore"
        if (self.small and len(s.targets) == 1 and isinstance(s.targets[0], ast.Name) and isinstance(s.value, ast.Await)
                and ast.unparse(s.value.value) == "self.render(self.content)"):
            # the abstract coroutine render gets neither send nor receive: its result is an argument of the generated function
            self.renders += 1
            if self.renders > 1 or s.targets[0].id in RESERVED or s.targets[0].id.startswith("self_") or \
                    env.get(s.targets[0].id, "bytes") != "bytes":
                raise Unsupported(s, "render is awaited more than once / assignment")
            return s.targets[0].id, "r_rendered", "bytes"
        return Fn.assign(self, s, env, sent)

    def helper_call(self, e, env):
        """await send_http_xxx(send, ...) -> the term, or None when e is something else"""
        if not (isinstance(e, ast.Await) and isinstance(e.value, ast.Call) and isinstance(e.value.func, ast.Name)
                and e.value.func.id in HELPERS and e.value.func.id not in env):
            return None
        c = e.value
        callee = self.ctx.func(c.func.id)
        if any(isinstance(x, ast.Starred) for x in c.args) or any(k.arg is None for k in c.keywords):
            raise Unsupported(c, "* / ** arguments")
        if not c.args or not (isinstance(c.args[0], ast.Name) and c.args[0].id == "send"):
            raise Unsupported(c, "the first argument is not the send channel")
        if len(c.args) - 1 > len(callee.pos):
            raise Unsupported(c, "too many positional arguments")
        ptypes = dict(callee.params)
        given = {}
        for pname, a in list(zip(callee.pos, c.args[1:])) + [(k.arg, k.value) for k in c.keywords]:
            if pname not in ptypes or pname in given:
                raise Unsupported(c, "argument %s" % pname)
            given[pname] = self.coerce(a, ptypes[pname], env)
        out = []
        for pname, ty in callee.params:
            if pname in given:
                out.append(given[pname])
            elif pname in callee.defaults:
                out.append(self.coerce(callee.defaults[pname], ty, {}))
            else:
                raise Unsupported(c, "missing argument %s" % pname)
        if c.func.id not in self.calls:
            self.calls.append(c.func.id)
        return " ".join([callee.coq] + out)

    def coerce(self, a, want, env):
        if isinstance(a, ast.Constant) and a.value is None:
            if want != "opt_headers":
                raise Unsupported(a, "None where a %s is needed" % want)
            return "None"
        t, ty = self.expr(a, env)
        if ty == want:
            return t
        if ty == "headers" and want == "opt_headers":
            return "(Some %s)" % t
        raise Unsupported(a, "a %s where a %s is needed" % (ty, want))

    def block(self, stmts, env, sent, ind):
        if stmts:
            s, rest = stmts[0], stmts[1:]
            if isinstance(s, ast.Expr) or (isinstance(s, ast.Return) and s.value is not None):
                m = self.helper_call(s.value, env)      # both helpers are declared -> None: `return await helper(..)` returns None
                if m is not None:
                    if isinstance(s, ast.Return):
                        if rest:
                            raise Unsupported(s, "dead code after return")
                        return "%s%s ;;;\n%sret tt" % (ind, m, ind)
                    return "%s%s ;;;\n" % (ind, m) + self.block(rest, env, sent, ind)
        return Fn.block(self, stmts, env, sent, ind)

    def translate(self):
        body = self.block(self.fdef.body, {"self_headers": "hstore"}, set(), "    ")
        ps = (" {Cookie : Type} (headers_setitem : list N -> list N -> list header -> list header)"
              + (" (headers_contains : list N -> list header -> bool) (str_of_int : nat -> list N)" if self.small else "") +
              " (encode_latin1 : list N -> bytes) (cookie_bytes : Cookie -> bytes) (cookie_str : Cookie -> list N)"
              + (" (r_rendered : bytes)" if self.small else "") + " (v_self_status_code : nat)"
              + (" (v_self_media_type v_self_charset : list N)" if self.small else "") +
              " (v_self_headers : list header) (v_self_cookies : list Cookie)")
        self.text = "Definition %s%s : M unit :=\n%s.\n" % (self.coq, ps, body)
        seg = ast.get_source_segment(self.src, self.fdef) or ""
        self.head = "(* %s :: %s, lines %d-%d\n%s\n*)\n" % (
            FILE_RESP, self.pyname, self.fdef.lineno, self.fdef.end_lineno,
            "\n".join("   | " + l for l in P.comment_safe(seg).splitlines()))

    def closure(self):
        return [c for c in ("BaseResponse.list_headers",) + HELPERS if c in self.calls] + [self.pyname]



def bound_names(tree):
    """how often each name is bound anywhere in the module (def / class / assignment / parameter / import / global)"""
    bound = {}
    for n in ast.walk(tree):
        names = []
        if isinstance(n, (ast.FunctionDef, ast.AsyncFunctionDef, ast.ClassDef)):
            names = [n.name]
        elif isinstance(n, ast.Name) and not isinstance(n.ctx, ast.Load):
            names = [n.id]
        elif isinstance(n, ast.arg):
            names = [n.arg]
        elif isinstance(n, (ast.Import, ast.ImportFrom)):
            names = [(a.asname or a.name).split(".")[0] for a in n.names]
            if any(a.name == "*" for a in n.names):
                raise Unsupported(n, "star import")
        elif isinstance(n, (ast.Global, ast.Nonlocal)):
            names = list(n.names)
        elif isinstance(n, ast.ExceptHandler) and n.name:
            names = [n.name]
        for x in names:
            bound[x] = bound.get(x, 0) + 1
        if isinstance(n, ast.Call) and isinstance(n.func, ast.Name) and n.func.id in ("setattr", "delattr", "exec", "eval", "globals", "vars"):
            raise Unsupported(n, "%s(...) in the module" % n.func.id)
    return bound


class ListHeadersFn:
    """BaseResponse.list_headers(self, *, as_bytes) of baize/responses.py: a pure function of as_bytes, the items of
    self.headers (the store of Resp/Model.v is that list of pairs) and self.cookies.

        if as_bytes: A else: B / if as_bytes: A; B        if v_as_bytes then A else B         (as_bytes: a bool, see the overloads;
                                                                                                the callers pass True / False)
        return [*it1, *it2, ...]                           it1 ++ it2 ++ ...
        (elt for x in src) / (elt for k, v in src)         map (fun v_x => elt) src / map (fun '(v_k, v_v) => elt) src
        self.headers.items()                               v_self_headers : list (str * str)
        self.cookies                                       v_self_cookies : list Cookie        (Cookie: a type argument)
        (a, b)                                             (a, b)
        s.encode("latin-1")                                encode_latin1 s       (the codec: an argument)
        bytes(c) / str(c)  on a cookie                     cookie_bytes c / cookie_str c       (Cookie.__bytes__ / __str__: arguments)
        "lit" / b"lit"                                     lit "lit" """
    FILE = FILE_BASE

    def __init__(self, ctx, pyname):
        self.ctx, self.pyname = ctx, pyname
        self.coq = COQ_NAME[pyname]
        self.calls = []
        self.src = open(os.path.join(ctx.repo, FILE_BASE), encoding="utf-8").read()
        self.tree = ast.parse(self.src)
        self.fdef = self.find()

    def find(self):
        t = self.tree
        bound = bound_names(t)
        for b in ("bytes", "str"):
            if b in bound:
                raise Unsupported(t, "the builtin %s is rebound in the module" % b)
        cls = [n for n in t.body if isinstance(n, ast.ClassDef) and n.name == BASE_CLS]
        if len(cls) != 1 or bound.get(BASE_CLS) != 1 or cls[0].keywords or cls[0].bases:
            raise Unsupported(t, "class %s is not defined exactly once, without bases" % BASE_CLS)
        c = cls[0]
        # the class decorator of the source: mypyc_attr(...), which returns the class unchanged with or without mypy_extensions
        if [ast.unparse(d) for d in c.decorator_list] not in ([], ["mypyc_attr(allow_interpreted_subclasses=True)"]):
            raise Unsupported(c, "class decorators")
        for n in ast.walk(t):
            if isinstance(n, ast.Attribute) and not isinstance(n.ctx, ast.Load) and isinstance(n.value, ast.Name) and n.value.id == BASE_CLS:
                raise Unsupported(n, "an attribute of %s is assigned outside its class body" % BASE_CLS)
        defs = []
        for st in c.body:
            if isinstance(st, (ast.FunctionDef, ast.AsyncFunctionDef)):
                if st.name == "list_headers":
                    defs.append(st)
                elif st.name in ("__getattribute__", "__getattr__", "__init_subclass__", "__class_getitem__"):
                    raise Unsupported(st, "%s defines %s" % (BASE_CLS, st.name))
            elif is_doc(st) or isinstance(st, ast.AnnAssign) and st.value is None:
                continue
            else:
                raise Unsupported(st, "a statement in the body of %s that is not a method" % BASE_CLS)
        # the overloads come first and are replaced by the last definition, which is the one that runs
        if not defs or isinstance(defs[-1], ast.AsyncFunctionDef) or defs[-1].decorator_list:
            raise Unsupported(c, "no plain, undecorated final definition of list_headers")
        for d in defs[:-1]:
            if [ast.unparse(x) for x in d.decorator_list] != ["overload"]:
                raise Unsupported(d, "an earlier definition of list_headers that is not an @overload")
        f = defs[-1]
        a = f.args
        if a.vararg or a.kwarg or a.posonlyargs or a.defaults or [p.arg for p in a.args] != ["self"] or \
                [p.arg for p in a.kwonlyargs] != ["as_bytes"] or any(d is not None for d in a.kw_defaults):
            raise Unsupported(f, "list_headers is not (self, *, as_bytes)")
        if a.kwonlyargs[0].annotation is not None and ast.unparse(a.kwonlyargs[0].annotation) != "bool":
            raise Unsupported(f, "annotation of as_bytes")
        for n in ast.walk(f):
            if isinstance(n, (ast.Yield, ast.YieldFrom, ast.Global, ast.Nonlocal, ast.Lambda, ast.FunctionDef, ast.AsyncFunctionDef,
                              ast.ClassDef, ast.NamedExpr, ast.Try, ast.With, ast.AsyncWith, ast.For, ast.AsyncFor, ast.While,
                              ast.Delete, ast.Await, ast.Assign, ast.AugAssign, ast.AnnAssign)) and n is not f:
                raise Unsupported(n, "not in the subset")
        return f

    def scalar(self, e, env):
        if isinstance(e, ast.Constant) and isinstance(e.value, str):
            return lit(e.value, e), "str"
        if isinstance(e, ast.Constant) and isinstance(e.value, bytes):
            return lit(e.value.decode("latin-1"), e), "bytes"
        if isinstance(e, ast.Name) and e.id in env:
            return "v_" + e.id, env[e.id]
        if isinstance(e, ast.Call) and not e.keywords and len(e.args) == 1 and not isinstance(e.args[0], ast.Starred):
            if isinstance(e.func, ast.Attribute) and e.func.attr == "encode":
                t, ty = self.scalar(e.func.value, env)
                a = e.args[0]
                if ty == "str" and isinstance(a, ast.Constant) and a.value == "latin-1":
                    return "(encode_latin1 %s)" % t, "bytes"
            if isinstance(e.func, ast.Name) and e.func.id in ("bytes", "str") and e.func.id not in env:
                t, ty = self.scalar(e.args[0], env)
                if ty == "cookie":
                    return "(cookie_%s %s)" % (e.func.id, t), e.func.id
        raise Unsupported(e, "expression")

    def source(self, e, env):
        if "self" in env:
            raise Unsupported(e, "self is rebound")
        if isinstance(e, ast.Call) and not e.args and not e.keywords and ast.unparse(e.func) == "self.headers.items":
            return "v_self_headers", ("pair", "str", "str")
        if isinstance(e, ast.Attribute) and ast.unparse(e) == "self.cookies":
            return "v_self_cookies", "cookie"
        raise Unsupported(e, "an iterable other than self.headers.items() / self.cookies")

    def iterable(self, e, env):
        """-> (term : list (list N * list N), type of the two components)"""
        if isinstance(e, (ast.GeneratorExp, ast.ListComp)):
            if len(e.generators) != 1 or e.generators[0].ifs or e.generators[0].is_async:
                raise Unsupported(e, "a comprehension that is not one plain `for`")
            g = e.generators[0]
            src, ety = self.source(g.iter, env)
            env2 = dict(env)
            if isinstance(g.target, ast.Name):
                if isinstance(ety, tuple):
                    raise Unsupported(g.target, "a pair bound to one name")
                env2[g.target.id] = ety
                pat = "v_" + g.target.id
            elif isinstance(g.target, ast.Tuple) and len(g.target.elts) == 2 and all(isinstance(x, ast.Name) for x in g.target.elts) \
                    and isinstance(ety, tuple) and g.target.elts[0].id != g.target.elts[1].id:
                env2[g.target.elts[0].id], env2[g.target.elts[1].id] = ety[1], ety[2]
                pat = "'(v_%s, v_%s)" % (g.target.elts[0].id, g.target.elts[1].id)
            else:
                raise Unsupported(g.target, "comprehension target")
            if any(x in ("self", "as_bytes", "bytes", "str") for x in env2 if x not in env):
                raise Unsupported(g.target, "comprehension variable shadows a name in use")
            if not (isinstance(e.elt, ast.Tuple) and len(e.elt.elts) == 2):
                raise Unsupported(e.elt, "an element that is not a pair")
            (t1, ty1), (t2, ty2) = self.scalar(e.elt.elts[0], env2), self.scalar(e.elt.elts[1], env2)
            if ty1 != ty2 or ty1 not in ("str", "bytes"):
                raise Unsupported(e.elt, "a pair of a %s and a %s" % (ty1, ty2))
            return "map (fun %s => (%s, %s)) %s" % (pat, t1, t2, src), ty1
        src, ety = self.source(e, env)
        if not isinstance(ety, tuple):
            raise Unsupported(e, "the cookies themselves as header pairs")
        return src, ety[1]

    def pairs(self, e, env):
        if not isinstance(e, ast.List) or not all(isinstance(x, ast.Starred) for x in e.elts):
            raise Unsupported(e, "a result that is not a list display of starred iterables")
        parts = [self.iterable(x.value, env) for x in e.elts]
        if len({ty for _, ty in parts}) > 1:
            raise Unsupported(e, "str pairs and bytes pairs in one list")
        return "(%s)" % " ++ ".join("(%s)" % t for t, _ in parts) if parts else "[]"

    def block(self, stmts, env, ind):
        stmts = [s for s in stmts if not is_doc(s) and not isinstance(s, ast.Pass)]
        if not stmts:
            raise Unsupported(self.fdef, "a path falls off the end")
        s, rest = stmts[0], stmts[1:]
        if isinstance(s, ast.Return) and s.value is not None:
            if rest:
                raise Unsupported(s, "dead code after return")
            return ind + self.pairs(s.value, env)
        if isinstance(s, ast.If):
            t = s.test
            neg = False
            while isinstance(t, ast.UnaryOp) and isinstance(t.op, ast.Not):
                neg, t = not neg, t.operand
            if not (isinstance(t, ast.Name) and t.id == "as_bytes"):
                raise Unsupported(s.test, "a condition other than as_bytes")
            if s.orelse and rest:
                raise Unsupported(s, "statements after an if / else")
            A = self.block(s.body, env, ind + "    ")
            B = self.block(s.orelse or rest, env, ind + "    ")
            return "%sif %s then (\n%s\n%s) else (\n%s\n%s)" % (ind, "negb v_as_bytes" if neg else "v_as_bytes", A, ind, B, ind)
        raise Unsupported(s, "statement")

    def translate(self):
        body = self.block(self.fdef.body, {}, "    ")
        ps = (" {Cookie : Type} (encode_latin1 : list N -> bytes) (cookie_bytes : Cookie -> bytes) (cookie_str : Cookie -> list N)"
              " (v_as_bytes : bool) (v_self_headers : list (list N * list N)) (v_self_cookies : list Cookie)")
        self.text = "Definition %s%s : list (list N * list N) :=\n%s.\n" % (self.coq, ps, body)
        seg = ast.get_source_segment(self.src, self.fdef) or ""
        self.head = "(* %s :: %s, lines %d-%d\n%s\n*)\n" % (
            FILE_BASE, self.pyname, self.fdef.lineno, self.fdef.end_lineno,
            "\n".join("   | " + l for l in P.comment_safe(seg).splitlines()))

    def closure(self):
        return [self.pyname]



class WsgiCallFn:
    """Response.__call__(self, environ, start_response) of baize/wsgi/responses.py (a plain function, not a generator): a
    pure function of the object that gives (the calls of start_response, in order: (status line, header list); the items of
    the iterable it returns).

        self.headers["k"] = "v"                     let v_self_headers := headers_setitem (lit "k") (lit "v") v_self_headers in ...
        start_response(a, b)                        let w_calls := w_calls ++ [(a, b)] in ...      (its result is not used)
        StatusStringMapping[self.status_code]       status_string v_self_status_code     (the module's table: an argument)
        self.list_headers(as_bytes=False)           py_list_headers encode_latin1 cookie_bytes cookie_str false v_self_headers v_self_cookies
        x = e                                       let v_x := e in ...
        return (b"..", ...) / [b"..", ...]          (w_calls, [lit ".."; ...])"""
    FILE = FILE_WSGI

    def __init__(self, ctx, pyname):
        self.ctx, self.pyname = ctx, pyname
        self.coq = COQ_NAME[pyname]
        self.calls = []
        self.src = open(os.path.join(ctx.repo, FILE_WSGI), encoding="utf-8").read()
        self.tree = ast.parse(self.src)
        self.fdef = self.find()

    def find(self):
        t = self.tree
        bound = bound_names(t)
        imp = [a for st in t.body if isinstance(st, ast.ImportFrom) and st.level == 0 and st.module == "baize.responses"
               for a in st.names if a.name == BASE_CLS and a.asname is None]
        if len(imp) != 1 or bound.get(BASE_CLS) != 1:
            raise Unsupported(t, "%s is not imported exactly once from baize.responses, or is rebound" % BASE_CLS)
        tab = [st for st in t.body if isinstance(st, ast.Assign) and len(st.targets) == 1 and isinstance(st.targets[0], ast.Name)
               and st.targets[0].id == "StatusStringMapping"]
        if len(tab) != 1 or bound.get("StatusStringMapping") != 1:
            raise Unsupported(t, "StatusStringMapping is not assigned exactly once, at module level")
        for n in ast.walk(t):
            if isinstance(n, ast.Attribute) and not isinstance(n.ctx, ast.Load) and isinstance(n.value, ast.Name) and n.value.id == RESP_CLS:
                raise Unsupported(n, "an attribute of %s is assigned outside its class body" % RESP_CLS)
            if isinstance(n, ast.Subscript) and not isinstance(n.ctx, ast.Load) and isinstance(n.value, ast.Name) and n.value.id == "StatusStringMapping":
                raise Unsupported(n, "an entry of StatusStringMapping is assigned")
        cls = [n for n in t.body if isinstance(n, ast.ClassDef) and n.name == RESP_CLS]
        if len(cls) != 1 or bound.get(RESP_CLS) != 1 or cls[0].decorator_list or cls[0].keywords or [ast.unparse(b) for b in cls[0].bases] != ["BaseResponse"]:
            raise Unsupported(t, "class %s(BaseResponse) is not defined exactly once, plainly" % RESP_CLS)
        body = [st for st in cls[0].body if not is_doc(st)]
        if len(body) != 1 or not isinstance(body[0], ast.FunctionDef) or body[0].name != "__call__":
            raise Unsupported(cls[0], "the body of %s is not just the plain method __call__" % RESP_CLS)
        f = body[0]
        a = f.args
        if f.decorator_list or a.vararg or a.kwarg or a.posonlyargs or a.kwonlyargs or a.defaults or \
                [p.arg for p in a.args] != ["self", "environ", "start_response"] or \
                [ast.unparse(p.annotation) if p.annotation else None for p in a.args] != [None, "Environ", "StartResponse"]:
            raise Unsupported(f, "__call__ is not (self, environ: Environ, start_response: StartResponse)")
        for n in ast.walk(f):
            if isinstance(n, (ast.Yield, ast.YieldFrom, ast.Global, ast.Nonlocal, ast.Lambda, ast.FunctionDef, ast.AsyncFunctionDef,
                              ast.ClassDef, ast.NamedExpr, ast.Try, ast.With, ast.AsyncWith, ast.For, ast.AsyncFor, ast.While, ast.If,
                              ast.Delete, ast.ListComp, ast.SetComp, ast.DictComp, ast.GeneratorExp, ast.Await, ast.AugAssign)) and n is not f:
                raise Unsupported(n, "not in the subset")
            if isinstance(n, ast.Name) and n.id in ("self", "environ", "start_response", "StatusStringMapping") and not isinstance(n.ctx, ast.Load):
                raise Unsupported(n, "a parameter is rebound")
        return f

    def expr(self, e, env):
        if isinstance(e, ast.Constant) and isinstance(e.value, str):
            return lit(e.value, e), "str"
        if isinstance(e, ast.Constant) and isinstance(e.value, bytes):
            return lit(e.value.decode("latin-1"), e), "bytes"
        if isinstance(e, ast.Name) and e.id in env:
            return "v_" + e.id, env[e.id]
        if isinstance(e, ast.Attribute) and isinstance(e.ctx, ast.Load) and ast.unparse(e) == "self.status_code":
            return "v_self_status_code", "int"
        if isinstance(e, ast.Subscript) and isinstance(e.value, ast.Name) and e.value.id == "StatusStringMapping" and "StatusStringMapping" not in env:
            t, ty = self.expr(e.slice, env)
            if ty == "int":
                return "(status_string %s)" % t, "str"
        if isinstance(e, ast.Call) and ast.unparse(e.func) == "self.list_headers":
            if e.args or len(e.keywords) != 1 or e.keywords[0].arg != "as_bytes" or not (
                    isinstance(e.keywords[0].value, ast.Constant) and e.keywords[0].value.value is False):
                raise Unsupported(e, "list_headers is called other than with as_bytes=False")
            callee = self.ctx.func("BaseResponse.list_headers")
            if "BaseResponse.list_headers" not in self.calls:
                self.calls.append("BaseResponse.list_headers")
            return "(%s encode_latin1 cookie_bytes cookie_str false v_self_headers v_self_cookies)" % callee.coq, "headers"
        raise Unsupported(e, "expression")

    def block(self, stmts, env, ind):
        stmts = [s for s in stmts if not is_doc(s) and not isinstance(s, ast.Pass)]
        if not stmts:
            raise Unsupported(self.fdef, "a path falls off the end (the server needs an iterable)")
        s, rest = stmts[0], stmts[1:]
        if isinstance(s, ast.Return):
            if rest or not isinstance(s.value, (ast.Tuple, ast.List)):
                raise Unsupported(s, "return of something that is not a tuple / list display, or dead code after it")
            items = []
            for x in s.value.elts:
                t, ty = self.expr(x, env)
                if ty != "bytes":
                    raise Unsupported(x, "an item that is not bytes")
                items.append(t)
            return "%s(w_calls, [%s])" % (ind, "; ".join(items))
        if isinstance(s, ast.Expr) and isinstance(s.value, ast.Call) and isinstance(s.value.func, ast.Name) \
                and s.value.func.id == "start_response" and "start_response" not in env:
            c = s.value
            if len(c.args) != 2 or c.keywords or any(isinstance(x, ast.Starred) for x in c.args):
                raise Unsupported(c, "start_response is called other than with two positional arguments")
            (t1, ty1), (t2, ty2) = self.expr(c.args[0], env), self.expr(c.args[1], env)
            if ty1 != "str" or ty2 != "headers":
                raise Unsupported(c, "start_response(%s, %s)" % (ty1, ty2))
            return "%slet w_calls := w_calls ++ [(%s, %s)] in\n" % (ind, t1, t2) + self.block(rest, env, ind)
        if isinstance(s, ast.Assign) and len(s.targets) == 1:
            tg = s.targets[0]
            t, ty = self.expr(s.value, env)
            if isinstance(tg, ast.Subscript) and ast.unparse(tg.value) == "self.headers":
                k = tg.slice
                if not (isinstance(k, ast.Constant) and isinstance(k.value, str)) or ty != "str":
                    raise Unsupported(s, "self.headers[..] = .. other than <str literal> and a str")
                return "%slet v_self_headers := headers_setitem %s %s v_self_headers in\n" % (ind, lit(k.value, k), t) + self.block(rest, env, ind)
            if isinstance(tg, ast.Name) and tg.id not in RESERVED and not tg.id.startswith("self_") and \
                    tg.id not in ("self", "environ", "start_response", "StatusStringMapping") and env.get(tg.id, ty) == ty:
                env2 = dict(env)
                env2[tg.id] = ty
                return "%slet v_%s := %s in\n" % (ind, tg.id, t) + self.block(rest, env2, ind)
        raise Unsupported(s, "statement")

    def translate(self):
        body = self.block(self.fdef.body, {}, "    ")
        ps = (" {Cookie : Type} (headers_setitem : list N -> list N -> list header -> list header) (status_string : nat -> list N)"
              " (encode_latin1 : list N -> bytes) (cookie_bytes : Cookie -> bytes) (cookie_str : Cookie -> list N)"
              " (v_self_status_code : nat) (v_self_headers : list header) (v_self_cookies : list Cookie)")
        self.text = ("Definition %s%s : list (list N * list header) * list bytes :=\n    let w_calls := @nil (list N * list header) in\n%s.\n"
                     % (self.coq, ps, body))
        seg = ast.get_source_segment(self.src, self.fdef) or ""
        self.head = "(* %s :: %s, lines %d-%d\n%s\n*)\n" % (
            FILE_WSGI, RESP_CLS + ".__call__", self.fdef.lineno, self.fdef.end_lineno,
            "\n".join("   | " + l for l in P.comment_safe(seg).splitlines()))

    def closure(self):
        return [c for c in ("BaseResponse.list_headers",) if c in self.calls] + [self.pyname]


def translate_all(repo):
    """-> (ctx, [(python name, Fn or Unsupported)])"""
    ctx = Ctx(repo)
    out = []
    for py, _ in FUNCS:
        try:
            out.append((py, ctx.func(py)))
        except Unsupported as e:
            out.append((py, e))
    return ctx, out


def funcs_text(ctx, names):
    return HEADER + "\n".join(ctx.func(n).head + ctx.func(n).text for n in names)


def short(msg):
    return msg if len(msg) <= 600 else msg[:350] + " ... " + msg[-200:]


def label(py):
    return "%s/Translated.v (%s)" % (PID, py)


def check(repo=None, verif=None, timeout=120, keep=False):
    """one verdict per function: (name, ok, detail); ok None = not applicable (refused / coqc timed out), False = broken"""
    import shutil
    import time
    from concurrent.futures import ThreadPoolExecutor
    repo = repo or os.environ.get("BAIZE_REPO", "/repo")
    verif = verif or VERIF
    coq = os.path.join(verif, "coq")
    pys = [py for py, _ in FUNCS]
    try:
        ctx, res = translate_all(repo)
    except Unsupported as e:
        return [(label(py), None, "the translator does not understand the current source (it refuses rather than guess): %s" % e) for py in pys]
    except (OSError, SyntaxError) as e:
        return [(label(py), False, "cannot read the source: %s: %s" % (type(e).__name__, e)) for py in pys]
    except Exception as e:      # a defect of the translator itself: also closed
        return [(label(py), None, "the translator failed on the current source (%s: %s); the case-based tie decides alone"
                 % (type(e).__name__, e)) for py in pys]
    tv = os.path.join(coq, "theories", PID, "Translated.v")
    tsrc = open(tv).read()
    block = P.TEMPLATE_BLOCK % {"pid": PID}
    pre, segs = P.split_segments(tsrc)
    ref = os.path.join(coq, "theories", PID, "Generated_ref.v")
    refdefs = P.definitions_only(open(ref).read()) if os.path.exists(ref) else ""
    root = os.path.join(verif, ".work", "translate-%s-%d" % (PID, os.getpid()))
    shutil.rmtree(root, ignore_errors=True)

    def one(py, m):
        name = label(py)
        t0 = time.time()
        if isinstance(m, Unsupported):
            return (name, None, "the translator does not understand the current source (it refuses rather than guess; this says "
                                "nothing about the behaviour of the code, the case-based tie decides alone): %s" % m)
        try:
            names = m.closure()
            text = funcs_text(ctx, names)
        except Exception as e:
            return (name, None, "the translator failed on the current source (%s: %s); the case-based tie decides alone" % (type(e).__name__, e))
        bad = [t for t in P.FORBIDDEN_TOKENS if re.search(r"\b%s\b" % t, P.strip_coq_comments(text.replace(HEADER, "")))]
        if bad:
            return (name, False, "generated text contains %s" % bad)
        seg = COQ_NAME[py]
        if pre.count(block) != 1 or seg not in segs:
            return (name, False, "%s does not contain the marked Require block exactly once before the segments, or lacks the segment %s" % (tv, seg))
        if any(COQ_NAME[n] not in segs for n in names):
            return (name, False, "%s lacks the segment of one of %s" % (tv, names))
        part = pre.replace(block, P.FRESH_BLOCK) + "".join(segs[COQ_NAME[n]] for n in names)
        own = P.strip_coq_comments(segs[seg])
        thms = re.findall(r"^\s*Theorem\s+(\w+)", own, re.M)
        printed = re.findall(r"Print Assumptions\s+(\w+)\s*\.", P.strip_coq_comments(part))
        if not thms or [t for t in thms if t not in printed]:
            return (name, False, "Translated.v: no theorem about %s, or a theorem without Print Assumptions" % seg)
        fresh = os.path.join(root, seg, "Fresh")
        os.makedirs(fresh)
        with open(os.path.join(fresh, "Generated.v"), "w") as f:
            f.write(text)
        with open(os.path.join(fresh, "Translated.v"), "w") as f:
            f.write(part)
        base = ["-Q", "theories", "Baize", "-Q", fresh, "Fresh"]
        rc, out, err = P.run_coqc(base + [os.path.join(fresh, "Generated.v")], coq, timeout)
        if rc == 124:
            return (name, None, "coqc did not finish within %d s; no verdict from the source-level tie in this run" % timeout)
        if rc != 0:
            return (name, False, "the generated definition does not compile (rc %d): %s" % (rc, (err or out)[-600:]))
        rc, out, err = P.run_coqc(base + [os.path.join(fresh, "Translated.v")], coq, timeout)
        if rc == 124:
            return (name, None, "coqc did not finish within %d s; no verdict from the source-level tie in this run" % timeout)
        if rc != 0:
            return (name, False, "the proof that the function translated from the current source agrees with the model "
                                 "no longer checks (rc %d): %s" % (rc, short(" ".join((err or out).split()))))
        closed = out.count("Closed under the global context")
        if closed != len(printed) or "Axioms:" in out:
            return (name, False, "Print Assumptions: %d of %d closed under the global context: %s" % (closed, len(printed), out[-300:]))
        same = P.definitions_only(m.text) in refdefs
        return (name, True, "%s re-checked against the definition translated from %s (%s the committed reference copy), closed "
                            "under the global context, %.1f s" % (
                                ", ".join(thms), m.FILE, "identical to" if same else "DIFFERENT from", time.time() - t0))
    try:
        with ThreadPoolExecutor(max(1, len(res))) as ex:
            return list(ex.map(lambda pm: one(*pm), res))
    finally:
        if not keep:
            shutil.rmtree(root, ignore_errors=True)


# ---------------------------------------------------------------- C05/PyLib.v against the interpreter's dict

KEYS = ["type", "status", "headers"]


def _ops_domain():
    """every sequence of <= 2 display entries followed by <= 2 item assignments, over three keys; the values are 0, 1, 2, ..
    in the order written"""
    import itertools
    out = []
    for n in range(3):
        for m in range(3):
            for ks in itertools.product(range(len(KEYS)), repeat=n + m):
                out.append((list(ks[:n]), list(ks[n:])))
    return out


def _py_dict_code(dom):
    """the interpreter's answer: for every case, d.get(k) for the three keys (absent = 0, value i = i + 1) and the order of keys"""
    acc = 0
    for disp, sets in dom:
        src = "{%s}" % ", ".join("%r: %d" % (KEYS[k], i) for i, k in enumerate(disp))
        d = eval(src)       # a dict display, evaluated by this interpreter
        for j, k in enumerate(sets):
            d[KEYS[k]] = len(disp) + j
        code = 0
        for k in KEYS:
            v = d.get(k)
            code = code * 7 + (0 if v is None else v + 1)
        for k in d:         # insertion order
            code = code * 5 + KEYS.index(k) + 1
        acc = (acc * 1000003 + code) % 1000000007
    return acc


def pylib_check(verif=None, timeout=120, keep=False):
    """-> [(name, ok, detail)]: dict_lit / dict_set / dict_get of C05/PyLib.v evaluated by coqc against the running interpreter"""
    import shutil
    import time
    verif = verif or VERIF
    coq = os.path.join(verif, "coq")
    name = "C05/PyLib.v against the interpreter's dict (display, item assignment, get, order of keys)"
    t0 = time.time()
    try:
        dom = _ops_domain()
        want = _py_dict_code(dom)
    except Exception as e:
        return [(name, None, "the comparison could not be set up (%s: %s)" % (type(e).__name__, e))]
    d = os.path.join(verif, ".work", "pylib-c05-%d" % os.getpid())
    shutil.rmtree(d, ignore_errors=True)
    os.makedirs(d)

    def nl(xs):
        return "[%s]" % "; ".join("%d" % x for x in xs)
    text = """From Coq Require Import List NArith Bool Arith.
From Baize Require Import Lib.Wire Lib.Order C02.Model.
From Baize Require C05.PyLib.
Module PyLib := Baize.C05.PyLib.
Import ListNotations.
Open Scope N_scope.
Definition keys : list (list N) := [%s].
Definition key (i : nat) : list N := nth i keys [].
Definition kidx (k : list N) : N := if bytes_eqb k (key 0) then 1 else if bytes_eqb k (key 1) then 2 else 3.
Fixpoint number (i : nat) (ks : list nat) : list (list N * PyLib.pyval) :=
  match ks with [] => [] | k :: r => (key k, PyLib.VInt i) :: number (S i) r end.
Definition run (c : list nat * list nat) : PyLib.pydict :=
  fold_left (fun d kv => PyLib.dict_set (fst kv) (snd kv) d) (number (length (fst c)) (snd c)) (PyLib.dict_lit (number 0%%nat (fst c))).
Definition code (c : list nat * list nat) : N :=
  let d := run c in
  let a := fold_left (fun acc k => acc * 7 + match PyLib.dict_get k d with Some (PyLib.VInt v) => N.of_nat v + 1 | _ => 0 end) keys 0 in
  fold_left (fun acc kv => acc * 5 + kidx (fst kv)) d a.
Definition cases : list (list nat * list nat) := [%s].
Eval vm_compute in (fold_left (fun acc c => (acc * 1000003 + code c) mod 1000000007) cases 0).
""" % ("; ".join(nl([ord(c) for c in k]) for k in KEYS),
       "; ".join("(%s, %s)" % ("[%s]" % "; ".join("%d%%nat" % x for x in a), "[%s]" % "; ".join("%d%%nat" % x for x in b)) for a, b in dom))
    try:
        vf = os.path.join(d, "PyLibCheck.v")
        with open(vf, "w") as f:
            f.write(text)
        rc, out, err = P.run_coqc(["-Q", "theories", "Baize", vf], coq, timeout)
        if rc != 0:
            return [(name, None if rc == 124 else False, "coqc rc %d: %s" % (rc, (err or out)[-400:]))]
        res = [int(x) for x in re.findall(r"=\s*(\d+)(?:%N)?\s*:\s*N\b", out)]
        if len(res) != 1:
            return [(name, False, "expected one result from coqc, parsed %d" % len(res))]
        if res[0] != want:
            return [(name, False, "dict_lit / dict_set / dict_get differ from the interpreter's dict on some sequence of <= 2 display "
                                  "entries and <= 2 item assignments")]
        return [(name, True, "%d sequences of display entries and item assignments over %d keys: same lookups and same order "
                             "of keys, evaluated inside coqc, %.1f s" % (len(dom), len(KEYS), time.time() - t0))]
    finally:
        if not keep:
            shutil.rmtree(d, ignore_errors=True)


def obligations(repo=None, verif=None, timeout=120):
    """what harness/c05.py extra_obligations(tier) returns"""
    from concurrent.futures import ThreadPoolExecutor
    with ThreadPoolExecutor(2) as ex:
        a = ex.submit(check, repo, verif, timeout)
        b = ex.submit(pylib_check, verif, timeout)
        return list(a.result()) + list(b.result())


def main():
    repo = os.environ.get("BAIZE_REPO", "/repo")
    if "--emit" in sys.argv:
        ctx, res = translate_all(repo)
        bad = [(py, m) for py, m in res if isinstance(m, Unsupported)]
        for py, m in bad:
            print("refused %s: %s" % (py, m), file=sys.stderr)
        sys.stdout.write(funcs_text(ctx, [py for py, m in res if not isinstance(m, Unsupported)]))
        return 1 if bad else 0
    rc = 0
    for name, ok, detail in obligations(repo):
        print("%-60s %s  %s" % (name, {True: "holds", False: "BROKEN", None: "n/a"}[ok], detail))
        if ok is False:
            rc = 1
    return rc


if __name__ == "__main__":
    sys.exit(main())
