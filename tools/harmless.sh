#!/bin/bash
# tools/harmless.sh Hk : apply seeded/harmless/Hk/patch.diff to a scratch worktree of /repo and run the checks of the
# properties it touches (meta.json touches_properties); a behaviour-preserving refactoring must give OK everywhere
cd "$(dirname "$0")/.."
k=$1
d=seeded/harmless/$k
wt=/tmp/seedrun/$k
git -C /repo worktree remove --force $wt 2>/dev/null; rm -rf $wt
git -C /repo worktree add -q --detach $wt HEAD || exit 2
git -C $wt apply $PWD/$d/patch.diff || { echo "$k patch does not apply"; git -C /repo worktree remove --force $wt; exit 2; }
props=$(python3 -c "import json; print(' '.join(json.load(open('$d/meta.json'))['touches_properties']))")
res=""
for p in $props; do
  out=$(BAIZE_REPO=$wt VERIF_EVIDENCE_DIR=/tmp/seedrun/ev-$k VERIF_REPLAY_OUT=/tmp/seedrun/replay-$k-$p.json ./check $p quick 2>&1 | grep -v "^KNOWN\|^note" | tail -4 | tr '\n' ' ')
  case "$out" in *"-> OK"*) res="$res $p:OK";; *) res="$res $p:ALARM[$out]";; esac
done
echo "$k$res"
python3 - <<PY
import json
p='$d/meta.json'; m=json.load(open(p)); m['check_results']="""$res""".strip(); json.dump(m,open(p,'w'),indent=1)
PY
git -C /repo worktree remove --force $wt; rm -rf /tmp/seedrun/ev-$k
