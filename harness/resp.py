"""Response recipes shared by C04, C05, C20: build the real baize response on either
interface, encode the recipe for the Coq model (Resp/IO.v), run it under fault
injection and record the protocol-level trace."""
import asyncio
import json
from http import HTTPStatus
from urllib.parse import quote

from . import util
from . import c02

IRI_SAFE = "/#%[]=:;$&()+,!?*@'~"


def phrase_of(*statuses):
    """[(code, phrase)] for those codes http.HTTPStatus knows"""
    out = []
    for s in statuses:
        try:
            out.append([s, HTTPStatus(s).phrase])
        except ValueError:
            pass
    return out


# ---- recipes --------------------------------------------------------------
# ["plain", status, headers, cookies]
# ["small", kind, content, status, headers, cookies, media_type|None, charset|None]   kind in text/html/json/bytes
# ["redirect", url, status, headers, cookies]
# ["stream", items, status, headers, cookies, content_type]        items: bytes | "RAISE"
# ["sse", events, status, headers, cookies, charset]               events: dict | "RAISE"
# ["file", <c02 case fields>]
# headers: list of [name, value] with distinct exact names (a dict); cookies: list of [name, value, {kwargs}]


class ProducerError(Exception):
    pass


def _apply_cookies(resp, cookies):
    for name, value, kw in cookies:
        resp.set_cookie(name, value, **kw)


def small_defaults(kind):
    return {"text": "text/plain", "bytes": "text/plain", "html": "text/html", "json": "application/json", "jsonp": "application/json"}[kind]


# "jsonp": JSONResponse given json.dumps options of its own (they belong to that one response object)
JSONP_KWARGS = {"indent": 2, "sort_keys": True, "ensure_ascii": True}


def render_small(kind, content, charset):
    if kind == "jsonp":
        return json.dumps(content, allow_nan=False, separators=(",", ":"), **JSONP_KWARGS).encode(charset)
    if kind == "json":
        return json.dumps(content, ensure_ascii=False, allow_nan=False, indent=None, separators=(",", ":")).encode(charset)
    if isinstance(content, str):
        return content.encode(charset)
    return bytes(content)


def build(recipe, iface):
    """the real response object"""
    if iface == "wsgi":
        import baize.wsgi.responses as M
    else:
        import baize.asgi.responses as M
    kind = recipe[0]
    if kind == "plain":
        _, status, headers, cookies = recipe
        r = M.Response(status, dict(map(tuple, headers)) if headers else None)
    elif kind == "small":
        _, k, content, status, headers, cookies, media, charset = recipe
        cls = {"text": M.PlainTextResponse, "bytes": M.PlainTextResponse, "html": M.HTMLResponse, "json": M.JSONResponse,
               "jsonp": M.JSONResponse}[k]
        hd = dict(map(tuple, headers)) if headers else None
        if k in ("json", "jsonp"):
            r = cls(content, status, hd, **(JSONP_KWARGS if k == "jsonp" else {}))
            if media:
                r.media_type = media
            if charset:
                r.charset = charset
        else:
            r = cls(content, status, hd, media, charset)
    elif kind == "redirect":
        _, url, status, headers, cookies = recipe
        if (len(url) + status) % 2:
            # the target may be handed over as a URL object (Union[str, URL]): the same text
            from baize.datastructures import URL
            try:
                if str(URL(url)) == url:
                    url = URL(url)
            except Exception:  # noqa
                pass
        r = M.RedirectResponse(url, status, dict(map(tuple, headers)) if headers else None)
    elif kind == "stream":
        _, items, status, headers, cookies, ctype = recipe
        r = M.StreamResponse(_producer(items, iface), status, dict(map(tuple, headers)) if headers else None, ctype)
    elif kind == "sse":
        _, events, status, headers, cookies, charset = recipe
        r = M.SendEventResponse(_producer([dict(e) if isinstance(e, dict) else e for e in events], iface), status,
                                dict(map(tuple, headers)) if headers else None, ping_interval=30, charset=charset)
    elif kind == "file":
        return c02_response(recipe, iface)
    else:
        raise ValueError(kind)
    _apply_cookies(r, cookies)
    return r


def c02_response(recipe, iface):
    import os
    case = recipe
    _, _, rng, ifr, data, cs, etag, lm, ctype, disp, boundary, name = case
    path = c02.file_for(bytes(data))
    st = os.stat(path)
    if iface == "wsgi":
        import baize.wsgi.responses as W
        W.random_choices = lambda pop, k: list(c02.BOUNDARY[:k])
        return W.FileResponse(path, content_type=ctype, download_name=name or None, chunk_size=cs, stat_result=st)
    import baize.asgi.responses as A
    A.random_choices = lambda pop, k: list(c02.BOUNDARY[:k])
    return A.FileResponse(path, content_type=ctype, download_name=name or None, chunk_size=cs, stat_result=st)


def _producer(items, iface):
    if iface == "wsgi":
        def gen():
            for it in items:
                if isinstance(it, str) and it == "RAISE":
                    raise ProducerError("producer")
                yield it
        return gen()

    async def agen():
        for it in items:
            if isinstance(it, str) and it == "RAISE":
                raise ProducerError("producer")
            yield it
    return agen()


def cookie_lines(cookies):
    """str(Cookie) for each cookie, through a throw-away BaseResponse"""
    from baize.responses import BaseResponse
    b = BaseResponse()
    _apply_cookies(b, cookies)
    return [str(c) for c in b.cookies]


def encode(recipe):
    """the recipe as the Coq model reads it (Resp/IO.v rd_recipe)"""
    kind = recipe[0]
    if kind == "plain":
        _, status, headers, cookies = recipe
        return ["plain", status, headers, cookie_lines(cookies)]
    if kind == "small":
        _, k, content, status, headers, cookies, media, charset = recipe
        cs = charset or "utf-8"
        return ["small", status, headers, cookie_lines(cookies), render_small(k, content, cs), media or small_defaults(k), cs]
    if kind == "redirect":
        _, url, status, headers, cookies = recipe
        return ["redirect", status, headers, cookie_lines(cookies), quote(url, safe=IRI_SAFE)]
    if kind == "stream":
        _, items, status, headers, cookies, ctype = recipe
        return ["stream", status, headers, cookie_lines(cookies), ctype,
                [["raise"] if (isinstance(i, str) and i == "RAISE") else ["i", i] for i in items]]
    if kind == "sse":
        from baize.responses import build_bytes_from_sse
        _, events, status, headers, cookies, charset = recipe
        return ["sse", status, headers, cookie_lines(cookies), charset,
                [["raise"] if (isinstance(e, str) and e == "RAISE") else ["i", build_bytes_from_sse(dict(e), charset)] for e in events]]
    if kind == "file":
        return ["file"] + list(recipe[1:])
    raise ValueError(kind)


def method_of(recipe):
    return "HEAD" if recipe[0] == "file" and recipe[1] else "GET"


def req_headers(recipe):
    hs = []
    if recipe[0] == "file":
        if recipe[2]:
            hs.append(("range", recipe[2][0]))
        if recipe[3]:
            hs.append(("if-range", recipe[3][0]))
    return hs


# ---- traced runs ------------------------------------------------------------

def _hdr_list_asgi(headers):
    ok = isinstance(headers, (list, tuple)) and all(
        isinstance(h, (list, tuple)) and len(h) == 2 and isinstance(h[0], bytes) and isinstance(h[1], bytes) for h in headers)
    if not ok:
        return None
    return sorted([h[0].decode("latin-1"), h[1].decode("latin-1")] for h in headers)


def trace_asgi(app, scope, closed_after=None, send_fails_at=None, messages=None):
    """returns (events, outcome) in the model's vocabulary"""
    events = []
    state = {"calls": 0, "bodies": 0}
    disconnect = asyncio.Event()
    msgs = list(messages if messages is not None else [{"type": "http.request", "body": b"", "more_body": False}])

    async def receive():
        if msgs:
            return msgs.pop(0)
        await disconnect.wait()
        return {"type": "http.disconnect"}

    async def send(message):
        n = state["calls"]
        state["calls"] += 1
        if send_fails_at is not None and n == send_fails_at:
            raise ConnectionError("send failed")
        t = message.get("type")
        if t == "http.response.start":
            hs = _hdr_list_asgi(message.get("headers", []))
            st = message.get("status")
            if hs is None or type(st) is not int:
                events.append(["type-error", "start: status %r headers %r" % (st, message.get("headers"))[:200]])
            else:
                events.append(["start", st, hs])
        elif t == "http.response.body":
            b = message.get("body", b"")
            m = message.get("more_body", False)
            if not isinstance(b, bytes) or not isinstance(m, bool):
                events.append(["type-error", "body: %r more_body %r" % (type(b).__name__, m)])
            else:
                events.append(["body", b, m])
            state["bodies"] += 1
            if closed_after is not None and state["bodies"] >= closed_after:
                disconnect.set()
        else:
            events.append(["foreign", str(t)])
        await asyncio.sleep(0)

    async def main():
        try:
            await app(scope, receive, send)
            out = "returned"
        except ProducerError:
            out = "producer-raised"
        except ConnectionError:
            out = "send-raised"
        # let cancelled helper tasks finish
        for _ in range(3):
            await asyncio.sleep(0)
        return out

    try:
        outcome = util.run(asyncio.wait_for(main(), 10))
    except asyncio.TimeoutError:
        outcome = "hung"
    except BaseException as e:  # noqa
        outcome = "exc-" + type(e).__name__
    return events, outcome


def trace_wsgi(app, environ, close_after=None):
    events = []

    def start_response(status, headers, exc_info=None):
        ok = isinstance(status, str) and isinstance(headers, list) and all(
            isinstance(h, tuple) and len(h) == 2 and type(h[0]) is str and type(h[1]) is str for h in headers)
        if not ok:
            events.append(["type-error", ("start_response(%r, %r)" % (status, headers))[:200]])
        else:
            events.append(["start", status, sorted([h[0], h[1]] for h in headers)])

    outcome = "returned"
    try:
        it = app(environ, start_response)
        iterator = iter(it)
        n = 0
        try:
            while close_after is None or n < close_after:
                try:
                    x = next(iterator)
                except StopIteration:
                    break
                n += 1
                if not isinstance(x, bytes):
                    events.append(["type-error", "yielded %s" % type(x).__name__])
                else:
                    events.append(["yield", x])
        finally:
            if hasattr(it, "close"):
                it.close()
    except ProducerError:
        outcome = "producer-raised"
    except BaseException as e:  # noqa
        outcome = "exc-" + type(e).__name__
    return events, outcome
