"""C11 — the WebSocket wrapper forwards only protocol-legal event sequences (C11/Model.v).

case  = [script, calls]
  value   = ["n"] | ["s", str] | ["b", str(latin-1 of the bytes)] | ["i", int]
  message = [[] | [type], [[key, value], ...]]      keys sorted, unique, never "type"
  call    = ["accept", sub] | ["receive"] | ["receive_text"] | ["receive_bytes"] | ["iter_text", n] | ["iter_bytes", n]
          | ["send_text", v] | ["send_bytes", v] | ["close", code, reason] | ["send", message]
          | ["iter_open", "t"|"b"]   g = ws.iter_text() / ws.iter_bytes(); the case's generators are numbered 0, 1, ... in order of creation
          | ["iter_step", i]         await g_i.__anext__()      (any other call may come between two steps)
          | ["iter_close", i]        await g_i.aclose()
observation = [[cs, aps]] + per call [outcome, [event, ...], cs, aps]
  event   = ["r"] (server receive() called, script exhausted) | ["r", message] | ["f", message, aps at that moment]
  outcome = ["ok"] | ["msg", message] | ["val", value] | ["exc", name, ...] | ["iter", [value...], ["limit"]|["done"]|["exc", ...]]
          | ["stop"] (StopAsyncIteration) | ["noiter"] (the case names a generator it never created)

The denial response and the shortcuts (C11/Denial.v); these cases start with a string:
case  = ["denial", scope type, ext, resp, script]     WebsocketDenialResponse(resp)(scope, receive, send)
      | ["rr", scope type, ext, view, script]         request_response(view)(scope, receive, send)
      | ["ws", scope type, script, calls]             websocket_session(view)(scope, receive, send), the view makes the calls
  ext   = 0 no "extensions" key | 1 {} | 2 {"websocket.http.response": {}} | 3 {"other.extension": {}} (the model's 1)
  resp  = ["none"] | ["r404"] Response(404) | ["text", status, body] PlainTextResponse | ["stream", [chunk...], suspend]
          StreamResponse over an async generator (suspend 1: it yields to the event loop before every chunk, so the
          disconnect watcher runs) | ["prog", [action...], raises] an ASGI application that performs the actions
  action = ["s", message, catches] await send(message) (catches 1: ValueError / KeyError swallowed) | ["r"] await receive()
  the model is handed every resp as its action list: for the real classes the list is recorded from a run of the bare
  response (ENCODE); header lists travel as one bytes value b"name: value" joined by CR LF, booleans as 0 / 1
observation  denial: [outcome, [event...], script messages left]     rr: [view calls] + the same
             ws: ["http", outcome, [event...], left] | ["session", [cs, aps], per call ...] | ["assert"]
  event = ["r"] | ["r", message] | ["f", message] | ["g", message] (the receive given to the inner application returned)
"""
import asyncio
import itertools
import re

from . import core, util

PID = "C11"
MANIFEST = dict(
    text="Theorems forwarded_legal / application_state_is_phase / transition_before_forward / illegal_raises_nothing_forwarded / "
         "sends_forward_or_raise / accept_consumes_connect / no_receive_after_disconnect / typed_receive_needs_connected_application / "
         "script_delivered_in_order / frames_in_order_once / close_closes / close_idempotent / states_monotone / "
         "iter_step_is_typed_receive / finished_iterator_inert / iterator_finishes / iter_steps_equal_atomic_iter / denial_legal / "
         "denial_of_legal_response / denial_receive / ws_receive_call / shortcut_scope_dispatch about the Gallina model of "
         "baize.asgi.websocket.WebSocket (two three-valued states and the async generators of iter_text/iter_bytes created so far; "
         "receive/send/accept/close/receive_*/iter_*/send_* and the single steps (__anext__) and aclose of an open generator as "
         "state-exception-trace functions) hold for every call sequence - any call may come between two steps of a running "
         "iteration - and every server script; the model is compared with the "
         "live class (driven through websocket_session with a scripted receive/send pair; real async-generator objects are kept "
         "across the calls of a case) on every call sequence up to length 4 "
         "(thorough 6) over the public operations x every script connect, <=3 text/binary frames, disconnect in every position, "
         "every interleaving up to length 4 (thorough 5) of open/step/close of two generators with accept/receive/send/close, "
         "plus malformed scripts and random long runs; the property itself is evaluated on the live observations. "
         "WebsocketDenialResponse, request_response and websocket_session are modelled too (C11/Denial.v: the wrapped HTTP "
         "response is any finite list of send / receive actions that then returns or raises; the scope's type and its "
         "extensions): without a response or without the websocket.http.response extension exactly websocket.close is "
         "forwarded, never an http.* event and never an extension event that was not offered; with both the response's "
         "events arrive renamed and otherwise untouched, a legal HTTP response trace (own recogniser; linked to C05's "
         "asgi_legal) gives a legal denial with nothing after the final body, any other event type raises ValueError; "
         "the wrapped receive hands over http.disconnect exactly for the websocket.disconnect delivered, at once, and "
         "drops everything else; request_response on a websocket scope is the denial of Response(404) without calling "
         "the view, websocket_session on an http scope answers 404 without calling the view and on a websocket scope "
         "is a session of the WebSocket model, any other scope type raises AssertionError. The real classes are driven "
         "with None / Response(404) / PlainTextResponse / StreamResponse of 0-3 chunks (with and without a running "
         "disconnect watcher) / scripted applications (illegal extra event, swallowed error, no body, body first, own "
         "exception, asking twice) x the four shapes of scope[\"extensions\"] x server scripts with the disconnect in "
         "every position x http / websocket / lifespan scopes.",
    note="Modelled, not verified: a server whose receive() never blocks mid-call (an exhausted script raises a marker exception "
         "instead of blocking), whose send() does not raise, messages as dicts of None/str/bytes/int values. The asserts are the "
         "guard: python -O removes them (configuration). no_receive_after_disconnect and frames_in_order_once assume the server "
         "sends websocket.connect first. Denial: one run of the wrapped response is a finite action list (a run that ends); "
         "ws_send / ws_receive rename the type in the caller's dict in place (aliasing not modelled); a wrapped response that "
         "asks for the disconnect again after it was told makes the wrapper ask the server again (premise of the last part of "
         "denial_receive: it asks at most once, as baize's responses do); an inner response that sends no body or raises "
         "midway leaves an incomplete (prefix of a legal) denial - the premise of denial_legal, not baize; a disconnect "
         "watcher parked for ever on a silent server is not driven for the real StreamResponse (C06's domain); scope "
         "without \"type\" or with a non-mapping \"extensions\" not modelled.",
    technique="Coq proof (per-call Hoare-style lemmas, induction over the call list with an invariant on the state pair and the "
              "remaining script; regular-language recognisers) + executable model/implementation correspondence",
    ref="5/C11")

RULE = ("cases: (a) every call sequence up to length 2 (thorough 3) over the 16-operation alphabet x all 64 scripts "
        "connect + <=3 text/binary frames + a disconnect in every position or none, (b) every call sequence up to length 4 "
        "(thorough 6) over an 8-operation core alphabet x a spread of those scripts (10; thorough 6, 3 at length 6), (c) malformed scripts (no connect, double "
        "connect, unknown/missing type, disconnect without code, frames with None/absent/both payload keys) x sequences up to "
        "length 2 (thorough 3), (d) random runs of 5..14 calls with random arguments over random scripts, "
        "(e) generators kept open across calls: every call sequence up to length 4 (thorough 5) over the 9-operation alphabet "
        "accept / receive / send_text / close / iter_open text / iter_open bytes / iter_step 0 / iter_step 1 / iter_close 0 x 3 scripts, "
        "and accept, iter_open text followed by every sequence up to length 3 (thorough 4) over it x 6 (thorough 4) scripts, "
        "(f) random application loops (accept, open, then steps of the generators interleaved with other calls) of 6..30 calls; "
        "(g) WebsocketDenialResponse: {None, Response(404), two PlainTextResponse, StreamResponse of 0-3 chunks, 14 scripted "
        "applications} x 4 extension shapes x 12 server scripts on a websocket scope, StreamResponse of 1-3 chunks with a "
        "running disconnect watcher x the scripts that deliver a disconnect, a spread on http / lifespan scopes, random "
        "scripted applications x random scripts, (h) request_response / websocket_session: views x http / websocket / "
        "lifespan scopes x extension shapes x scripts; "
        "non-trivial = some call raises, or a disconnect is delivered, or at least two events are forwarded "
        "(denial and shortcut cases: something is forwarded or raised)")
TRUSTED = ["scripted ASGI server of the harness: receive() hands out the script in order and raises a marker exception when it "
           "is exhausted; send() records the message and application_state at that moment"]
ASSUMPTIONS = ["assert statements are executed (no python -O)",
               "the server's send() does not raise and receive() does not block in the middle of a call",
               "no_receive_after_disconnect / frames_in_order_once: the first server event is websocket.connect",
               "denial_legal (complete legal denial): the wrapped response's own trace is a legal HTTP response trace and it "
               "runs to its end; denial_receive (no receive after the disconnect): the wrapped response asks at most once",
               "the calls of a case are made one after the other (one task): a generator of iter_text()/iter_bytes() is "
               "stepped again, and any other call is made, only after the previous call returned"]
EXHAUSTIVE = {"quick": True, "thorough": True}

N_ = ["n"]
CONNECT = [["websocket.connect"], []]


def S(x):
    return ["s", x]


def B(x):
    return ["b", x]


def I(x):
    return ["i", x]


def frame(kind, payload, style=0):
    """style 0: only the payload key; 1: the other key present with None"""
    if kind == "t":
        f = [["text", S(payload)]]
        if style:
            f = [["bytes", N_]] + f
    else:
        f = [["bytes", B(payload)]]
        if style:
            f = f + [["text", N_]]
    return [["websocket.receive"], f]


def disconnect(code=1000, reason=None):
    f = [["code", I(code)]]
    if reason is not None:
        f.append(["reason", reason])
    return [["websocket.disconnect"], f]


RAW_ACCEPT = ["send", [["websocket.accept"], []]]
RAW_SEND = ["send", [["websocket.send"], [["text", S("r")]]]]
RAW_CLOSE = ["send", [["websocket.close"], [["code", I(1001)]]]]
RAW_OTHER = ["send", [["websocket.http.response.start"], [["status", I(403)]]]]
RAW_NOTYPE = ["send", [[], [["text", S("r")]]]]
RAW_CONNECT = ["send", [["websocket.connect"], []]]

FULL = [["accept", N_], ["receive"], ["receive_text"], ["receive_bytes"], ["iter_text", 9], ["iter_bytes", 9],
        ["iter_text", 1], ["send_text", S("x")], ["send_bytes", B("y")], ["close", I(1000), N_],
        RAW_ACCEPT, RAW_SEND, RAW_CLOSE, RAW_OTHER, RAW_NOTYPE, RAW_CONNECT]
CORE = [["accept", N_], ["receive"], ["receive_text"], ["iter_bytes", 9], ["send_text", S("x")], ["close", I(1000), N_],
        RAW_ACCEPT, RAW_OTHER]
# generators kept open across calls, interleaved with the calls that change a state
EXT = [["accept", N_], ["receive"], ["send_text", S("x")], ["close", I(1000), N_], ["iter_open", "t"], ["iter_open", "b"],
       ["iter_step", 0], ["iter_step", 1], ["iter_close", 0]]
LOOP_PREFIX = [["accept", N_], ["iter_open", "t"]]


def wellformed_scripts(maxframes=3):
    for k in range(maxframes + 1):
        for kinds in itertools.product("tb", repeat=k):
            frames = [frame(kd, chr(97 + i)) for i, kd in enumerate(kinds)]
            yield [CONNECT] + frames
            for j in range(k + 1):
                yield [CONNECT] + frames[:j] + [disconnect()] + frames[j:]


def core_scripts(tier):
    a, b, c = frame("t", "a"), frame("b", "b"), frame("t", "c")
    out = [[CONNECT], [CONNECT, disconnect()], [CONNECT, a], [CONNECT, a, disconnect()],
           [CONNECT, b, a, disconnect()], [CONNECT, a, disconnect(), c]]
    if tier == "quick":
        out += [[CONNECT, a, b, c], [CONNECT, a, a, disconnect(1001, S("bye"))], [], [CONNECT, b]]
    return out


def ext_scripts():
    a, b, c = frame("t", "a"), frame("b", "b"), frame("t", "c")
    return [[CONNECT, a, b, disconnect(), c], [CONNECT, a, disconnect(1001, S("bye")), c], [CONNECT, a, c, b],
            [CONNECT, a, c, c, disconnect()], [CONNECT, disconnect(), a], [CONNECT, frame("t", "a", 1), b]]


def malformed_scripts():
    a = frame("t", "a")
    yield []
    yield [disconnect()]
    yield [a, CONNECT]
    yield [disconnect(), CONNECT, a]
    yield [CONNECT, CONNECT, a]
    yield [CONNECT, [["websocket.bogus"], []], a]
    yield [CONNECT, [[], [["text", S("a")]]], a]
    yield [[[], []], CONNECT]
    yield [[["websocket.accept"], []], CONNECT]
    yield [CONNECT, [["websocket.disconnect"], []], a]
    yield [CONNECT, [["websocket.disconnect"], [["reason", S("x")]]]]
    yield [CONNECT, disconnect(1001, S("going away")), a]
    yield [CONNECT, disconnect(1005, S(""))]
    yield [CONNECT, disconnect(0, N_)]
    yield [CONNECT, disconnect(1000, I(0)), a]
    yield [CONNECT, disconnect(1000, B("")), a]
    yield [CONNECT, disconnect(1000, B("r")), a]
    yield [CONNECT, [["websocket.disconnect"], [["code", N_], ["reason", I(7)]]]]
    yield [CONNECT, frame("t", "a", 1), frame("b", "b", 1), disconnect()]
    yield [CONNECT, [["websocket.receive"], []], a]
    yield [CONNECT, [["websocket.receive"], [["bytes", B("z")], ["text", S("a")]]], a]
    yield [CONNECT, [["websocket.receive"], [["bytes", N_], ["text", N_]]], disconnect()]
    yield [CONNECT, [["websocket.receive"], [["text", I(5)]]], disconnect()]
    yield [[["websocket.connect"], [["text", S("c")]]], a, disconnect()]
    yield [[["websocket.connect"], [["bytes", B("c")], ["code", I(1)]]], a]
    yield [CONNECT, a, disconnect(), disconnect(), CONNECT]
    yield [CONNECT, frame("t", "€\U0001f600"), frame("b", "\x00\xff"), disconnect(4000, S("é"))]


def seqs(alphabet, maxlen):
    for n in range(maxlen + 1):
        for seq in itertools.product(alphabet, repeat=n):
            yield [list(c) for c in seq]


def rand_value(rng):
    r = rng.random()
    if r < 0.25:
        return N_
    if r < 0.55:
        return S("".join(rng.choice("abé€") for _ in range(rng.randrange(0, 4))))
    if r < 0.8:
        return B("".join(chr(rng.randrange(256)) for _ in range(rng.randrange(0, 4))))
    return I(rng.choice([0, 1, 1000, 1001, 4999, -1]))


def rand_msg(rng, types):
    t = rng.choice(types)
    keys = sorted(rng.sample(["bytes", "code", "reason", "subprotocol", "text", "headers"], rng.randrange(0, 4)))
    return [[] if t is None else [t], [[k, rand_value(rng)] for k in keys]]


APP_TYPES = ["websocket.accept", "websocket.send", "websocket.close", "websocket.send", "websocket.close",
             "websocket.receive", "websocket.http.response.body", "", None]
SRV_TYPES = ["websocket.receive"] * 6 + ["websocket.disconnect", "websocket.connect", "websocket.close", None]


def rand_iter_call(rng, ng):
    """an operation on one of the ng generators created so far (sometimes on one that does not exist)"""
    r = rng.random()
    if ng == 0 or r < 0.15:
        return ["iter_open", rng.choice("tb")]
    i = rng.randrange(ng) if rng.random() < 0.95 else ng
    return ["iter_step", i] if r < 0.9 else ["iter_close", i]


def rand_calls(rng, n):
    out, ng = [], 0
    for _ in range(n):
        c = rand_iter_call(rng, ng) if rng.random() < 0.3 else rand_call(rng)
        if c[0] == "iter_open":
            ng += 1
        out.append(c)
    return out


def rand_loop(rng):
    """the shape of an application: accept, start iterating, do other things between the steps"""
    out = [["accept", rng.choice([N_, S("chat")])]] if rng.random() < 0.9 else []
    out.append(["iter_open", rng.choice("ttb")])
    ng = 1
    for _ in range(rng.randrange(2, 12)):
        out.append(["iter_step", rng.randrange(ng)])
        r = rng.random()
        if r < 0.35:
            out.append(rng.choice([["send_text", S("echo")], ["send_bytes", B("e")], ["receive"], ["receive_text"],
                                   ["close", I(1000), N_], RAW_CLOSE, RAW_SEND, ["iter_text", 1], ["accept", N_]]))
        elif r < 0.5:
            c = rand_iter_call(rng, ng)
            if c[0] == "iter_open":
                ng += 1
            out.append(c)
        elif r < 0.6:
            out.append(rand_call(rng))
    return [list(c) for c in out]


def rand_call(rng):
    k = rng.randrange(14)
    if k == 0:
        return ["accept", rng.choice([N_, S("graphql-ws"), S("")])]
    if k == 1:
        return ["receive"]
    if k == 2:
        return ["receive_text"]
    if k == 3:
        return ["receive_bytes"]
    if k == 4:
        return ["iter_text", rng.choice([0, 1, 2, 3, 20])]
    if k == 5:
        return ["iter_bytes", rng.choice([0, 1, 2, 3, 20])]
    if k == 6:
        return ["send_text", rand_value(rng)]
    if k == 7:
        return ["send_bytes", rand_value(rng)]
    if k == 8:
        return ["close", rng.choice([I(1000), I(1001), I(4000), N_]), rng.choice([N_, S("bye"), S("")])]
    if k in (9, 10):
        return ["send", rand_msg(rng, APP_TYPES)]
    return rng.choice([["accept", N_], ["receive"], ["receive_text"], ["send_text", S("hi")]])


def rand_script(rng):
    r = rng.random()
    n = rng.randrange(0, 7)
    frames = [frame(rng.choice("tb"), "".join(rng.choice("abc") for _ in range(rng.randrange(0, 3))) + str(i),
                    rng.randrange(2)) for i in range(n)]
    if r < 0.75:
        sc = [CONNECT] + frames
        if rng.random() < 0.7:
            j = rng.randrange(0, n + 1)
            sc = sc[:1 + j] + [disconnect(rng.choice([1000, 1001, 1005]), rng.choice([None, N_, S("bye"), S("")]))] + sc[1 + j:]
        return sc
    sc = [rand_msg(rng, SRV_TYPES) for _ in range(rng.randrange(0, 6))]
    if rng.random() < 0.6:
        sc = [CONNECT] + sc
    return sc


def cases(tier, rng):
    quick = tier == "quick"
    wf = list(wellformed_scripts(3))
    for calls in seqs(FULL, 2 if quick else 3):
        for sc in wf:
            yield "exhaustive-full", [sc, calls]
    cs_ = core_scripts(tier)
    lo = 3 if quick else 4
    for n in range(lo, (4 if quick else 6) + 1):
        for seq in itertools.product(CORE, repeat=n):
            calls = [list(c) for c in seq]
            for sc in (cs_ if n < 6 else cs_[1::2]):
                yield "exhaustive-core", [sc, calls]
    mal = list(malformed_scripts())
    for calls in seqs(FULL, 2 if quick else 3):
        if not calls:
            continue
        for sc in mal:
            yield "malformed-script", [sc, calls]
    for _ in range(6000 if quick else 60000):
        yield "random", [rand_script(rng), rand_calls(rng, rng.randrange(5, 15))]
    es = ext_scripts()
    for calls in seqs(EXT, 4 if quick else 5):
        for sc in es[:3]:
            yield "exhaustive-generators", [sc, calls]
    for calls in seqs(EXT, 3 if quick else 4):
        if calls:
            for sc in (es if quick else es[:4]):
                yield "exhaustive-generators", [sc, [list(c) for c in LOOP_PREFIX] + calls]
    for _ in range(3000 if quick else 30000):
        yield "random-loop", [rand_script(rng), rand_loop(rng)]
    yield from denial_cases(tier, rng)
    yield from shortcut_cases(tier, rng)


def search_cases(tier, rng, mism):
    yield from cases("thorough" if tier == "quick" else tier, rng)


# ---------------------------------------------------------------- implementation driver


class Blocked(Exception):
    """the scripted server has nothing more to deliver (a real server would block)"""


def py_value(v):
    t = v[0]
    if t == "n":
        return None
    if t == "s":
        return v[1]
    if t == "b":
        return v[1].encode("latin-1") if isinstance(v[1], str) else bytes(v[1])
    if t == "i":
        return v[1]
    raise ValueError(v)


def py_msg(m):
    d = {}
    if m[0]:
        d["type"] = m[0][0]
    for k, v in m[1]:
        d[k] = py_value(v)
    return d


def c_value(v):
    if v is None:
        return ["n"]
    if isinstance(v, bool):
        return ["?", repr(v)]
    if isinstance(v, str):
        return ["s", v]
    if isinstance(v, (bytes, bytearray)):
        return ["b", bytes(v).decode("latin-1")]
    if isinstance(v, int):
        return ["i", v]
    return ["?", repr(v)[:60]]


def c_msg(m):
    if not isinstance(m, dict):
        return ["?", repr(m)[:60]]
    return [[m["type"]] if "type" in m else [], [[k, c_value(m[k])] for k in sorted(m) if k != "type"]]


def drive(coro):
    """run a coroutine that never really suspends"""
    try:
        coro.send(None)
    except StopIteration as e:
        return e.value
    coro.close()
    raise RuntimeError("coroutine suspended")


def impl_session(case):
    from baize.asgi.shortcut import websocket_session
    from baize.asgi.websocket import WebSocketDisconnect, WebSocketState
    st = {WebSocketState.CONNECTING: 0, WebSocketState.CONNECTED: 1, WebSocketState.DISCONNECTED: 2}
    script, calls = case
    msgs = [py_msg(m) for m in script]
    pos = [0]
    log = []
    box = {}
    out = []

    async def receive():
        if pos[0] >= len(msgs):
            log.append(["r"])
            raise Blocked()
        m = msgs[pos[0]]
        pos[0] += 1
        log.append(["r", c_msg(m)])
        return m

    async def send(m):
        log.append(["f", c_msg(m), st.get(box["ws"].application_state, -1)])

    def c_exc(e):
        if isinstance(e, WebSocketDisconnect):
            return ["exc", "WebSocketDisconnect", c_value(e.code), c_value(e.reason)]
        if isinstance(e, KeyError):
            return ["exc", "KeyError", e.args[0] if e.args and isinstance(e.args[0], str) else repr(e.args)]
        return ["exc", type(e).__name__]

    gens = []      # the async generators of this case, kept across its calls

    async def one(ws, c):
        name = c[0]
        if name == "iter_open":
            gens.append(ws.iter_text() if c[1] == "t" else ws.iter_bytes())
            return ["ok"]
        if name in ("iter_step", "iter_close"):
            if not 0 <= c[1] < len(gens):
                return ["noiter"]
            if name == "iter_close":
                r = await gens[c[1]].aclose()
                return ["ok"] if r is None else ["?", repr(r)[:60]]
            try:
                v = await gens[c[1]].__anext__()
            except StopAsyncIteration:
                return ["stop"]
            return ["val", c_value(v)]
        if name == "accept":
            await ws.accept(py_value(c[1]))
            return ["ok"]
        if name == "receive":
            return ["msg", c_msg(await ws.receive())]
        if name == "receive_text":
            return ["val", c_value(await ws.receive_text())]
        if name == "receive_bytes":
            return ["val", c_value(await ws.receive_bytes())]
        if name in ("iter_text", "iter_bytes"):
            agen = ws.iter_text() if name == "iter_text" else ws.iter_bytes()
            items, term = [], ["limit"]
            try:
                for _ in range(c[1]):
                    try:
                        v = await agen.__anext__()
                    except StopAsyncIteration:
                        term = ["done"]
                        break
                    items.append(c_value(v))
            except Exception as e:
                term = c_exc(e)
            await agen.aclose()
            return ["iter", items, term]
        if name == "send_text":
            r = await ws.send_text(py_value(c[1]))
        elif name == "send_bytes":
            r = await ws.send_bytes(py_value(c[1]))
        elif name == "close":
            r = await ws.close(py_value(c[1]), py_value(c[2]))
        elif name == "send":
            r = await ws.send(py_msg(c[1]))
        else:
            return ["badcall"]
        return ["ok"] if r is None else ["?", repr(r)[:60]]

    async def view(ws):
        box["ws"] = ws
        out.append([st.get(ws.client_state, -1), st.get(ws.application_state, -1)])
        for c in calls:
            del log[:]
            try:
                o = await one(ws, c)
            except Exception as e:
                o = c_exc(e)
            out.append([o, list(log), st.get(ws.client_state, -1), st.get(ws.application_state, -1)])
        for g in gens:
            try:
                await g.aclose()
            except Exception:
                pass

    scope = {"type": "websocket", "path": "/", "headers": [], "query_string": b"", "subprotocols": []}
    if (len(script) + len(calls)) % 2:
        # the scope mapping is the server's: one that has carried another connection before (a server or a fixture that
        # reuses the dict) is as good as a new one; a new WebSocket over it starts its handshake from the beginning
        earlier = [{"type": "websocket.connect"}, {"type": "websocket.receive", "text": "x"},
                   {"type": "websocket.disconnect", "code": 1001}]
        kind = len(calls) % 3

        async def prev_receive():
            if not earlier:
                raise Blocked()
            return earlier.pop(0)

        async def prev_send(m):
            pass

        async def prev_view(ws):
            if kind == 0:
                await ws.accept()
                await ws.receive_text()
                await ws.send_text("y")
                await ws.close()
            elif kind == 1:
                await ws.receive()
                await ws.close(1008)
            else:
                await ws.accept()

        try:
            drive(websocket_session(prev_view)(scope, prev_receive, prev_send))
        except Exception:
            pass
    drive(websocket_session(view)(scope, receive, send))
    return out


# ---------------------------------------------------------------- the property on the live observations

LETTER = {"websocket.accept": "a", "websocket.send": "s", "websocket.close": "c"}
LEGAL = re.compile(r"(?:as*c?|c)?\Z")
STATE_AT_FORWARD = {"a": 1, "s": 1, "c": 2}


def mtype(m):
    return m[0][0] if m[0] else None


def fields(m):
    return {k: v for k, v in m[1]}


def raised(o):
    return o[0] == "exc" or (o[0] == "iter" and o[2][0] == "exc")


def plain_connect_first(script):
    if not script:
        return True
    m = script[0]
    return mtype(m) == "websocket.connect" and "text" not in fields(m) and "bytes" not in fields(m)


def expected_forward(c):
    n = c[0]
    if n == "accept":
        return [["websocket.accept"], [["subprotocol", c[1]]]]
    if n == "send_text":
        return [["websocket.send"], [["text", c[1]]]]
    if n == "send_bytes":
        return [["websocket.send"], [["bytes", c[1]]]]
    if n == "close":
        return [["websocket.close"], [["code", c[1]], ["reason", c[2]]]]
    if n == "send":
        return c[1]
    return None


def oracle_session(case, obs):
    if obs and obs[0] == "driver-exception":
        return ("driver-" + str(obs[1]), "driving the call sequence failed: %s %s" % (obs[1], obs[2]))
    script, calls = case
    if len(obs) != len(calls) + 1:
        return ("short-observation", "expected %d call records, got %d" % (len(calls), len(obs) - 1))
    if obs[0] != [0, 0]:
        return ("initial-state", "a new WebSocket reports states %r, not CONNECTING/CONNECTING" % (obs[0],))
    wf = plain_connect_first(script)
    cs, aps = 0, 0
    letters = ""
    delivered = 0          # script messages handed over so far
    disc_seen = False      # a disconnect was handed over
    closed_by_close = False
    gens = []              # the generators created so far: [payload key, finished]
    for idx, (c, rec) in enumerate(zip(calls, obs[1:])):
        o, log, cs2, aps2 = rec
        where = "call %d %r (states before %d/%d)" % (idx, c, cs, aps)
        # which payload a typed receive hands out (None: not a typed receive); a step of a generator that is
        # still running is a typed receive, creating / closing a generator and stepping a finished one do nothing
        n = c[0]
        key = None
        if n in ("receive_text", "iter_text"):
            key = "text"
        elif n in ("receive_bytes", "iter_bytes"):
            key = "bytes"
        elif n in ("iter_open", "iter_step", "iter_close"):
            g = None
            if n == "iter_open":
                gens.append(["text" if c[1] == "t" else "bytes", False])
                want_o = ["ok"]
            elif not 0 <= c[1] < len(gens):
                want_o = ["noiter"]
            else:
                g = gens[c[1]]
                want_o = ["ok"] if n == "iter_close" else ["stop"]
            if n == "iter_step" and g is not None and not g[1]:
                key = g[0]
                if o[0] != "val":
                    g[1] = True          # ended, or raised: the generator is finished
            else:
                if o != want_o or log or (cs2, aps2) != (cs, aps):
                    return ("generator-bookkeeping-acted", "%s gave %r, did %r, states %d/%d -> %d/%d; expected %r and "
                            "nothing else" % (where, o, log, cs, aps, cs2, aps2, want_o))
                if n == "iter_close" and g is not None:
                    g[1] = True
        # states only move forward
        if not (cs <= cs2 <= 2 and aps <= aps2 <= 2):
            return ("state-moved-backwards", "%s: states went from %d/%d to %d/%d" % (where, cs, aps, cs2, aps2))
        fw = [e for e in log if e[0] == "f"]
        rc = [e for e in log if e[0] == "r"]
        # forwarded events: legal language, state already switched when forwarding
        for e in fw:
            l = LETTER.get(mtype(e[1]), "x")
            letters += l
            if not LEGAL.match(letters):
                return ("illegal-forwarded-sequence", "%s forwarded %r; sequence of forwarded types so far %r is not "
                        "accept send* close? | close" % (where, e[1], letters))
            if e[2] != STATE_AT_FORWARD[l]:
                return ("forwarded-before-transition", "%s: %r reached the server while application_state was %d"
                        % (where, e[1], e[2]))
        # a call that raises forwards nothing and leaves application_state alone
        if raised(o) and (fw or aps2 != aps):
            return ("raised-but-forwarded", "%s raised %r but forwarded %r / application_state %d -> %d"
                    % (where, o, fw, aps, aps2))
        # send-like calls: returned normally <-> exactly their message was forwarded
        exp = expected_forward(c)
        if exp is None:
            if fw:
                return ("receive-forwarded", "%s forwarded %r" % (where, fw))
        elif c[0] == "close":
            if o != ["ok"]:
                return ("close-raised", "%s: close() gave %r" % (where, o))
            if aps2 != 2:
                return ("close-not-closed", "%s: application_state %d after close()" % (where, aps2))
            if aps == 2 or closed_by_close:
                if log or (cs2, aps2) != (cs, aps):
                    return ("close-not-idempotent", "%s: close() on a closed connection did %r, states %d/%d -> %d/%d"
                            % (where, log, cs, aps, cs2, aps2))
            elif [e[1] for e in fw] != [exp]:
                return ("close-forwarded-wrong", "%s forwarded %r, expected one %r" % (where, fw, exp))
            closed_by_close = True
        else:
            if o == ["ok"] and [e[1] for e in fw] != [exp]:
                return ("silent-send", "%s returned normally but forwarded %r, expected one %r" % (where, fw, exp))
            # accept() waits for the connect event before it answers
            if c[0] == "accept" and o == ["ok"]:
                if cs2 == 0:
                    return ("accept-without-connect", "%s returned with client_state still CONNECTING" % where)
                if cs == 0 and not (len(log) == 2 and log[0][0] == "r" and len(log[0]) == 2
                                    and mtype(log[0][1]) == "websocket.connect" and log[1][0] == "f"):
                    return ("accept-without-connect", "%s did %r instead of consuming websocket.connect and then "
                            "forwarding websocket.accept" % (where, log))
            if o != ["ok"] and not raised(o):
                return ("send-odd-outcome", "%s gave %r" % (where, o))
        # payloads are read between accept and close only: a typed receive (a step of a running iteration
        # included) made while the application is not CONNECTED raises without asking the server
        if key is not None and aps != 1:
            if rc or (cs2, aps2) != (cs, aps):
                return ("typed-receive-not-connected", "%s: a typed receive with application_state %d asked the server: %r, "
                        "states -> %d/%d" % (where, aps, rc, cs2, aps2))
            if not (raised(o) or (o[0] == "iter" and c[1] == 0)):
                return ("typed-receive-not-connected", "%s: a typed receive with application_state %d gave %r instead of "
                        "raising" % (where, aps, o))
        # after the application closed only receive() (and accept(), waiting for the connect event) may ask the server
        if aps == 2 and n not in ("receive", "accept") and (log or cs2 != cs):
            return ("server-touched-after-close", "%s: the application had closed, yet the call did %r, client_state -> %d"
                    % (where, log, cs2))
        # receive discipline
        for e in rc:
            if wf and disc_seen:
                return ("receive-after-disconnect", "%s called the server's receive() after websocket.disconnect "
                        "had been delivered" % where)
            if len(e) == 1:
                if delivered != len(script):
                    return ("harness-script", "%s: blocked before the script ended" % where)
            else:
                if delivered >= len(script) or e[1] != script[delivered]:
                    return ("delivery-order", "%s: server delivered %r, script position %d" % (where, e[1], delivered))
                delivered += 1
                if mtype(e[1]) == "websocket.disconnect":
                    disc_seen = True
        # frames are returned in order, exactly once
        if wf:
            frames_in = [e[1] for e in rc if len(e) == 2 and mtype(e[1]) == "websocket.receive"]
            if n == "receive":
                got = [o[1]] if o[0] == "msg" and mtype(o[1]) == "websocket.receive" else []
                if got != frames_in:
                    return ("frame-lost-or-duplicated", "%s consumed frames %r but returned %r" % (where, frames_in, o))
            elif key is not None:
                want, missing = [], False
                for f in frames_in:
                    if missing:
                        return ("frame-lost-or-duplicated", "%s consumed %r after a KeyError" % (where, f))
                    if key in fields(f):
                        want.append(fields(f)[key])
                    else:
                        missing = True
                got = [o[1]] if o[0] == "val" else (o[1] if o[0] == "iter" else [])
                if got != want:
                    return ("frame-lost-or-duplicated", "%s consumed frames %r and returned %r, expected %r"
                            % (where, frames_in, got, want))
                err = o if o[0] == "exc" else (o[2] if o[0] == "iter" else None)
                if missing and err != ["exc", "KeyError", key]:
                    return ("frame-lost-or-duplicated", "%s: a frame without %r was consumed, outcome %r" % (where, key, o))
            elif frames_in:
                return ("frame-lost-or-duplicated", "%s consumed frames %r" % (where, frames_in))
        cs, aps = cs2, aps2
    return None


def nontrivial_session(case, obs):
    if not obs or obs[0] == "driver-exception":
        return False
    nf = sum(1 for rec in obs[1:] for e in rec[1] if e[0] == "f")
    disc = any(len(e) == 2 and e[0] == "r" and mtype(e[1]) == "websocket.disconnect" for rec in obs[1:] for e in rec[1])
    return nf >= 2 or disc or any(raised(rec[0]) for rec in obs[1:])


def shrink_session(case):
    script, calls = case
    for i in range(len(calls)):
        yield [script, calls[:i] + calls[i + 1:]]
    for i in range(len(script)):
        yield [script[:i] + script[i + 1:], calls]
    for i, c in enumerate(calls):
        if c[0] in ("iter_text", "iter_bytes") and c[1] > 0:
            yield [script, calls[:i] + [[c[0], c[1] - 1]] + calls[i + 1:]]


# ================================================================ the denial response and the shortcuts

EXT_SCOPE = {0: None, 1: {}, 2: {"websocket.http.response": {}}, 3: {"other.extension": {}}}
WS_CLOSE_ONLY = [["websocket.close"], []]


def hmsg(t, **fields):
    """a message of a scripted application; entries in key order"""
    return [[] if t is None else [t], [[k, fields[k]] for k in sorted(fields)]]


def h_start(status=403, **more):
    return hmsg("http.response.start", headers=B("content-type: text/plain"), status=I(status), **more)


def h_body(body="", more=0):
    return hmsg("http.response.body", body=B(body), more_body=I(more))


def snd(m, catches=0):
    return ["s", m, catches]


RCV = ["r"]
TRAILERS = hmsg("http.response.trailers", headers=B(""))

PROGS = [
    ["prog", [snd(h_start()), RCV, snd(h_body("no", 1)), snd(h_body())], 0],            # legal, waits for the disconnect
    ["prog", [snd(h_start(200)), snd(TRAILERS), snd(h_body())], 0],                      # an illegal extra event type
    ["prog", [snd(h_start(200)), snd(TRAILERS, 1), snd(h_body())], 0],                   # ... swallowed by the application
    ["prog", [snd(h_start(500)), snd(h_body())], 1],                                     # raises after a complete response
    ["prog", [RCV, RCV, snd(h_start()), snd(h_body())], 0],                              # asks for the disconnect twice
    ["prog", [snd(hmsg(None, status=I(200)))], 0],                                       # an event without "type"
    ["prog", [], 0],                                                                     # sends nothing
    ["prog", [snd(h_start())], 0],                                                       # no body
    ["prog", [snd(h_body())], 0],                                                        # body first
    ["prog", [snd(hmsg("websocket.close", code=I(1000)))], 0],                           # speaks websocket itself
    ["prog", [snd(h_start()), snd(h_body()), snd(h_body())], 0],                         # something after the final body
    ["prog", [snd(h_start(403, trailers=I(1))), snd(h_body("a", 1)), snd(h_body("b", 1)), snd(h_body("", 0))], 0],
    ["prog", [snd(h_start()), snd(hmsg("http.response.body"))], 0],                      # body entries left to their defaults
    ["prog", [snd(h_start()), RCV], 1],                                                  # raises midway
]
REALS = [["none"], ["r404"], ["text", 403, "denied"], ["text", 200, ""],
         ["stream", [], 0], ["stream", ["a"], 0], ["stream", ["a", "bc"], 0], ["stream", ["a", "", "c"], 0]]
WATCHED = [["stream", ["a"], 1], ["stream", ["a", "b"], 1], ["stream", ["a", "b", "c"], 1]]


def denial_scripts():
    a, b = frame("t", "a"), frame("b", "b")
    typeless = [[], [["code", I(1000)]]]
    return [[], [CONNECT], [disconnect()], [CONNECT, disconnect()], [CONNECT, a, disconnect(1001, S("bye")), b],
            [CONNECT, a, b], [disconnect(), disconnect(1001)], [CONNECT, typeless, disconnect()], [typeless],
            [a, b, disconnect(1005, S("")), CONNECT], [CONNECT, a, b, a, disconnect()],
            [[["http.disconnect"], []], [["websocket.close"], []], disconnect()]]


def delivers_disconnect(script):
    """the wrapped receive returns on this script: a disconnect, every event before it has a type"""
    for m in script:
        if not m[0]:
            return False
        if m[0][0] == "websocket.disconnect":
            return True
    return False


H_TYPES = ["http.response.start", "http.response.body", "http.response.body", "http.response.body", "http.response.trailers",
           "http.response.zerocopysend", "websocket.close", "websocket.http.response.start", "http.disconnect", "", None]


def rand_prog(rng):
    acts = []
    if rng.random() < 0.7:       # mostly a legal response with noise
        acts.append(snd(h_start(rng.choice([200, 403, 404, 500]))))
        n = rng.randrange(0, 4)
        for i in range(n):
            acts.append(snd(h_body(rng.choice(["", "x", "yz"]), 1)))
        acts.append(snd(h_body(rng.choice(["", "end"]), 0)))
        for _ in range(rng.randrange(0, 3)):
            acts.insert(rng.randrange(0, len(acts) + 1), RCV)
        if rng.random() < 0.4:
            t = rng.choice(H_TYPES)
            acts.insert(rng.randrange(0, len(acts) + 1), snd(hmsg(t, more_body=rng.choice([I(0), I(1), N_])), rng.randrange(2)))
    else:
        for _ in range(rng.randrange(0, 6)):
            if rng.random() < 0.3:
                acts.append(RCV)
            else:
                t = rng.choice(H_TYPES)
                f = {}
                if rng.random() < 0.6:
                    f["more_body"] = rng.choice([I(0), I(1), N_, S(""), S("x")])
                if rng.random() < 0.5:
                    f["body"] = B(rng.choice(["", "b"]))
                if rng.random() < 0.3:
                    f["status"] = I(rng.choice([200, 404]))
                acts.append(snd(hmsg(t, **f), rng.randrange(2)))
    return ["prog", [list(a) for a in acts], 1 if rng.random() < 0.15 else 0]


def denial_cases(tier, rng):
    quick = tier == "quick"
    scripts = denial_scripts()
    for resp in REALS + PROGS:
        for ext in (0, 1, 2, 3):
            for sc in scripts:
                yield "denial", ["denial", "websocket", ext, resp, sc]
    for resp in WATCHED:
        for ext in (0, 2):
            for sc in scripts:
                if delivers_disconnect(sc):
                    yield "denial", ["denial", "websocket", ext, resp, sc]
    for stype in ("http", "lifespan", "websockets", ""):
        for resp in (REALS[0], REALS[1], REALS[6], PROGS[0]):
            for ext in (0, 2):
                yield "denial", ["denial", stype, ext, resp, scripts[4]]
    for _ in range(1500 if quick else 15000):
        sc = rand_script(rng) if rng.random() < 0.7 else rng.choice(scripts)
        yield "denial-random", ["denial", "websocket", rng.choice([2, 2, 2, 0, 1, 3]), rand_prog(rng), sc]


HTTP_SCRIPTS = [[], [[["http.request"], [["body", B("")], ["more_body", I(0)]]]],
                [[["http.request"], [["body", B("x")], ["more_body", I(0)]]], [["http.disconnect"], []]]]
VIEWS = [["r404"], ["text", 200, "hello"], ["text", 403, ""], ["stream", ["a", "bc"], 0], PROGS[0], PROGS[1], PROGS[3], PROGS[6]]
WS_CALLS = [[], [["accept", N_]], [["accept", N_], ["send_text", S("x")], ["receive_text"], ["close", I(1000), N_]],
            [["close", I(1000), N_], ["send_text", S("late")]], [["receive"], ["receive"], ["iter_text", 3]]]


def shortcut_cases(tier, rng):
    wss = denial_scripts()
    for view in VIEWS:
        for ext in (0, 1, 2, 3):
            for sc in wss[:6]:
                yield "request_response", ["rr", "websocket", ext, view, sc]
        for sc in HTTP_SCRIPTS:
            for ext in (0, 2):
                yield "request_response", ["rr", "http", ext, view, sc]
        for stype in ("lifespan", ""):
            yield "request_response", ["rr", stype, 2, view, []]
    for calls in WS_CALLS:
        for sc in HTTP_SCRIPTS + wss[:2]:
            yield "websocket_session", ["ws", "http", sc, calls]
        for sc in wss[:7]:
            yield "websocket_session", ["ws", "websocket", sc, calls]
        for stype in ("lifespan", ""):
            yield "websocket_session", ["ws", stype, wss[3], calls]
    for _ in range(300 if tier == "quick" else 3000):
        yield "websocket_session", ["ws", "websocket", rand_script(rng), rand_calls(rng, rng.randrange(1, 8))]
        yield "request_response", ["rr", rng.choice(["websocket", "websocket", "http"]), rng.randrange(4), rand_prog(rng),
                                   rng.choice(wss)]


# ---------------------------------------------------------------- driving the real classes


class InnerError(Exception):
    """the scripted application's own exception"""


def c_hvalue(v):
    """values of HTTP events: booleans as 0 / 1, a header list as one bytes value"""
    if isinstance(v, bool):
        return ["i", int(v)]
    if isinstance(v, (list, tuple)):
        try:
            return ["b", b"\r\n".join(bytes(k) + b": " + bytes(x) for k, x in v).decode("latin-1")]
        except Exception:
            return ["?", repr(v)[:60]]
    return c_value(v)


def c_hmsg(m):
    if not isinstance(m, dict):
        return ["?", repr(m)[:60]]
    return [[m["type"]] if "type" in m else [], [[k, c_hvalue(m[k])] for k in sorted(m) if k != "type"]]


def prog_app(actions, raises):
    async def app(scope, receive, send):
        for a in actions:
            if a[0] == "s":
                try:
                    await send(py_msg(a[1]))
                except (ValueError, KeyError):
                    if not a[2]:
                        raise
            else:
                await receive()
        if raises:
            raise InnerError()
    return app


def build_app(recipe):
    """a fresh application object (the response classes keep state)"""
    from baize.asgi import responses as R
    k = recipe[0]
    if k == "r404":
        return R.Response(404)
    if k == "text":
        return R.PlainTextResponse(recipe[2].encode("latin-1"), recipe[1])
    if k == "stream":
        chunks, suspend = [c.encode("latin-1") for c in recipe[1]], recipe[2]

        async def agen():
            for c in chunks:
                if suspend:
                    await asyncio.sleep(0)
                yield c
        return R.StreamResponse(agen())
    if k == "prog":
        return prog_app(recipe[1], recipe[2])
    raise ValueError(recipe)


def run_app(coro_fn):
    """run an application call on the worker's event loop; cancelled helper tasks get their turn"""
    async def main():
        try:
            return await coro_fn()
        finally:
            for _ in range(3):
                await asyncio.sleep(0)
    lp = util.loop()
    lp.set_exception_handler(lambda l, c: None)
    return lp.run_until_complete(main())


def make_scope(stype, ext):
    scope = {"type": stype, "path": "/", "headers": [], "query_string": b"", "subprotocols": [], "method": "GET"}
    if EXT_SCOPE[ext] is not None:
        scope["extensions"] = dict(EXT_SCOPE[ext])
    return scope


def recipe_actions(recipe, script):
    """what the application does with the two callables it is given, as the model's action list.  A scripted
    application is its own list; a real response class is run bare, against a receive that answers
    http.disconnect (when the case's server would deliver a disconnect) and a recording send."""
    if recipe[0] == "prog":
        return [[list(a) for a in recipe[1]], recipe[2]]
    acts = []
    answers = delivers_disconnect(script)

    async def brecv():
        acts.append(["r"])
        if answers:
            return {"type": "http.disconnect"}
        raise Blocked()

    async def bsend(m):
        acts.append(["s", c_hmsg(m), 0])

    raises = 0
    try:
        run_app(lambda: build_app(recipe)(make_scope("http", 0), brecv, bsend))
    except Exception:
        raises = 1
    return [acts, raises]


def ENCODE(case):
    if not isinstance(case[0], str) or case[0] == "ws":
        return core.enc_line(case)
    kind, stype, ext, resp, script = case
    inner = [] if resp[0] == "none" else recipe_actions(resp, script)
    return core.enc_line([kind, stype, 1 if ext == 3 else ext, inner, script])


def c_hexc(e):
    if isinstance(e, ValueError):
        return ["exc", "ValueError", str(e)]
    if isinstance(e, KeyError):
        return ["exc", "KeyError", e.args[0] if e.args and isinstance(e.args[0], str) else repr(e.args)]
    if isinstance(e, InnerError):
        return ["exc", "Inner"]
    return ["exc", type(e).__name__]


class Server:
    """the scripted server of a denial / shortcut case"""

    def __init__(self, script):
        self.msgs = [py_msg(m) for m in script]
        self.pos = 0
        self.log = []

    async def receive(self):
        if self.pos >= len(self.msgs):
            self.log.append(["r"])
            raise Blocked()
        m = self.msgs[self.pos]
        self.pos += 1
        self.log.append(["r", c_msg(m)])
        return m

    async def send(self, m):
        self.log.append(["f", c_hmsg(m)])

    def spy(self, app):
        """the application, with what its receive returns written to the log"""
        log = self.log

        async def spied(scope, receive, send):
            async def r():
                m = await receive()
                log.append(["g", c_hmsg(m)])
                return m
            await app(scope, r, send)
        return spied

    def result(self, coro_fn):
        try:
            r = run_app(coro_fn)
            out = ["ok"] if r is None else ["?", repr(r)[:60]]
        except Exception as e:
            out = c_hexc(e)
        return [out, self.log, len(self.msgs) - self.pos]


def impl_denial(case):
    from baize.asgi.websocket import WebsocketDenialResponse
    _, stype, ext, resp, script = case
    srv = Server(script)
    inner = None if resp[0] == "none" else srv.spy(build_app(resp))
    scope = make_scope(stype, ext)
    return srv.result(lambda: WebsocketDenialResponse(inner)(scope, srv.receive, srv.send))


def impl_rr(case):
    from baize.asgi.shortcut import request_response
    _, stype, ext, viewr, script = case
    srv = Server(script)
    called = [0]

    async def view(request):
        called[0] += 1
        return srv.spy(build_app(viewr))

    scope = make_scope(stype, ext)
    r = srv.result(lambda: request_response(view)(scope, srv.receive, srv.send))
    return [called[0]] + r


def impl_ws(case):
    from baize.asgi.shortcut import websocket_session
    _, stype, script, calls = case
    if stype == "websocket":
        return ["session"] + impl_session([script, calls])
    srv = Server(script)
    called = [0]

    async def view(ws):
        called[0] += 1

    r = srv.result(lambda: websocket_session(view)(make_scope(stype, 0), srv.receive, srv.send))
    if called[0]:
        return ["session", "view-called-on", stype] + r
    if r == [["exc", "AssertionError"], [], len(script)]:
        return ["assert"]
    return ["http"] + r


def impl(case):
    if not isinstance(case[0], str):
        return impl_session(case)
    return {"denial": impl_denial, "rr": impl_rr, "ws": impl_ws}[case[0]](case)


# ---------------------------------------------------------------- the property on the live observations (denial, shortcuts)


def h_more(m):
    """message.get("more_body", False) by truth value, on the wire form"""
    v = fields(m).get("more_body")
    return v is not None and v not in (["n"], ["s", ""], ["b", ""], ["i", 0])


def http_legal(msgs):
    """start (body more)* (body final) over http.response.* messages in wire form"""
    if not msgs or mtype(msgs[0]) != "http.response.start":
        return False
    bodies = msgs[1:]
    if not bodies or any(mtype(b) != "http.response.body" for b in bodies):
        return False
    return all(h_more(b) for b in bodies[:-1]) and not h_more(bodies[-1])


def denial_shape(fw, complete):
    """websocket.http.response.start, then bodies of which only the last may be final; complete: and it is"""
    if not fw:
        return not complete
    if mtype(fw[0]) != "websocket.http.response.start":
        return False
    bodies = fw[1:]
    if any(mtype(b) != "websocket.http.response.body" for b in bodies):
        return False
    if any(not h_more(b) for b in bodies[:-1]):
        return False
    return not complete or (bool(bodies) and not h_more(bodies[-1]))


def expected_real(recipe):
    """(status, body pieces) the real response classes answer with"""
    if recipe[0] == "r404":
        return 404, [""]
    if recipe[0] == "text":
        return recipe[1], [recipe[2]]
    return 200, None


def check_receive_side(where, script, events, asks_once):
    """the server's events in order; http.disconnect handed over exactly for a delivered websocket.disconnect"""
    delivered, disc_seen, pending = 0, False, None
    for e in events:
        if pending is not None:
            want = [["http.disconnect"], pending[1]]
            if e != ["g", want]:
                return ("disconnect-not-handed-over", "%s: websocket.disconnect %r was delivered, the next event is %r "
                        "instead of handing over %r" % (where, pending, e, want))
            pending = None
            continue
        if e[0] == "g":
            return ("handed-over-without-disconnect", "%s: the inner response's receive returned %r although the server "
                    "had not just delivered websocket.disconnect" % (where, e[1]))
        if e[0] == "r":
            if disc_seen and asks_once:
                return ("receive-after-disconnect", "%s: the server's receive() was called after websocket.disconnect "
                        "had been delivered" % where)
            if len(e) == 1:
                if delivered != len(script):
                    return ("harness-script", "%s: blocked before the script ended" % where)
            else:
                if delivered >= len(script) or e[1] != script[delivered]:
                    return ("delivery-order", "%s: server delivered %r, script position %d" % (where, e[1], delivered))
                delivered += 1
                if mtype(e[1]) == "websocket.disconnect":
                    disc_seen, pending = True, e[1]
    if pending is not None:
        return ("disconnect-not-handed-over", "%s: websocket.disconnect was delivered and not handed over" % where)
    return None


def oracle_denial(case, obs, where=None, resp=None):
    _, stype, ext, resp_case, script = case
    resp = resp_case if resp is None else resp
    where = where or "WebsocketDenialResponse(%r) on a %r scope, extensions %r" % (resp, stype, EXT_SCOPE[ext])
    if len(obs) != 3:
        return ("short-observation", "%s: %r" % (where, obs))
    out, events, left = obs
    fw = [e[1] for e in events if e[0] == "f"]
    nrecv = sum(1 for e in events if e[0] == "r")
    if stype != "websocket":
        if out != ["exc", "AssertionError"] or events:
            return ("denial-on-foreign-scope", "%s: outcome %r, events %r; expected AssertionError and nothing else"
                    % (where, out, events))
        return None
    for m in fw:
        t = mtype(m)
        if t is None or t.startswith("http."):
            return ("http-event-on-websocket", "%s forwarded %r to a websocket server" % (where, m))
    plain = resp[0] == "none" or ext != 2
    if plain:
        for m in fw:
            if (mtype(m) or "").startswith("websocket.http.response"):
                return ("extension-event-not-offered", "%s forwarded %r although %s" % (
                    where, m, "no response was given" if resp[0] == "none" else "the server does not offer websocket.http.response"))
        if out != ["ok"] or events != [["f", WS_CLOSE_ONLY]]:
            return ("denial-not-plain-close", "%s: outcome %r, events %r; expected exactly websocket.close" % (where, out, events))
        if left != len(script):
            return ("denial-consumed-events", "%s: %d server events were consumed" % (where, len(script) - left))
        return None
    # a response through the extension
    for m in fw:
        if mtype(m) not in ("websocket.http.response.start", "websocket.http.response.body"):
            return ("foreign-event-forwarded", "%s forwarded %r" % (where, m))
    if resp[0] == "prog":
        sent = [a[1] for a in resp[1] if a[0] == "s"]
        legal_inner = http_legal(sent)
        asks = sum(1 for a in resp[1] if a[0] == "r")
    else:
        sent, legal_inner, asks = None, True, 1
    if legal_inner:
        if out[:2] == ["exc", "ValueError"]:
            return ("legal-response-refused", "%s: the response's events are a legal HTTP response, yet %r" % (where, out))
        ended = out in (["ok"], ["exc", "Inner"])
        if not denial_shape(fw, ended):
            return ("illegal-denial-sequence", "%s (outcome %r) forwarded %r: not %s websocket.http.response.start "
                    "(body more)* (body final)" % (where, out, fw, "a complete" if ended else "a prefix of"))
        if ended and sent is not None:
            want = [[["websocket." + mtype(m)], m[1]] for m in sent]
            if fw != want:
                return ("denial-not-transparent", "%s forwarded %r, the response sent %r" % (where, fw, sent))
        if ended and sent is None:
            status, pieces = expected_real(resp)
            got_status = fields(fw[0]).get("status")
            got = [fields(b).get("body", ["b", ""])[1] for b in fw[1:]]
            if got_status != ["i", status]:
                return ("denial-wrong-status", "%s: status %r, expected %d" % (where, got_status, status))
            if pieces is not None and got != pieces:
                return ("denial-wrong-body", "%s: body events %r, expected %r" % (where, got, pieces))
            if pieces is None and (got[-1] != "" or got[:-1] != list(resp[1])[:len(got) - 1]
                                   or (not resp[2] and len(got) != len(resp[1]) + 1)):
                return ("denial-wrong-body", "%s: body events %r for chunks %r" % (where, got, resp[1]))
    elif out[:2] == ["exc", "ValueError"]:
        # the first unsupported event the application does not swallow itself
        bad = [a[1] for a in resp[1] if a[0] == "s" and not a[2]
               and mtype(a[1]) not in ("http.response.start", "http.response.body")]
        if not bad or out[2] != "Unsupported message type: %s" % mtype(bad[0]):
            return ("wrong-valueerror", "%s raised %r; unsupported events sent: %r" % (where, out, bad))
    r = check_receive_side(where, script, events, asks <= 1)
    if r:
        return r
    if left != len(script) - sum(1 for e in events if e[0] == "r" and len(e) == 2):
        return ("script-accounting", "%s: %d events left" % (where, left))
    if resp[0] in ("r404", "text") and nrecv:
        return ("needless-receive", "%s asked the server %d times" % (where, nrecv))
    return None


def oracle_rr(case, obs):
    _, stype, ext, view, script = case
    where = "request_response(view -> %r) on a %r scope, extensions %r" % (view, stype, EXT_SCOPE[ext])
    if len(obs) != 4:
        return ("short-observation", "%s: %r" % (where, obs))
    called, out, events, left = obs
    fw = [e[1] for e in events if e[0] == "f"]
    if stype == "websocket":
        if called:
            return ("view-called-on-websocket", "%s: the view was called %d times" % (where, called))
        if out == ["exc", "AssertionError"] and not events:
            return ("websocket-not-denied", "%s raised AssertionError instead of denying the connection" % where)
        return oracle_denial(["denial", stype, ext, ["r404"], script], obs[1:], where, ["r404"])
    if stype == "http":
        if called != 1:
            return ("view-not-called", "%s: the view was called %d times" % (where, called))
        if view[0] == "prog":
            sent = [a[1] for a in view[1] if a[0] == "s"]
            if out in (["ok"], ["exc", "Inner"]) and fw != sent:
                return ("response-not-transparent", "%s forwarded %r, the response sent %r" % (where, fw, sent))
        elif view[0] in ("r404", "text"):
            status, pieces = expected_real(view)
            if out != ["ok"] or len(fw) != 2 or fields(fw[0]).get("status") != ["i", status] \
                    or fields(fw[1]).get("body") != ["b", pieces[0]] or h_more(fw[1]):
                return ("response-not-transparent", "%s: outcome %r, forwarded %r" % (where, out, fw))
        return None
    if called or out != ["exc", "AssertionError"] or events:
        return ("foreign-scope-served", "%s: view calls %d, outcome %r, events %r; expected AssertionError and nothing else"
                % (where, called, out, events))
    return None


START_404 = [["http.response.start"], [["headers", B("content-length: 0")], ["status", I(404)]]]
BODY_EMPTY = [["http.response.body"], [["body", B("")], ["more_body", I(0)]]]


def oracle_ws(case, obs):
    _, stype, script, calls = case
    where = "websocket_session(view) on a %r scope" % stype
    if stype == "websocket":
        if not obs or obs[0] != "session":
            return ("websocket-not-served", "%s gave %r" % (where, obs[:3]))
        return oracle_session([script, calls], obs[1:])
    if stype == "http":
        if obs != ["http", ["ok"], [["f", START_404], ["f", BODY_EMPTY]], len(script)]:
            return ("http-not-answered-404", "%s gave %r; expected a 404 with an empty body, the view not called, no "
                    "receive()" % (where, obs))
        return None
    if obs != ["assert"]:
        return ("foreign-scope-served", "%s gave %r; expected AssertionError and nothing else" % (where, obs))
    return None


def oracle(case, obs):
    if not isinstance(case[0], str):
        return oracle_session(case, obs)
    if obs and obs[0] == "driver-exception":
        return ("driver-" + str(obs[1]), "driving the case failed: %s %s" % (obs[1], obs[2]))
    return {"denial": oracle_denial, "rr": oracle_rr, "ws": oracle_ws}[case[0]](case, obs)


def nontrivial(case, obs):
    if not isinstance(case[0], str):
        return nontrivial_session(case, obs)
    if not obs or obs[0] == "driver-exception":
        return False
    if case[0] == "ws":
        return obs[0] != "session" or nontrivial_session([case[2], case[3]], obs[1:])
    out, events = obs[-3], obs[-2]
    return out != ["ok"] or any(e[0] == "f" for e in events)


def shrink(case):
    if not isinstance(case[0], str):
        yield from shrink_session(case)
        return
    if case[0] == "ws":
        for c in shrink_session([case[2], case[3]]):
            yield ["ws", case[1]] + c
        return
    kind, stype, ext, resp, script = case
    for i in range(len(script)):
        yield [kind, stype, ext, resp, script[:i] + script[i + 1:]]
    if resp[0] == "prog":
        for i in range(len(resp[1])):
            yield [kind, stype, ext, ["prog", resp[1][:i] + resp[1][i + 1:], resp[2]], script]
        if resp[2]:
            yield [kind, stype, ext, ["prog", resp[1], 0], script]
    if resp[0] == "stream" and resp[1]:
        yield [kind, stype, ext, ["stream", resp[1][:-1], resp[2]], script]


# ---------------------------------------------------------------- the source-level tie (tools/py2coq_c11.py)


def extra_obligations(tier):
    """The methods receive, send, close, accept, send_text, send_bytes, _raise_on_disconnect, receive_text, receive_bytes of
    WebSocket (and WebSocketDisconnect.__init__) are translated, one by one, from the source in BAIZE_REPO as it is now
    into the monad of C11/Model.v (statement by statement, in statement order: `await self._receive()` = srv_receive,
    `await self._send(m)` = srv_send m, the two state attributes = get/set_cs, get/set_aps), and coqc re-checks, per
    method, the part of C11/Translated.v about it (translated method = the model function, for every argument, state and
    server script: same outcome, same state afterwards, same rest of the script, same trace) against the fresh
    definitions.  One obligation per method: a method the translator refuses (not applicable, no alarm) does not hide
    the others, except those that call it."""
    import importlib.util
    import os
    spec = importlib.util.spec_from_file_location("py2coq_c11", os.path.join(core.VERIF, "tools", "py2coq_c11.py"))
    py2coq_c11 = importlib.util.module_from_spec(spec)
    spec.loader.exec_module(py2coq_c11)
    return py2coq_c11.obligations(core.REPO, core.VERIF)


if __name__ == "__main__":
    import sys
    core.main(sys.modules[__name__])
