"""C11 — the WebSocket wrapper forwards only protocol-legal event sequences (C11/Model.v).

case  = [script, calls]
  value   = ["n"] | ["s", str] | ["b", str(latin-1 of the bytes)] | ["i", int]
  message = [[] | [type], [[key, value], ...]]      keys sorted, unique, never "type"
  call    = ["accept", sub] | ["receive"] | ["receive_text"] | ["receive_bytes"] | ["iter_text", n] | ["iter_bytes", n]
          | ["send_text", v] | ["send_bytes", v] | ["close", code, reason] | ["send", message]
          | ["iter_open", "t"|"b"]   g = ws.iter_text() / ws.iter_bytes(); the case's generators are numbered 0, 1, ... in order of creation
          | ["iter_step", i]         await g_i.__anext__()      (any other call may come between two steps)
          | ["iter_close", i]        await g_i.aclose()
observation = [[cs, aps]] + per call [outcome, [event, ...], cs, aps]
  event   = ["r"] (server receive() called, script exhausted) | ["r", message] | ["f", message, aps at that moment]
  outcome = ["ok"] | ["msg", message] | ["val", value] | ["exc", name, ...] | ["iter", [value...], ["limit"]|["done"]|["exc", ...]]
          | ["stop"] (StopAsyncIteration) | ["noiter"] (the case names a generator it never created)
"""
import itertools
import re

from . import core

PID = "C11"
MANIFEST = dict(
    text="Theorems forwarded_legal / application_state_is_phase / transition_before_forward / illegal_raises_nothing_forwarded / "
         "sends_forward_or_raise / accept_consumes_connect / no_receive_after_disconnect / typed_receive_needs_connected_application / "
         "script_delivered_in_order / frames_in_order_once / close_closes / close_idempotent / states_monotone / "
         "iter_step_is_typed_receive / finished_iterator_inert / iterator_finishes / iter_steps_equal_atomic_iter about the Gallina model of "
         "baize.asgi.websocket.WebSocket (two three-valued states and the async generators of iter_text/iter_bytes created so far; "
         "receive/send/accept/close/receive_*/iter_*/send_* and the single steps (__anext__) and aclose of an open generator as "
         "state-exception-trace functions) hold for every call sequence - any call may come between two steps of a running "
         "iteration - and every server script; the model is compared with the "
         "live class (driven through websocket_session with a scripted receive/send pair; real async-generator objects are kept "
         "across the calls of a case) on every call sequence up to length 4 "
         "(thorough 6) over the public operations x every script connect, <=3 text/binary frames, disconnect in every position, "
         "every interleaving up to length 4 (thorough 5) of open/step/close of two generators with accept/receive/send/close, "
         "plus malformed scripts and random long runs; the property itself is evaluated on the live observations.",
    note="Modelled, not verified: a server whose receive() never blocks mid-call (an exhausted script raises a marker exception "
         "instead of blocking), whose send() does not raise, messages as dicts of None/str/bytes/int values. The asserts are the "
         "guard: python -O removes them (configuration). no_receive_after_disconnect and frames_in_order_once assume the server "
         "sends websocket.connect first.",
    technique="Coq proof (per-call Hoare-style lemmas, induction over the call list with an invariant on the state pair and the "
              "remaining script; regular-language recognisers) + executable model/implementation correspondence",
    ref="5/C11")

RULE = ("cases: (a) every call sequence up to length 2 (thorough 3) over the 16-operation alphabet x all 64 scripts "
        "connect + <=3 text/binary frames + a disconnect in every position or none, (b) every call sequence up to length 4 "
        "(thorough 6) over an 8-operation core alphabet x a spread of those scripts (10; thorough 6, 3 at length 6), (c) malformed scripts (no connect, double "
        "connect, unknown/missing type, disconnect without code, frames with None/absent/both payload keys) x sequences up to "
        "length 2 (thorough 3), (d) random runs of 5..14 calls with random arguments over random scripts, "
        "(e) generators kept open across calls: every call sequence up to length 4 (thorough 5) over the 9-operation alphabet "
        "accept / receive / send_text / close / iter_open text / iter_open bytes / iter_step 0 / iter_step 1 / iter_close 0 x 3 scripts, "
        "and accept, iter_open text followed by every sequence up to length 3 (thorough 4) over it x 6 (thorough 4) scripts, "
        "(f) random application loops (accept, open, then steps of the generators interleaved with other calls) of 6..30 calls; "
        "non-trivial = some call raises, or a disconnect is delivered, or at least two events are forwarded")
TRUSTED = ["scripted ASGI server of the harness: receive() hands out the script in order and raises a marker exception when it "
           "is exhausted; send() records the message and application_state at that moment"]
ASSUMPTIONS = ["assert statements are executed (no python -O)",
               "the server's send() does not raise and receive() does not block in the middle of a call",
               "no_receive_after_disconnect / frames_in_order_once: the first server event is websocket.connect",
               "the calls of a case are made one after the other (one task): a generator of iter_text()/iter_bytes() is "
               "stepped again, and any other call is made, only after the previous call returned"]
EXHAUSTIVE = {"quick": True, "thorough": True}

N_ = ["n"]
CONNECT = [["websocket.connect"], []]


def S(x):
    return ["s", x]


def B(x):
    return ["b", x]


def I(x):
    return ["i", x]


def frame(kind, payload, style=0):
    """style 0: only the payload key; 1: the other key present with None"""
    if kind == "t":
        f = [["text", S(payload)]]
        if style:
            f = [["bytes", N_]] + f
    else:
        f = [["bytes", B(payload)]]
        if style:
            f = f + [["text", N_]]
    return [["websocket.receive"], f]


def disconnect(code=1000, reason=None):
    f = [["code", I(code)]]
    if reason is not None:
        f.append(["reason", reason])
    return [["websocket.disconnect"], f]


RAW_ACCEPT = ["send", [["websocket.accept"], []]]
RAW_SEND = ["send", [["websocket.send"], [["text", S("r")]]]]
RAW_CLOSE = ["send", [["websocket.close"], [["code", I(1001)]]]]
RAW_OTHER = ["send", [["websocket.http.response.start"], [["status", I(403)]]]]
RAW_NOTYPE = ["send", [[], [["text", S("r")]]]]
RAW_CONNECT = ["send", [["websocket.connect"], []]]

FULL = [["accept", N_], ["receive"], ["receive_text"], ["receive_bytes"], ["iter_text", 9], ["iter_bytes", 9],
        ["iter_text", 1], ["send_text", S("x")], ["send_bytes", B("y")], ["close", I(1000), N_],
        RAW_ACCEPT, RAW_SEND, RAW_CLOSE, RAW_OTHER, RAW_NOTYPE, RAW_CONNECT]
CORE = [["accept", N_], ["receive"], ["receive_text"], ["iter_bytes", 9], ["send_text", S("x")], ["close", I(1000), N_],
        RAW_ACCEPT, RAW_OTHER]
# generators kept open across calls, interleaved with the calls that change a state
EXT = [["accept", N_], ["receive"], ["send_text", S("x")], ["close", I(1000), N_], ["iter_open", "t"], ["iter_open", "b"],
       ["iter_step", 0], ["iter_step", 1], ["iter_close", 0]]
LOOP_PREFIX = [["accept", N_], ["iter_open", "t"]]


def wellformed_scripts(maxframes=3):
    for k in range(maxframes + 1):
        for kinds in itertools.product("tb", repeat=k):
            frames = [frame(kd, chr(97 + i)) for i, kd in enumerate(kinds)]
            yield [CONNECT] + frames
            for j in range(k + 1):
                yield [CONNECT] + frames[:j] + [disconnect()] + frames[j:]


def core_scripts(tier):
    a, b, c = frame("t", "a"), frame("b", "b"), frame("t", "c")
    out = [[CONNECT], [CONNECT, disconnect()], [CONNECT, a], [CONNECT, a, disconnect()],
           [CONNECT, b, a, disconnect()], [CONNECT, a, disconnect(), c]]
    if tier == "quick":
        out += [[CONNECT, a, b, c], [CONNECT, a, a, disconnect(1001, S("bye"))], [], [CONNECT, b]]
    return out


def ext_scripts():
    a, b, c = frame("t", "a"), frame("b", "b"), frame("t", "c")
    return [[CONNECT, a, b, disconnect(), c], [CONNECT, a, disconnect(1001, S("bye")), c], [CONNECT, a, c, b],
            [CONNECT, a, c, c, disconnect()], [CONNECT, disconnect(), a], [CONNECT, frame("t", "a", 1), b]]


def malformed_scripts():
    a = frame("t", "a")
    yield []
    yield [disconnect()]
    yield [a, CONNECT]
    yield [disconnect(), CONNECT, a]
    yield [CONNECT, CONNECT, a]
    yield [CONNECT, [["websocket.bogus"], []], a]
    yield [CONNECT, [[], [["text", S("a")]]], a]
    yield [[[], []], CONNECT]
    yield [[["websocket.accept"], []], CONNECT]
    yield [CONNECT, [["websocket.disconnect"], []], a]
    yield [CONNECT, [["websocket.disconnect"], [["reason", S("x")]]]]
    yield [CONNECT, disconnect(1001, S("going away")), a]
    yield [CONNECT, disconnect(1005, S(""))]
    yield [CONNECT, disconnect(0, N_)]
    yield [CONNECT, disconnect(1000, I(0)), a]
    yield [CONNECT, disconnect(1000, B("")), a]
    yield [CONNECT, disconnect(1000, B("r")), a]
    yield [CONNECT, [["websocket.disconnect"], [["code", N_], ["reason", I(7)]]]]
    yield [CONNECT, frame("t", "a", 1), frame("b", "b", 1), disconnect()]
    yield [CONNECT, [["websocket.receive"], []], a]
    yield [CONNECT, [["websocket.receive"], [["bytes", B("z")], ["text", S("a")]]], a]
    yield [CONNECT, [["websocket.receive"], [["bytes", N_], ["text", N_]]], disconnect()]
    yield [CONNECT, [["websocket.receive"], [["text", I(5)]]], disconnect()]
    yield [[["websocket.connect"], [["text", S("c")]]], a, disconnect()]
    yield [[["websocket.connect"], [["bytes", B("c")], ["code", I(1)]]], a]
    yield [CONNECT, a, disconnect(), disconnect(), CONNECT]
    yield [CONNECT, frame("t", "€\U0001f600"), frame("b", "\x00\xff"), disconnect(4000, S("é"))]


def seqs(alphabet, maxlen):
    for n in range(maxlen + 1):
        for seq in itertools.product(alphabet, repeat=n):
            yield [list(c) for c in seq]


def rand_value(rng):
    r = rng.random()
    if r < 0.25:
        return N_
    if r < 0.55:
        return S("".join(rng.choice("abé€") for _ in range(rng.randrange(0, 4))))
    if r < 0.8:
        return B("".join(chr(rng.randrange(256)) for _ in range(rng.randrange(0, 4))))
    return I(rng.choice([0, 1, 1000, 1001, 4999, -1]))


def rand_msg(rng, types):
    t = rng.choice(types)
    keys = sorted(rng.sample(["bytes", "code", "reason", "subprotocol", "text", "headers"], rng.randrange(0, 4)))
    return [[] if t is None else [t], [[k, rand_value(rng)] for k in keys]]


APP_TYPES = ["websocket.accept", "websocket.send", "websocket.close", "websocket.send", "websocket.close",
             "websocket.receive", "websocket.http.response.body", "", None]
SRV_TYPES = ["websocket.receive"] * 6 + ["websocket.disconnect", "websocket.connect", "websocket.close", None]


def rand_iter_call(rng, ng):
    """an operation on one of the ng generators created so far (sometimes on one that does not exist)"""
    r = rng.random()
    if ng == 0 or r < 0.15:
        return ["iter_open", rng.choice("tb")]
    i = rng.randrange(ng) if rng.random() < 0.95 else ng
    return ["iter_step", i] if r < 0.9 else ["iter_close", i]


def rand_calls(rng, n):
    out, ng = [], 0
    for _ in range(n):
        c = rand_iter_call(rng, ng) if rng.random() < 0.3 else rand_call(rng)
        if c[0] == "iter_open":
            ng += 1
        out.append(c)
    return out


def rand_loop(rng):
    """the shape of an application: accept, start iterating, do other things between the steps"""
    out = [["accept", rng.choice([N_, S("chat")])]] if rng.random() < 0.9 else []
    out.append(["iter_open", rng.choice("ttb")])
    ng = 1
    for _ in range(rng.randrange(2, 12)):
        out.append(["iter_step", rng.randrange(ng)])
        r = rng.random()
        if r < 0.35:
            out.append(rng.choice([["send_text", S("echo")], ["send_bytes", B("e")], ["receive"], ["receive_text"],
                                   ["close", I(1000), N_], RAW_CLOSE, RAW_SEND, ["iter_text", 1], ["accept", N_]]))
        elif r < 0.5:
            c = rand_iter_call(rng, ng)
            if c[0] == "iter_open":
                ng += 1
            out.append(c)
        elif r < 0.6:
            out.append(rand_call(rng))
    return [list(c) for c in out]


def rand_call(rng):
    k = rng.randrange(14)
    if k == 0:
        return ["accept", rng.choice([N_, S("graphql-ws"), S("")])]
    if k == 1:
        return ["receive"]
    if k == 2:
        return ["receive_text"]
    if k == 3:
        return ["receive_bytes"]
    if k == 4:
        return ["iter_text", rng.choice([0, 1, 2, 3, 20])]
    if k == 5:
        return ["iter_bytes", rng.choice([0, 1, 2, 3, 20])]
    if k == 6:
        return ["send_text", rand_value(rng)]
    if k == 7:
        return ["send_bytes", rand_value(rng)]
    if k == 8:
        return ["close", rng.choice([I(1000), I(1001), I(4000), N_]), rng.choice([N_, S("bye"), S("")])]
    if k in (9, 10):
        return ["send", rand_msg(rng, APP_TYPES)]
    return rng.choice([["accept", N_], ["receive"], ["receive_text"], ["send_text", S("hi")]])


def rand_script(rng):
    r = rng.random()
    n = rng.randrange(0, 7)
    frames = [frame(rng.choice("tb"), "".join(rng.choice("abc") for _ in range(rng.randrange(0, 3))) + str(i),
                    rng.randrange(2)) for i in range(n)]
    if r < 0.75:
        sc = [CONNECT] + frames
        if rng.random() < 0.7:
            j = rng.randrange(0, n + 1)
            sc = sc[:1 + j] + [disconnect(rng.choice([1000, 1001, 1005]), rng.choice([None, N_, S("bye"), S("")]))] + sc[1 + j:]
        return sc
    sc = [rand_msg(rng, SRV_TYPES) for _ in range(rng.randrange(0, 6))]
    if rng.random() < 0.6:
        sc = [CONNECT] + sc
    return sc


def cases(tier, rng):
    quick = tier == "quick"
    wf = list(wellformed_scripts(3))
    for calls in seqs(FULL, 2 if quick else 3):
        for sc in wf:
            yield "exhaustive-full", [sc, calls]
    cs_ = core_scripts(tier)
    lo = 3 if quick else 4
    for n in range(lo, (4 if quick else 6) + 1):
        for seq in itertools.product(CORE, repeat=n):
            calls = [list(c) for c in seq]
            for sc in (cs_ if n < 6 else cs_[1::2]):
                yield "exhaustive-core", [sc, calls]
    mal = list(malformed_scripts())
    for calls in seqs(FULL, 2 if quick else 3):
        if not calls:
            continue
        for sc in mal:
            yield "malformed-script", [sc, calls]
    for _ in range(6000 if quick else 60000):
        yield "random", [rand_script(rng), rand_calls(rng, rng.randrange(5, 15))]
    es = ext_scripts()
    for calls in seqs(EXT, 4 if quick else 5):
        for sc in es[:3]:
            yield "exhaustive-generators", [sc, calls]
    for calls in seqs(EXT, 3 if quick else 4):
        if calls:
            for sc in (es if quick else es[:4]):
                yield "exhaustive-generators", [sc, [list(c) for c in LOOP_PREFIX] + calls]
    for _ in range(3000 if quick else 30000):
        yield "random-loop", [rand_script(rng), rand_loop(rng)]


def search_cases(tier, rng, mism):
    yield from cases("thorough" if tier == "quick" else tier, rng)


# ---------------------------------------------------------------- implementation driver


class Blocked(Exception):
    """the scripted server has nothing more to deliver (a real server would block)"""


def py_value(v):
    t = v[0]
    if t == "n":
        return None
    if t == "s":
        return v[1]
    if t == "b":
        return v[1].encode("latin-1") if isinstance(v[1], str) else bytes(v[1])
    if t == "i":
        return v[1]
    raise ValueError(v)


def py_msg(m):
    d = {}
    if m[0]:
        d["type"] = m[0][0]
    for k, v in m[1]:
        d[k] = py_value(v)
    return d


def c_value(v):
    if v is None:
        return ["n"]
    if isinstance(v, bool):
        return ["?", repr(v)]
    if isinstance(v, str):
        return ["s", v]
    if isinstance(v, (bytes, bytearray)):
        return ["b", bytes(v).decode("latin-1")]
    if isinstance(v, int):
        return ["i", v]
    return ["?", repr(v)[:60]]


def c_msg(m):
    if not isinstance(m, dict):
        return ["?", repr(m)[:60]]
    return [[m["type"]] if "type" in m else [], [[k, c_value(m[k])] for k in sorted(m) if k != "type"]]


def drive(coro):
    """run a coroutine that never really suspends"""
    try:
        coro.send(None)
    except StopIteration as e:
        return e.value
    coro.close()
    raise RuntimeError("coroutine suspended")


def impl(case):
    from baize.asgi.shortcut import websocket_session
    from baize.asgi.websocket import WebSocketDisconnect, WebSocketState
    st = {WebSocketState.CONNECTING: 0, WebSocketState.CONNECTED: 1, WebSocketState.DISCONNECTED: 2}
    script, calls = case
    msgs = [py_msg(m) for m in script]
    pos = [0]
    log = []
    box = {}
    out = []

    async def receive():
        if pos[0] >= len(msgs):
            log.append(["r"])
            raise Blocked()
        m = msgs[pos[0]]
        pos[0] += 1
        log.append(["r", c_msg(m)])
        return m

    async def send(m):
        log.append(["f", c_msg(m), st.get(box["ws"].application_state, -1)])

    def c_exc(e):
        if isinstance(e, WebSocketDisconnect):
            return ["exc", "WebSocketDisconnect", c_value(e.code), c_value(e.reason)]
        if isinstance(e, KeyError):
            return ["exc", "KeyError", e.args[0] if e.args and isinstance(e.args[0], str) else repr(e.args)]
        return ["exc", type(e).__name__]

    gens = []      # the async generators of this case, kept across its calls

    async def one(ws, c):
        name = c[0]
        if name == "iter_open":
            gens.append(ws.iter_text() if c[1] == "t" else ws.iter_bytes())
            return ["ok"]
        if name in ("iter_step", "iter_close"):
            if not 0 <= c[1] < len(gens):
                return ["noiter"]
            if name == "iter_close":
                r = await gens[c[1]].aclose()
                return ["ok"] if r is None else ["?", repr(r)[:60]]
            try:
                v = await gens[c[1]].__anext__()
            except StopAsyncIteration:
                return ["stop"]
            return ["val", c_value(v)]
        if name == "accept":
            await ws.accept(py_value(c[1]))
            return ["ok"]
        if name == "receive":
            return ["msg", c_msg(await ws.receive())]
        if name == "receive_text":
            return ["val", c_value(await ws.receive_text())]
        if name == "receive_bytes":
            return ["val", c_value(await ws.receive_bytes())]
        if name in ("iter_text", "iter_bytes"):
            agen = ws.iter_text() if name == "iter_text" else ws.iter_bytes()
            items, term = [], ["limit"]
            try:
                for _ in range(c[1]):
                    try:
                        v = await agen.__anext__()
                    except StopAsyncIteration:
                        term = ["done"]
                        break
                    items.append(c_value(v))
            except Exception as e:
                term = c_exc(e)
            await agen.aclose()
            return ["iter", items, term]
        if name == "send_text":
            r = await ws.send_text(py_value(c[1]))
        elif name == "send_bytes":
            r = await ws.send_bytes(py_value(c[1]))
        elif name == "close":
            r = await ws.close(py_value(c[1]), py_value(c[2]))
        elif name == "send":
            r = await ws.send(py_msg(c[1]))
        else:
            return ["badcall"]
        return ["ok"] if r is None else ["?", repr(r)[:60]]

    async def view(ws):
        box["ws"] = ws
        out.append([st.get(ws.client_state, -1), st.get(ws.application_state, -1)])
        for c in calls:
            del log[:]
            try:
                o = await one(ws, c)
            except Exception as e:
                o = c_exc(e)
            out.append([o, list(log), st.get(ws.client_state, -1), st.get(ws.application_state, -1)])
        for g in gens:
            try:
                await g.aclose()
            except Exception:
                pass

    scope = {"type": "websocket", "path": "/", "headers": [], "query_string": b"", "subprotocols": []}
    drive(websocket_session(view)(scope, receive, send))
    return out


# ---------------------------------------------------------------- the property on the live observations

LETTER = {"websocket.accept": "a", "websocket.send": "s", "websocket.close": "c"}
LEGAL = re.compile(r"(?:as*c?|c)?\Z")
STATE_AT_FORWARD = {"a": 1, "s": 1, "c": 2}


def mtype(m):
    return m[0][0] if m[0] else None


def fields(m):
    return {k: v for k, v in m[1]}


def raised(o):
    return o[0] == "exc" or (o[0] == "iter" and o[2][0] == "exc")


def plain_connect_first(script):
    if not script:
        return True
    m = script[0]
    return mtype(m) == "websocket.connect" and "text" not in fields(m) and "bytes" not in fields(m)


def expected_forward(c):
    n = c[0]
    if n == "accept":
        return [["websocket.accept"], [["subprotocol", c[1]]]]
    if n == "send_text":
        return [["websocket.send"], [["text", c[1]]]]
    if n == "send_bytes":
        return [["websocket.send"], [["bytes", c[1]]]]
    if n == "close":
        return [["websocket.close"], [["code", c[1]], ["reason", c[2]]]]
    if n == "send":
        return c[1]
    return None


def oracle(case, obs):
    if obs and obs[0] == "driver-exception":
        return ("driver-" + str(obs[1]), "driving the call sequence failed: %s %s" % (obs[1], obs[2]))
    script, calls = case
    if len(obs) != len(calls) + 1:
        return ("short-observation", "expected %d call records, got %d" % (len(calls), len(obs) - 1))
    if obs[0] != [0, 0]:
        return ("initial-state", "a new WebSocket reports states %r, not CONNECTING/CONNECTING" % (obs[0],))
    wf = plain_connect_first(script)
    cs, aps = 0, 0
    letters = ""
    delivered = 0          # script messages handed over so far
    disc_seen = False      # a disconnect was handed over
    closed_by_close = False
    gens = []              # the generators created so far: [payload key, finished]
    for idx, (c, rec) in enumerate(zip(calls, obs[1:])):
        o, log, cs2, aps2 = rec
        where = "call %d %r (states before %d/%d)" % (idx, c, cs, aps)
        # which payload a typed receive hands out (None: not a typed receive); a step of a generator that is
        # still running is a typed receive, creating / closing a generator and stepping a finished one do nothing
        n = c[0]
        key = None
        if n in ("receive_text", "iter_text"):
            key = "text"
        elif n in ("receive_bytes", "iter_bytes"):
            key = "bytes"
        elif n in ("iter_open", "iter_step", "iter_close"):
            g = None
            if n == "iter_open":
                gens.append(["text" if c[1] == "t" else "bytes", False])
                want_o = ["ok"]
            elif not 0 <= c[1] < len(gens):
                want_o = ["noiter"]
            else:
                g = gens[c[1]]
                want_o = ["ok"] if n == "iter_close" else ["stop"]
            if n == "iter_step" and g is not None and not g[1]:
                key = g[0]
                if o[0] != "val":
                    g[1] = True          # ended, or raised: the generator is finished
            else:
                if o != want_o or log or (cs2, aps2) != (cs, aps):
                    return ("generator-bookkeeping-acted", "%s gave %r, did %r, states %d/%d -> %d/%d; expected %r and "
                            "nothing else" % (where, o, log, cs, aps, cs2, aps2, want_o))
                if n == "iter_close" and g is not None:
                    g[1] = True
        # states only move forward
        if not (cs <= cs2 <= 2 and aps <= aps2 <= 2):
            return ("state-moved-backwards", "%s: states went from %d/%d to %d/%d" % (where, cs, aps, cs2, aps2))
        fw = [e for e in log if e[0] == "f"]
        rc = [e for e in log if e[0] == "r"]
        # forwarded events: legal language, state already switched when forwarding
        for e in fw:
            l = LETTER.get(mtype(e[1]), "x")
            letters += l
            if not LEGAL.match(letters):
                return ("illegal-forwarded-sequence", "%s forwarded %r; sequence of forwarded types so far %r is not "
                        "accept send* close? | close" % (where, e[1], letters))
            if e[2] != STATE_AT_FORWARD[l]:
                return ("forwarded-before-transition", "%s: %r reached the server while application_state was %d"
                        % (where, e[1], e[2]))
        # a call that raises forwards nothing and leaves application_state alone
        if raised(o) and (fw or aps2 != aps):
            return ("raised-but-forwarded", "%s raised %r but forwarded %r / application_state %d -> %d"
                    % (where, o, fw, aps, aps2))
        # send-like calls: returned normally <-> exactly their message was forwarded
        exp = expected_forward(c)
        if exp is None:
            if fw:
                return ("receive-forwarded", "%s forwarded %r" % (where, fw))
        elif c[0] == "close":
            if o != ["ok"]:
                return ("close-raised", "%s: close() gave %r" % (where, o))
            if aps2 != 2:
                return ("close-not-closed", "%s: application_state %d after close()" % (where, aps2))
            if aps == 2 or closed_by_close:
                if log or (cs2, aps2) != (cs, aps):
                    return ("close-not-idempotent", "%s: close() on a closed connection did %r, states %d/%d -> %d/%d"
                            % (where, log, cs, aps, cs2, aps2))
            elif [e[1] for e in fw] != [exp]:
                return ("close-forwarded-wrong", "%s forwarded %r, expected one %r" % (where, fw, exp))
            closed_by_close = True
        else:
            if o == ["ok"] and [e[1] for e in fw] != [exp]:
                return ("silent-send", "%s returned normally but forwarded %r, expected one %r" % (where, fw, exp))
            # accept() waits for the connect event before it answers
            if c[0] == "accept" and o == ["ok"]:
                if cs2 == 0:
                    return ("accept-without-connect", "%s returned with client_state still CONNECTING" % where)
                if cs == 0 and not (len(log) == 2 and log[0][0] == "r" and len(log[0]) == 2
                                    and mtype(log[0][1]) == "websocket.connect" and log[1][0] == "f"):
                    return ("accept-without-connect", "%s did %r instead of consuming websocket.connect and then "
                            "forwarding websocket.accept" % (where, log))
            if o != ["ok"] and not raised(o):
                return ("send-odd-outcome", "%s gave %r" % (where, o))
        # payloads are read between accept and close only: a typed receive (a step of a running iteration
        # included) made while the application is not CONNECTED raises without asking the server
        if key is not None and aps != 1:
            if rc or (cs2, aps2) != (cs, aps):
                return ("typed-receive-not-connected", "%s: a typed receive with application_state %d asked the server: %r, "
                        "states -> %d/%d" % (where, aps, rc, cs2, aps2))
            if not (raised(o) or (o[0] == "iter" and c[1] == 0)):
                return ("typed-receive-not-connected", "%s: a typed receive with application_state %d gave %r instead of "
                        "raising" % (where, aps, o))
        # after the application closed only receive() (and accept(), waiting for the connect event) may ask the server
        if aps == 2 and n not in ("receive", "accept") and (log or cs2 != cs):
            return ("server-touched-after-close", "%s: the application had closed, yet the call did %r, client_state -> %d"
                    % (where, log, cs2))
        # receive discipline
        for e in rc:
            if wf and disc_seen:
                return ("receive-after-disconnect", "%s called the server's receive() after websocket.disconnect "
                        "had been delivered" % where)
            if len(e) == 1:
                if delivered != len(script):
                    return ("harness-script", "%s: blocked before the script ended" % where)
            else:
                if delivered >= len(script) or e[1] != script[delivered]:
                    return ("delivery-order", "%s: server delivered %r, script position %d" % (where, e[1], delivered))
                delivered += 1
                if mtype(e[1]) == "websocket.disconnect":
                    disc_seen = True
        # frames are returned in order, exactly once
        if wf:
            frames_in = [e[1] for e in rc if len(e) == 2 and mtype(e[1]) == "websocket.receive"]
            if n == "receive":
                got = [o[1]] if o[0] == "msg" and mtype(o[1]) == "websocket.receive" else []
                if got != frames_in:
                    return ("frame-lost-or-duplicated", "%s consumed frames %r but returned %r" % (where, frames_in, o))
            elif key is not None:
                want, missing = [], False
                for f in frames_in:
                    if missing:
                        return ("frame-lost-or-duplicated", "%s consumed %r after a KeyError" % (where, f))
                    if key in fields(f):
                        want.append(fields(f)[key])
                    else:
                        missing = True
                got = [o[1]] if o[0] == "val" else (o[1] if o[0] == "iter" else [])
                if got != want:
                    return ("frame-lost-or-duplicated", "%s consumed frames %r and returned %r, expected %r"
                            % (where, frames_in, got, want))
                err = o if o[0] == "exc" else (o[2] if o[0] == "iter" else None)
                if missing and err != ["exc", "KeyError", key]:
                    return ("frame-lost-or-duplicated", "%s: a frame without %r was consumed, outcome %r" % (where, key, o))
            elif frames_in:
                return ("frame-lost-or-duplicated", "%s consumed frames %r" % (where, frames_in))
        cs, aps = cs2, aps2
    return None


def nontrivial(case, obs):
    if not obs or obs[0] == "driver-exception":
        return False
    nf = sum(1 for rec in obs[1:] for e in rec[1] if e[0] == "f")
    disc = any(len(e) == 2 and e[0] == "r" and mtype(e[1]) == "websocket.disconnect" for rec in obs[1:] for e in rec[1])
    return nf >= 2 or disc or any(raised(rec[0]) for rec in obs[1:])


def shrink(case):
    script, calls = case
    for i in range(len(calls)):
        yield [script, calls[:i] + calls[i + 1:]]
    for i in range(len(script)):
        yield [script[:i] + script[i + 1:], calls]
    for i, c in enumerate(calls):
        if c[0] in ("iter_text", "iter_bytes") and c[1] > 0:
            yield [script, calls[:i] + [[c[0], c[1] - 1]] + calls[i + 1:]]


if __name__ == "__main__":
    import sys
    core.main(sys.modules[__name__])
