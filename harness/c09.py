"""C09 — prefix mounts (Subpaths) and host dispatch (Hosts), WSGI and ASGI:
correspondence with C09/Model.v + the property evaluated on the live classes.

A case is one of
  ["mount", tree, root?, path?, lifespan]      tree := leaf id (int) | [[prefix, tree], ...]
  ["hosts", patterns, HTTP_HOST?, [[name, value], ...], lifespan, [[text, [0/1 per pattern]], ...]]
where  x? := [] (key absent) | [text].  The last item of a hosts case is the
answer table of re.fullmatch for every text the model may look up; the model
never sees a regular expression.
"""
import itertools
import os
import re

from . import core

PID = "C09"
MANIFEST = dict(
    text="Theorems mount_first(_unique) / mount_split / mount_unfold / mount_nested / mount_404_untouched / mount_compose / "
         "hosts_first / hosts_call / hosts_asgi_header about the "
         "Gallina model of BaseSubpaths.search, the WSGI and the ASGI Subpaths.__call__ rewrite, trees of nested mounts of any "
         "depth, and BaseHosts.search over an arbitrary fullmatch oracle, for every table, path and root path; the model is "
         "compared with the live baize.wsgi.routing / baize.asgi.routing Subpaths and Hosts (leaf apps record the environ / "
         "scope they are called with) on all small tables x paths x root paths, nested tables to depth 3, random trees, "
         "unconstructible tables, absent keys, lifespan scopes, and host tables x Host values.",
    note="Modelled, not verified: str.startswith / slicing as list operations; the regular-expression engine is an oracle "
         "(the harness evaluates re.fullmatch per (pattern, text) and hands the model the answers), so only 'first full match "
         "wins, else 404' and the choice of the Host text (HTTP_HOST / last b'host' header, '' when absent) are modelled. "
         "Host patterns are assumed to compile; asserts are assumed enabled (no python -O).",
    technique="Coq proof (induction over the route list and over the mount tree) + executable model/implementation "
              "correspondence on both gateway interfaces",
    ref="5/C09")

RULE = ("cases: (a) every table of <=3 entries over the prefixes '', /api, /apix, /api/api, /a (repetition allowed, so the '' "
        "default entry occurs in every position) x 17 paths (/api, /apix, /api/, '', //api, ...) and the absent path x root "
        "paths absent/''/'/root' (exhaustive), (b) every two-level tree of <=2 outer entries over '', /api, /a whose entries "
        "are leaves or tables of <=2 entries over '', /api, /x, x concatenated-segment paths, (c) three-level chains with a '' "
        "default before/after/absent at every level, (d) random trees of depth <=3 with random (also non-ASCII) segments and "
        "paths assembled from their prefixes, (e) prefixes that fail the constructor's assertions, lifespan scopes, "
        "(f) every host table of <=2 of 15 patterns x 20 Host values incl. absent, with port, case variants and near-misses, "
        "random tables of 3-4 patterns, duplicated and decoy ASGI headers. "
        "non-trivial = a mount case whose tree holds >=2 entries or is nested or answers 404; a hosts case with >=2 patterns "
        "or a non-constant match row")
TRUSTED = ["Python's re.fullmatch as the oracle the host-dispatch model is parameterised by (answers computed by the harness)",
           "leaf applications and gateway drivers of harness/c09.py (start_response / send recorders)",
           "source-level tie for BaseSubpaths.search: tools/py2coq.py (Python ast -> Gallina, fail-closed; self._route_array "
           "declared as a list of (prefix, endpoint) pairs) and coq/theories/Lib/PyStr.v (compared with the interpreter's str "
           "methods on every run)"]
ASSUMPTIONS = ["host patterns compile (re.error at construction time is outside the property)",
               "assert statements are enabled",
               "an ASGI scope carries 'headers' whenever its type is not lifespan"]
EXHAUSTIVE = {"quick": True, "thorough": True}

PREFIXES = ["", "/api", "/apix", "/api/api", "/a"]
PATHS = ["", "/", "/api", "/apix", "/api/", "/api/x", "/api/api", "//api", "api", "/ap", "/a", "/api/api/x",
         "/apix/api", "/api//", "/API", "/a/api", "/api/apix",
         # characters that '.' / '$' / \w of a regular expression treat specially: a mount is a plain prefix test
         "/api/\n", "/api/x\ny", "/api\n", "\n", "/api/\r\n/x", "/a/\u2028", "/api/.*", "/api/x\n"]
ROOTS = [None, "", "/root"]

HOST_PATTERNS = [r"example\.com", r".*\.example\.com", r"a|ab", r"(?i)x", r"", r".*", r"example.com",
                 r"(www\.)?example\.com", r"example\.com(:\d+)?", r"[^.]+\.example\.com", r"ab|a",
                 r"^example\.com$", r"example\.com\n?", r"(?s).*", r"\w+"]
HOST_VALUES = [None, "", "example.com", "example.com:80", "www.example.com", "a.b.example.com", "xexample.com",
               "example.com.evil.org", "EXAMPLE.COM", "exampleXcom", "a", "ab", "abc", "x", "X", "xx",
               "example.com\n", ".example.com", "\xe9vil.example.com", "www.example.com:8080"]


def opt(v):
    return [] if v is None else [v]


def unopt(o):
    return o[0] if o else None


def number(tree, counter=None):
    """Give the leaves of a tree (leaves written as None) the ids 0,1,2,... in order."""
    if counter is None:
        counter = itertools.count()
    if tree is None or isinstance(tree, int):
        return next(counter)
    return [[p, number(t, counter)] for p, t in tree]


def mount_case(tree, root, path, lifespan=0):
    return ["mount", number(tree), opt(root), opt(path), lifespan]


def match_row(patterns, text):
    return [1 if re.fullmatch(p, text) is not None else 0 for p in patterns]


def hosts_case(patterns, wsgi_host, headers, lifespan=0):
    texts = [""]
    if wsgi_host is not None and wsgi_host not in texts:
        texts.append(wsgi_host)
    for _, v in headers:
        if v not in texts:
            texts.append(v)
    return ["hosts", list(patterns), opt(wsgi_host), [list(h) for h in headers], lifespan,
            [[t, match_row(patterns, t)] for t in texts]]


def seg_paths(pieces, maxn):
    seen, out = set(), []
    for n in range(maxn + 1):
        for combo in itertools.product(pieces, repeat=n):
            s = "".join(combo)
            if s not in seen:
                seen.add(s)
                out.append(s)
    return out


def two_level_trees():
    outer_p, inner_p = ["", "/api", "/a"], ["", "/api", "/x"]
    inner = [None]
    for n in (1, 2):
        for combo in itertools.product(inner_p, repeat=n):
            inner.append([[p, None] for p in combo])
    for n in (1, 2):
        for ps in itertools.product(outer_p, repeat=n):
            for subs in itertools.product(inner, repeat=n):
                yield [[p, s] for p, s in zip(ps, subs)]


def three_level_chains():
    ps = ["", "/api", "/a"]
    for p1, p2, p3 in itertools.product(ps, repeat=3):
        for d1, d2, d3 in itertools.product((0, 1, 2), repeat=3):   # no default / default first / default last
            t = None
            for p, d in ((p3, d3), (p2, d2), (p1, d1)):
                entry = [p, t]
                t = [entry] if d == 0 else ([["", None], entry] if d == 1 else [entry, ["", None]])
            yield t


SEGS = ["/api", "/a", "/apix", "/v1", "/\xe9", "/日本", "/x"]


def random_tree(rng, depth):
    n = rng.choice([0, 1, 1, 2, 2, 3, 4])
    out = []
    for _ in range(n):
        r = rng.random()
        if r < 0.2:
            p = ""
        else:
            p = "".join(rng.choice(SEGS) for _ in range(rng.choice([1, 1, 1, 2])))
        sub = random_tree(rng, depth - 1) if depth > 1 and rng.random() < 0.55 else None
        out.append([p, sub])
    return out


def random_path(rng, tree):
    """A path assembled from prefixes found along a random walk through the tree, plus a tail."""
    s = ""
    t = tree
    while isinstance(t, list) and t:
        p, sub = rng.choice(t)
        r = rng.random()
        if r < 0.75:
            s += p
        elif r < 0.85:
            s += rng.choice(SEGS)
        t = sub
    s += rng.choice(["", "", "/", "x", "/x", "//", "/api", "/api/", "/\xe9", "/a/b/c", "/\n", "/x\ny/z", "\n", "/x\n", "/\x00", "/\u2028x"])
    return s


def cases(tier, rng):
    quick = tier == "quick"
    # (a) one level, exhaustive
    for n in range(0, 4):
        for combo in itertools.product(PREFIXES, repeat=n):
            tree = [[p, None] for p in combo]
            for path in PATHS + [None]:
                for root in ROOTS:
                    yield "one-level", mount_case(tree, root, path)
    for path in PATHS + [None]:
        for root in ROOTS:
            yield "bare-leaf", mount_case(None, root, path)
    # (b) two levels
    p2 = seg_paths(["/api", "/a", "/x", "/apix", "/"], 2 if quick else 3) + ["api", "/api/api/x"]
    for tree in two_level_trees():
        for path in p2:
            for root in (["", "/root"] if not quick else [rng.choice(["", "/root"])]):
                yield "two-level", mount_case(tree, root, path)
    # (c) three levels
    p3 = seg_paths(["/api", "/a", "/apix", "/"], 3)
    for tree in three_level_chains():
        for path in p3:
            if quick and rng.random() >= 0.2:
                continue
            for root in (["", "/root"] if not quick else [rng.choice(["", "/root"])]):
                yield "three-level", mount_case(tree, root, path)
    # (d) random trees
    for _ in range(6000 if quick else 120000):
        tree = random_tree(rng, 3)
        if rng.random() < 0.03:
            tree = None
        path = random_path(rng, tree) if rng.random() < 0.97 else None
        root = rng.choice([None, "", "", "/root", "/root", "/r/s", "root", "/\xe9", "/api"])
        yield "random-tree", mount_case(tree, root, path)
    # (d') history: the same application objects have served other requests before (any order of the paths of the
    # exhaustive domain): dispatch must not depend on it
    hp = [p for p in PATHS if p is not None]
    for n in range(2, 4):
        for combo in itertools.product(PREFIXES, repeat=n):
            tree = [[p, None] for p in combo]
            for path in hp:
                for k in range(2 if quick else 6):
                    pre = [rng.choice(hp) for _ in range(rng.randrange(1, 4))]
                    yield "history", mount_case(tree, "", path) + [pre]
    for tree in two_level_trees():
        for path in p2:
            if rng.random() < (0.3 if quick else 1.0):
                yield "history", mount_case(tree, "", path) + [[rng.choice(p2) for _ in range(rng.randrange(1, 4))]]
    # (e) malformed: prefixes the constructor refuses, lifespan scopes
    bad = ["api", "/api/", "/", " /api", "a/", "//"]
    for b in bad:
        for other in ["", "/api"]:
            for tree in ([[b, None]], [[other, None], [b, None]], [[other, [[b, None]]]], [[b, [[other, None]]]],
                         [[other, [[other, [[b, None]]]]]]):
                for path in ["", "/api", "/api/", "api", "/"]:
                    yield "unconstructible", mount_case(tree, "", path)
    for tree in ([], [["", None]], [["/api", None]], None, [["/api", [["", None]]]]):
        for path in ["", "/api", "/api/x", None]:
            for root in ROOTS:
                yield "lifespan", mount_case(tree, root, path, 1)
    # (f) hosts
    for n in range(0, 3):
        for combo in itertools.product(HOST_PATTERNS, repeat=n):
            for h in HOST_VALUES:
                yield "hosts-exhaustive", hosts_case(combo, h, [] if h is None else [["host", h]])
    for _ in range(3000 if quick else 40000):
        pats = [rng.choice(HOST_PATTERNS) for _ in range(rng.choice([1, 2, 3, 3, 4]))]
        h = rng.choice(HOST_VALUES)
        r = rng.random()
        if r < 0.5:
            headers = [] if h is None else [["host", h]]
            wh = h
        else:
            headers = []
            for _ in range(rng.randrange(0, 4)):
                name = rng.choice(["host", "host", "Host", "x-forwarded-host", "hos", "hostx", ""])
                headers.append([name, rng.choice(HOST_VALUES[1:])])
            wh = rng.choice(HOST_VALUES)
        yield "hosts-random", hosts_case(pats, wh, headers, 1 if rng.random() < 0.02 else 0)
    # hosts with a history
    hv = [h for h in HOST_VALUES if h is not None]
    for combo in itertools.product(HOST_PATTERNS, repeat=2):
        for h in hv:
            if rng.random() < (0.25 if quick else 1.0):
                yield "hosts-history", hosts_case(combo, h, [["host", h]]) + [[rng.choice(hv) for _ in range(rng.randrange(1, 4))]]


def search_cases(tier, rng, mism):
    yield from cases("thorough", rng)


# ---------------------------------------------------------------- driving the implementation

_MISSING = object()


def changed_keys(before, after, skip):
    out = []
    for k in sorted(set(before) | set(after)):
        if k in skip:
            continue
        a, b = before.get(k, _MISSING), after.get(k, _MISSING)
        if a is _MISSING or b is _MISSING or a != b:
            out.append(str(k))
    return out


def wsgi_leaf(i, seen):
    def leaf(environ, start_response):
        seen.append((i, dict(environ)))
        start_response("200 OK", [("Content-Type", "text/plain")])
        return [b"leaf %d" % i]
    return leaf


def asgi_leaf(i, seen):
    async def leaf(scope, receive, send):
        seen.append((i, dict(scope)))
        await send({"type": "http.response.start", "status": 200, "headers": []})
        await send({"type": "http.response.body", "body": b"leaf %d" % i})
    return leaf


def build(tree, cls, leaf, seen):
    if isinstance(tree, int):
        return leaf(tree, seen)
    return cls(*[(p, build(t, cls, leaf, seen)) for p, t in tree])


def call_wsgi(app, environ):
    """-> ('exc', name) | (status:int, body)"""
    st = []

    def start_response(status, headers, exc_info=None):
        st.append(status)

    try:
        body = b"".join(app(environ, start_response))
    except Exception as e:
        return ("exc", type(e).__name__)
    if len(st) != 1:
        return ("weird", "start_response called %d times" % len(st))
    return (int(st[0].split(" ")[0]), body)


def call_asgi(app, scope):
    sent = []

    async def receive():
        return {"type": "http.request", "body": b"", "more_body": False}

    async def send(message):
        sent.append(message)

    coro = app(scope, receive, send)
    try:
        coro.send(None)
    except StopIteration:
        pass
    except Exception as e:
        return ("exc", type(e).__name__)
    else:
        coro.close()
        return ("weird", "coroutine suspended")
    starts = [m for m in sent if m.get("type") == "http.response.start"]
    if len(starts) != 1:
        return ("weird", "%d response starts" % len(starts))
    body = b"".join(m.get("body", b"") for m in sent if m.get("type") == "http.response.body")
    return (int(starts[0]["status"]), body)


def base_environ():
    return {"REQUEST_METHOD": "GET", "QUERY_STRING": "a=1", "SERVER_NAME": "testserver", "SERVER_PORT": "80",
            "SERVER_PROTOCOL": "HTTP/1.1", "wsgi.version": (1, 0), "wsgi.url_scheme": "http"}


def base_scope(lifespan):
    if lifespan:
        return {"type": "lifespan", "asgi": {"version": "3.0"}}
    return {"type": "http", "asgi": {"version": "3.0"}, "http_version": "1.1", "method": "GET", "scheme": "http",
            "query_string": b"a=1", "server": ("testserver", 80), "headers": [(b"host", b"testserver")]}


def observe_mount(res, seen, before, after, kroot, kpath):
    skip = (kroot, kpath)
    if res[0] in ("exc", "weird"):
        return [res[0], res[1]]
    status, body = res
    if len(seen) == 1 and status == 200 and body == b"leaf %d" % seen[0][0]:
        i, env = seen[0]
        return ["ran", i, opt(env.get(kroot)), opt(env.get(kpath)), changed_keys(before, env, skip)]
    if not seen and status == 404:
        return ["404", opt(after.get(kroot)), opt(after.get(kpath)), changed_keys(before, after, skip)]
    return ["weird", "status %s, %d leaf calls" % (status, len(seen))]


def impl_mount(case):
    from baize.wsgi.routing import Subpaths as WSubpaths
    from baize.asgi.routing import Subpaths as ASubpaths
    _, tree, ro, pa, lifespan = case[:5]
    prelude = case[5] if len(case) > 5 else []     # paths the SAME application objects serve first (results discarded)
    root, path = unopt(ro), unopt(pa)
    out = []
    # ---- WSGI
    seen = []
    try:
        app = build(tree, WSubpaths, wsgi_leaf, seen)
    except AssertionError:
        app = None
    environ = base_environ()
    if root is not None:
        environ["SCRIPT_NAME"] = root
    if path is not None:
        environ["PATH_INFO"] = path
    before = dict(environ)
    # ---- ASGI
    seen_a = []
    try:
        app_a = build(tree, ASubpaths, asgi_leaf, seen_a)
    except AssertionError:
        app_a = None
    if app is None or app_a is None:
        if app is None and app_a is None:
            return [["exc", "AssertionError"]]
        return [["weird", "only one interface refuses the table"]]
    for pp in prelude:       # the answer to a request must not depend on what the application was asked before
        e0 = base_environ()
        e0["SCRIPT_NAME"], e0["PATH_INFO"] = "", pp
        call_wsgi(app, e0)
        s0 = base_scope(0)
        s0["root_path"], s0["path"], s0["raw_path"] = "", pp, pp.encode("utf-8")
        call_asgi(app_a, s0)
    del seen[:]
    del seen_a[:]
    out.append(observe_mount(call_wsgi(app, environ), seen, before, environ, "SCRIPT_NAME", "PATH_INFO"))
    scope = base_scope(lifespan)
    if root is not None:
        scope["root_path"] = root
    if path is not None:
        scope["path"] = path
        scope["raw_path"] = path.encode("utf-8")
    before_a = dict(scope)
    out.append(observe_mount(call_asgi(app_a, scope), seen_a, before_a, scope, "root_path", "path"))
    return out


def observe_hosts(res, seen, before, after):
    if res[0] in ("exc", "weird"):
        return [res[0], res[1]]
    status, body = res
    if len(seen) == 1 and status == 200 and body == b"leaf %d" % seen[0][0]:
        i, env = seen[0]
        if changed_keys(before, env, ()):
            return ["weird", "request changed: " + ",".join(changed_keys(before, env, ()))]
        return ["ran", i]
    if not seen and status == 404:
        if changed_keys(before, after, ()):
            return ["weird", "request changed: " + ",".join(changed_keys(before, after, ()))]
        return ["404"]
    return ["weird", "status %s, %d leaf calls" % (status, len(seen))]


def impl_hosts(case):
    from baize.wsgi.routing import Hosts as WHosts
    from baize.asgi.routing import Hosts as AHosts
    _, patterns, wh, headers, lifespan, _rows = case[:6]
    prelude = case[6] if len(case) > 6 else []     # Host values the same application objects are asked first
    out = []
    seen = []
    app = WHosts(*[(p, wsgi_leaf(i, seen)) for i, p in enumerate(patterns)])
    environ = base_environ()
    environ["SCRIPT_NAME"] = ""
    environ["PATH_INFO"] = "/"
    if wh:
        environ["HTTP_HOST"] = wh[0]
    before = dict(environ)
    seen_a = []
    app_a = AHosts(*[(p, asgi_leaf(i, seen_a)) for i, p in enumerate(patterns)])
    for h in prelude:
        e0 = base_environ()
        e0["SCRIPT_NAME"], e0["PATH_INFO"], e0["HTTP_HOST"] = "", "/", h
        call_wsgi(app, e0)
        s0 = base_scope(0)
        s0["path"], s0["root_path"], s0["headers"] = "/", "", [(b"host", h.encode("latin-1"))]
        call_asgi(app_a, s0)
    del seen[:]
    del seen_a[:]
    out.append(observe_hosts(call_wsgi(app, environ), seen, before, environ))
    scope = base_scope(lifespan)
    if not lifespan:
        scope["path"] = "/"
        scope["root_path"] = ""
        scope["headers"] = [(k.encode("latin-1"), v.encode("latin-1")) for k, v in headers]
    before_a = dict(scope)
    out.append(observe_hosts(call_asgi(app_a, scope), seen_a, before_a, scope))
    return out


def ENCODE(case):
    # the requests an application object served before are not the model's business: dispatch is a function of the table and
    # the request (theorems mount_first, hosts_first)
    n = 5 if case[0] == "mount" else 6
    return core.enc_line(case[:n])


def impl(case):
    if case[0] == "mount":
        return impl_mount(case)
    if case[0] == "hosts":
        return impl_hosts(case)
    return ["badcase"]


# ---------------------------------------------------------------- the property on the observations


def on_boundary(prefix, path):
    """the prefix equals the path or is followed by '/' in it"""
    if path == prefix:
        return True
    return path[:len(prefix)] == prefix and path[len(prefix):len(prefix) + 1] == "/"


def valid_prefix(p):
    return p == "" or (p[0] == "/" and p[-1] != "/")


def all_prefixes(tree):
    if isinstance(tree, int):
        return
    for p, t in tree:
        yield p
        yield from all_prefixes(t)


def chain_to(tree, leaf_id):
    """The positions chosen on the way from the top to the leaf: [(table, index), ...] or None."""
    if isinstance(tree, int):
        return [] if tree == leaf_id else None
    for i, (p, t) in enumerate(tree):
        c = chain_to(t, leaf_id)
        if c is not None:
            return [(tree, i)] + c
    return None


def follow(tree, path):
    """Walk down along the least boundary-matching entry of every table.
    -> ('leaf', id, consumed prefixes, rest) | ('404', consumed prefixes, rest)"""
    used = []
    while not isinstance(tree, int):
        for p, t in tree:
            if on_boundary(p, path):
                used.append(p)
                path = path[len(p):]
                tree = t
                break
        else:
            return ("404", used, path)
    return ("leaf", tree, used, path)


def oracle_mount_one(name, tree, root, path, lifespan, o):
    what = "%s tree=%r root=%r path=%r" % (name, tree, root, path)
    if o[0] == "weird":
        return ("mount-weird", "%s: %s" % (what, o[1]))
    if o[0] == "exc":
        legit = name == "asgi" and not isinstance(tree, int) and (lifespan or path is None)
        if legit and o[1] == ("RuntimeError" if lifespan else "KeyError"):
            return None
        return ("mount-raises-" + o[1], "%s raised %s" % (what, o[1]))
    if name == "asgi" and not isinstance(tree, int) and (lifespan or path is None):
        return ("mount-no-error", "%s: expected an exception, got %r" % (what, o))
    r0, p0 = root or "", path or ""
    kind = o[0]
    if kind == "ran":
        _, leaf_id, ro, po, changed = o
        chain = chain_to(tree, leaf_id)
        if chain is None:
            return ("mount-unknown-leaf", "%s ran leaf %r" % (what, leaf_id))
        if changed:
            return ("mount-touches-other-keys", "%s changed %r" % (what, changed))
        if not chain:
            if [ro, po] != [opt(root), opt(path)]:
                return ("mount-leaf-request-changed", "%s: bare leaf saw %r %r" % (what, ro, po))
            return None
        cur = p0
        consumed = ""
        for table, i in chain:
            p = table[i][0]
            if not on_boundary(p, cur):
                return ("mount-not-on-boundary", "%s: entry %r selected for path %r" % (what, p, cur))
            for j in range(i):
                if on_boundary(table[j][0], cur):
                    return ("mount-not-first", "%s: entry %d (%r) selected although entry %d (%r) matches %r"
                            % (what, i, p, j, table[j][0], cur))
            cur = cur[len(p):]
            consumed += p
        r1, p1 = unopt(ro), unopt(po)
        if r1 is None or p1 is None:
            return ("mount-key-missing", "%s: leaf saw root %r path %r" % (what, ro, po))
        if r1 + p1 != r0 + p0:
            return ("mount-full-path-changed", "%s: leaf saw %r + %r" % (what, r1, p1))
        if r1 != r0 + consumed:
            return ("mount-root-not-appended", "%s: leaf saw root %r, expected %r" % (what, r1, r0 + consumed))
        if p1 != cur:
            return ("mount-wrong-remainder", "%s: leaf saw path %r, expected %r" % (what, p1, cur))
        if not (p1 == "" or p1.startswith("/")):
            return ("mount-remainder-not-a-path", "%s: leaf saw path %r" % (what, p1))
        return None
    if kind == "404":
        _, ro, po, changed = o
        exp = follow(tree, p0)
        if exp[0] != "404":
            return ("mount-404-although-matching", "%s answered 404, leaf %r should run" % (what, exp[1]))
        if changed:
            return ("mount-touches-other-keys", "%s changed %r" % (what, changed))
        used = exp[1]
        if not used:
            if [ro, po] != [opt(root), opt(path)]:
                return ("mount-404-touched", "%s answered 404 and left root %r path %r" % (what, ro, po))
            return None
        # 404 below a successful outer dispatch: the outer rewrite stands, the inner mount adds nothing
        if [ro, po] != [[r0 + "".join(used)], [exp[2]]]:
            return ("mount-404-touched", "%s: inner 404 left root %r path %r, expected %r %r"
                    % (what, ro, po, r0 + "".join(used), exp[2]))
        return None
    return ("mount-bad-observation", "%s: %r" % (what, o))


def oracle_mount(case, obs):
    _, tree, ro, pa, lifespan = case[:5]
    root, path = unopt(ro), unopt(pa)
    if obs and obs[0] == "driver-exception":
        return ("driver-" + str(obs[1]), str(obs[2]))
    ok = all(valid_prefix(p) for p in all_prefixes(tree))
    if len(obs) == 1:
        if obs[0] == ["exc", "AssertionError"] and not ok:
            return None
        return ("mount-construction", "tree %r: %r" % (tree, obs[0]))
    if not ok:
        return ("mount-invalid-prefix-accepted", "tree %r was constructed" % (tree,))
    for name, o in zip(("wsgi", "asgi"), obs):
        v = oracle_mount_one(name, tree, root, path, lifespan, o)
        if v is not None:
            return v
    return None


def oracle_hosts(case, obs):
    _, patterns, wh, headers, lifespan, rows = case[:6]
    if obs and obs[0] == "driver-exception":
        return ("driver-" + str(obs[1]), str(obs[2]))
    for t, row in rows:
        if row != match_row(patterns, t):
            return ("hosts-case-inconsistent", "row of %r" % (t,))
    compiled = [re.compile(p) for p in patterns]

    def expected(host):
        for i, c in enumerate(compiled):
            m = c.fullmatch(host)
            if m is not None and m.span() == (0, len(host)):
                return ["ran", i]
        return ["404"]

    w, a = obs
    for name, o in (("wsgi", w), ("asgi", a)):
        if o[0] == "weird":
            return ("hosts-weird", "%s patterns=%r: %s" % (name, patterns, o[1]))
    host_w = unopt(wh) or ""
    if w[0] == "exc":
        return ("hosts-raises-" + w[1], "wsgi patterns=%r host=%r raised %s" % (patterns, host_w, w[1]))
    if w != expected(host_w):
        return ("hosts-wrong-entry", "wsgi patterns=%r Host=%r: %r, expected %r" % (patterns, unopt(wh), w, expected(host_w)))
    if lifespan:
        if a != ["exc", "RuntimeError"]:
            return ("hosts-lifespan", "asgi lifespan scope: %r" % (a,))
        return None
    if a[0] == "exc":
        return ("hosts-raises-" + a[1], "asgi patterns=%r headers=%r raised %s" % (patterns, headers, a[1]))
    hv = [v for k, v in headers if k == "host"]
    if len(hv) <= 1:
        host_a = hv[0] if hv else ""
        if a != expected(host_a):
            return ("hosts-wrong-entry", "asgi patterns=%r headers=%r: %r, expected %r" % (patterns, headers, a, expected(host_a)))
    else:
        # several Host headers: the property does not say which one counts; one of them must explain the answer
        if a not in [expected(h) for h in hv]:
            return ("hosts-wrong-entry", "asgi patterns=%r headers=%r: %r fits none of the Host values" % (patterns, headers, a))
    return None


def oracle(case, obs):
    if case[0] == "mount":
        return oracle_mount(case, obs)
    if case[0] == "hosts":
        return oracle_hosts(case, obs)
    return None


def count_entries(tree):
    if isinstance(tree, int):
        return 0
    return len(tree) + sum(count_entries(t) for _, t in tree)


def depth(tree):
    if isinstance(tree, int):
        return 0
    return 1 + max([depth(t) for _, t in tree] or [0])


def nontrivial(case, obs):
    if case[0] == "mount":
        tree = case[1]
        if len(obs) < 2:
            return False
        return count_entries(tree) >= 2 or depth(tree) >= 2 or obs[0][0] == "404"
    rows = case[5]
    return len(case[1]) >= 2 or any(0 < sum(r) < len(r) for _, r in rows)


def shrink_tree(tree):
    if isinstance(tree, int):
        return
    for i in range(len(tree)):
        yield tree[:i] + tree[i + 1:]
    for i, (p, t) in enumerate(tree):
        if not isinstance(t, int):
            yield tree[:i] + [[p, 0]] + tree[i + 1:]
            for t2 in shrink_tree(t):
                yield tree[:i] + [[p, t2]] + tree[i + 1:]
        if len(p) > 1:
            yield tree[:i] + [[p[:-1], t]] + tree[i + 1:]


def renumber(tree):
    def strip(t):
        return None if isinstance(t, int) else [[p, strip(s)] for p, s in t]
    return number(strip(tree))


def shrink(case):
    if case[0] == "mount":
        _, tree, ro, pa, lifespan = case[:5]
        pre = [case[5]] if len(case) > 5 and case[5] else []
        if pre:
            for i in range(len(pre[0])):
                yield ["mount", tree, ro, pa, lifespan, pre[0][:i] + pre[0][i + 1:]]
        for t in shrink_tree(tree):
            yield ["mount", renumber(t), ro, pa, lifespan] + pre
        if ro and ro[0]:
            yield ["mount", tree, [""], pa, lifespan] + pre
        if pa:
            p = pa[0]
            for i in range(len(p)):
                yield ["mount", tree, ro, [p[:i] + p[i + 1:]], lifespan] + pre
        return
    if case[0] == "hosts":
        _, patterns, wh, headers, lifespan, _rows = case[:6]
        pre = [case[6]] if len(case) > 6 and case[6] else []
        if pre:
            for i in range(len(pre[0])):
                yield case[:6] + [pre[0][:i] + pre[0][i + 1:]]
        for i in range(len(patterns)):
            yield hosts_case(patterns[:i] + patterns[i + 1:], unopt(wh), headers, lifespan) + pre
        for i in range(len(headers)):
            yield hosts_case(patterns, unopt(wh), headers[:i] + headers[i + 1:], lifespan) + pre
        if wh:
            h = wh[0]
            for i in range(len(h)):
                h2 = h[:i] + h[i + 1:]
                yield hosts_case(patterns, h2, [[k, (h2 if v == h else v)] for k, v in headers], lifespan)


# ---------------------------------------------------------------- the source-level tie (tools/py2coq.py)


def extra_obligations(tier):
    """BaseSubpaths.search is translated to Gallina from the source in BAIZE_REPO as it is now, and coqc re-checks
    C09/Translated.v (translated loop = C09.Model.search, for every route list and path) against the fresh definition;
    the PyStr functions the translation is made of are compared with the interpreter's own str methods.
    In addition (tools/py2coq_c09.py, C09/TranslatedCall.v): Subpaths.__call__ and Hosts.__call__ of baize/wsgi/routing.py
    and baize/asgi/routing.py are translated the same way (environ / scope: an association list; self.search: an argument)
    and coqc re-checks that what `response` is and the environ / scope it is called with are the model's dispatch /
    hosts_wsgi / hosts_asgi on the request the dict holds, for every table, dict and fullmatch oracle, and that no other key
    changes; C09/PyLib.v is compared with the interpreter's dict.  A source the translator refuses is not applicable (None)."""
    import importlib.util
    spec = importlib.util.spec_from_file_location("py2coq", os.path.join(core.VERIF, "tools", "py2coq.py"))
    py2coq = importlib.util.module_from_spec(spec)
    spec.loader.exec_module(py2coq)
    spec = importlib.util.spec_from_file_location("py2coq_c09", os.path.join(core.VERIF, "tools", "py2coq_c09.py"))
    calls = importlib.util.module_from_spec(spec)
    spec.loader.exec_module(calls)
    # the four __call__ bodies around the search loops (C09/TranslatedCall.v; self.search is an argument of the generated
    # functions, instantiated by the theorems with the model's search / hosts_search over an arbitrary fullmatch oracle), and
    # C09/PyLib.v against this interpreter's dict; side by side with the tie of BaseSubpaths.search
    from concurrent.futures import ThreadPoolExecutor
    with ThreadPoolExecutor(2) as ex:
        a = ex.submit(py2coq.obligations, PID, core.REPO, core.VERIF)
        b = ex.submit(calls.obligations, core.REPO, core.VERIF)
        return list(a.result()) + list(b.result())


if __name__ == "__main__":
    import sys
    core.main(sys.modules[__name__])
