"""C13 \u2014 response headers cannot be split or smuggled: correspondence with C13/Model.v + property oracle."""
import itertools
import string

from . import core

PID = "C13"
MANIFEST = dict(text="Theorems mutation_invariant / cookie_pair_inert / redirect_inert / emitted_lines_clean about the Gallina model of "
             "MutableHeaders (with the MutableMapping mix-in mutators routed as CPython routes them), Cookie._quote/__str__, "
             "iri_to_uri (UTF-8 + percent-encoding) and list_headers: for every operation sequence from a clean mapping nothing "
             "stored contains CR/LF/NUL and a rejected store leaves the mapping as it was; for every name/value over all code "
             "points the quoted cookie pair has no CR/LF/NUL/';'/',' and re-scans as one token or one quoted string; every "
             "redirect target becomes unreserved/safe ASCII; every emitted header line is clean.  The model is compared with the "
             "live classes (header operations through BaseResponse.headers, set_cookie, list_headers both ways, RedirectResponse "
             "run as WSGI and ASGI application) on exhaustive small domains plus random cases.",
        note="Modelled, not verified: Python dict ordering, the collections.abc mix-ins (Mapping.__contains__/items, "
             "MutableMapping.setdefault/update/pop/popitem/clear), str.lower() (exact for U+0000..U+012F, identity above: the cases "
             "stay inside), str.translate, re fullmatch of a character class, urllib.parse.quote, str.encode. Out of the stated "
             "scope and NOT checked by baize (observed): the constructor's initial mapping, and the cookie attributes "
             "path/domain/samesite, which Cookie.__str__ copies unescaped.",
        technique="Coq proof (invariant by induction over operations; per-character facts by reflection over 0..255 plus an "
                  "arithmetic argument above) + executable model/implementation correspondence + property oracle",
        ref="5/C13")

RULE = ("cases: (a) every single mutating operation (set/append/setdefault/update) with every (name, value) over strings built "
        "from {CR LF NUL ; , = \" \\ space a A e-acute U+0100 U+2028} from an empty and a populated mapping, (b) every sequence "
        "of <=3 (thorough 4, and 5 over a 9-operation subset) operations over a 21-operation alphabet with clean and dirty "
        "names/values, (c) random sequences with cookies set through set_cookie, (d) Cookie(name, value) for all 256 Latin-1 "
        "characters, all strings of <=2 (thorough 3) alphabet characters, (thorough) all 65536 Latin-1 pairs as name and as "
        "value, random longer strings, (e) iri_to_uri / RedirectResponse (WSGI and ASGI) over all strings of <=2 (thorough 3) "
        "characters of the alphabet extended by %, /, ?, #, DEL, U+0080, U+07FF, U+0800, U+FFFF, U+10000, U+10FFFF and a lone "
        "surrogate, plus random unicode; non-trivial = an operation is rejected or changes the mapping, a cookie text needs "
        "quoting, a redirect target needs escaping")
TRUSTED = ["model of Python's insertion-ordered dict as an association list and of the collections.abc Mapping/MutableMapping "
           "mix-in methods (__contains__, items, setdefault, update, pop, popitem, clear)",
           "str.lower() modelled per code point: exact for U+0000..U+012F, identity above (generators keep header names inside "
           "the set where that is what CPython does)",
           "str.translate with a dict table, re.fullmatch('[...]+'), urllib.parse.quote, str.encode('utf-8'/'latin-1'/'ascii') "
           "as transcribed in C13/Model.v and Lib/Utf8.v, validated by this correspondence",
           "source-level tie for MutableHeaders.__setitem__: tools/py2coq.py (Python ast -> Gallina, fail-closed; self._dict "
           "declared as a str-keyed dict, str.lower left abstract) and coq/theories/Lib/PyStr.v (compared with the interpreter's "
           "str methods and dict on every run)"]
ASSUMPTIONS = ["names, values and targets are str (other types raise TypeError/AttributeError before anything is stored)",
               "the initial mapping given to the constructor is clean (the constructor does not check: outside the stated scope)",
               "cookie attributes (path, domain, samesite) are clean text chosen by the application, expires is not set "
               "(it is rendered by strftime, not from caller text)"]
EXHAUSTIVE = {"quick": True, "thorough": True}

CTL = ("\r", "\n", "\0")
ALPHA = ["\r", "\n", "\0", ";", ",", "=", '"', "\\", " ", "a", "A", "\xe9", "\u0100", "\u2028"]
URL_EXTRA = ["%", "/", "?", "#", "\x7f", "\x80", "\u07ff", "\u0800", "\uffff", "\U00010000", "\U0010ffff", "\ud800"]


def dirty(s):
    return any(c in s for c in CTL)


def model_lower_ok(ch):
    """True when the model's lower_cp agrees with CPython on this character."""
    return ord(ch) < 0x130 or ch.lower() == ch


# ------------------------------------------------------------------ generators

def l1_strings(tier):
    s1 = list(ALPHA) + ["x" + c + "y" for c in ALPHA]
    if tier == "quick":
        return s1, s1
    s2 = s1 + [a + b for a in ALPHA for b in ALPHA]
    return s1, s2


def seq_alphabet():
    return [
        ["set", "a", "v"], ["set", "A", "w\r"], ["set", "b\n", "v"], ["set", "a", "\0x"],
        ["append", "a", "v"], ["append", "A", "w\r"], ["append", "b\n", "v"], ["append", "n\0", "v"], ["append", "A", "u"],
        ["setdefault", "a", "v"], ["setdefault", "A", "w\r"], ["setdefault", "c\r", "v"], ["setdefault", "c", "x\0"],
        ["update", [["a", "v"], ["A", "w\r"], ["a", "z"]]], ["update", [["b\n", "v"]]], ["update", [["c", "u"], ["a", "t"]]],
        ["del", "a"], ["pop", "A"], ["popd", "b\n", "d"], ["popitem"], ["clear"],
        ["update", [["a", "v"], ["A", "w\r"], ["c", "z"]], "headers"], ["update", [["d\n", "v"], ["a", "y"]], "mheaders"],
        ["update", [["c", "u"], ["a", "t\0"]], "dict"],
        ["setobj", "a", "/next\r\nSet-Cookie: x=1", 0], ["setobj", "x-p", "clean/path", 1],
    ]


def seq_alphabet_small():
    return [
        ["set", "a", "v"], ["set", "A", "w\n"], ["append", "A", "u"], ["append", "a", "\0"], ["setdefault", "b", "x\r"],
        ["setdefault", "B", "v"], ["update", [["c", "u"], ["a\r", "t"], ["d", "s"]]], ["pop", "A"], ["popitem"],
    ]


CLEAN_CH = ["a", "A", "b", "Z", "\xe9", "\xc9", "\u0100", "\u2028", " ", ";", ",", "=", '"', "\\", "-", "1"]


def rand_str(rng, maxlen=4, p_dirty=0.25):
    n = rng.randrange(0, maxlen + 1)
    pool = ALPHA if rng.random() < p_dirty else CLEAN_CH
    return "".join(rng.choice(pool) for _ in range(n))


def rand_op(rng, names):
    kind = rng.choice(["set", "set", "append", "append", "setdefault", "update", "del", "pop", "popd", "popitem", "clear",
                       "set", "append", "setdefault", "update"])
    nm = lambda: rng.choice(names) if rng.random() < 0.75 else rand_str(rng, 3)
    if kind in ("set", "append", "setdefault", "popd"):
        return [kind, nm(), rand_str(rng)]
    if kind in ("del", "pop"):
        return [kind, nm()]
    if kind == "update":
        return [kind, [[nm(), rand_str(rng, 3, 0.15)] for _ in range(rng.randrange(0, 4))]] + rng.choice([[], [], ["dict"], ["headers"], ["mheaders"]])
    return [kind]


def rand_cookie(rng):
    return [rand_str(rng, 4, 0.4), rand_str(rng, 5, 0.4), rng.choice([-1, -1, 0, 5, 3600, -7]),
            rng.choice(["/", "", "/a/b"]), rng.choice(["", "", "example.org"]), rng.randrange(2), rng.randrange(2),
            rng.choice(["lax", "strict", "none"])]


def batches(items, n):
    items = list(items)
    for i in range(0, len(items), n):
        yield items[i:i + n]


def rand_unicode(rng, maxlen=8):
    out = []
    for _ in range(rng.randrange(0, maxlen + 1)):
        r = rng.random()
        if r < 0.3:
            out.append(rng.choice(ALPHA + URL_EXTRA[:-1]))
        elif r < 0.6:
            out.append(chr(rng.randrange(0, 256)))
        elif r < 0.8:
            out.append(chr(rng.randrange(0x100, 0x3000)))
        elif r < 0.97:
            c = rng.randrange(0x3000, 0x110000)
            out.append(chr(c) if not 0xD800 <= c <= 0xDFFF else "\ufffd")
        else:
            out.append(chr(rng.randrange(0xD800, 0xE000)))
    return "".join(out)


def cases(tier, rng):
    quick = tier == "quick"
    # (a) every single mutating operation x (name, value)
    s1, s2 = l1_strings(tier)
    inits = [[], [["A", "i"], ["\u0100", "j"]]]
    combos = [(k, v) for k in s1 for v in s1] if quick else \
        sorted(set([(k, v) for k in s1 for v in s2] + [(k, v) for k in s2 for v in s1]))
    for init in inits:
        for k, v in combos:
            for kind in ("set", "append", "setdefault"):
                yield "single-op", ["resp", init, [[kind, k, v]], []]
            yield "single-op", ["resp", init, [["update", [["q", "0"], [k, v], ["r", "1"]]]], []]
            for how in ("dict", "headers", "mheaders"):
                yield "single-op", ["resp", init, [["update", [["q", "0"], [k, v], ["r", "1"]], how]], []]
    # (b) operation sequences
    ops = seq_alphabet()
    depth = 3 if quick else 4
    for n in range(depth + 1):
        for seq in itertools.product(ops, repeat=n):
            yield "op-sequences", ["resp", [], [o for o in seq], []]
    if not quick:
        for seq in itertools.product(seq_alphabet_small(), repeat=5):
            yield "op-sequences", ["resp", [], [o for o in seq], []]
    # the constructor does not check (observed, outside the stated scope)
    for init in ([["x", "a\r\nset-cookie: s=1"]], [["x\0", "v"]], [["X", "1"], ["x", "2"]], [["\xc9", "1"], ["\xe9", "2"]]):
        yield "constructor-observed", ["resp", init, [["append", "x", "t"], ["setdefault", "X", "u"]], []]
    # (c) random sequences with cookies
    for _ in range(4000 if quick else 30000):
        names = [rand_str(rng, 3, 0.15) for _ in range(3)] + ["a", "A", "Set-Cookie", "\xc9", "\u0100"]
        names = [n for n in names if all(model_lower_ok(c) for c in n)]
        init = [[rng.choice(names).replace("\r", "").replace("\n", "").replace("\0", ""), rand_str(rng, 3, 0.0)]
                for _ in range(rng.randrange(0, 3))]
        seq = [rand_op(rng, names) for _ in range(rng.randrange(1, 13))]
        cookies = [rand_cookie(rng) for _ in range(rng.randrange(0, 3))]
        yield "random-response", ["resp", init, seq, cookies]
    # (d) cookies
    latin1 = [chr(i) for i in range(256)]
    ck = [(c, c) for c in latin1] + [(c, "v") for c in latin1] + [("n", c) for c in latin1]
    ck += [("x" + c + "y", "p" + c) for c in latin1]
    for b in batches(ck, 64):
        yield "cookie-latin1", ["cookies", [list(p) for p in b]]
    maxlen = 2 if quick else 3
    strs = [""] + ["".join(t) for n in range(1, maxlen + 1) for t in itertools.product(ALPHA, repeat=n)]
    for b in batches([(s, s[::-1]) for s in strs], 64):
        yield "cookie-alphabet", ["cookies", [list(p) for p in b]]
    if quick:
        pairs = [chr(rng.randrange(256)) + chr(rng.randrange(256)) for _ in range(8000)]
    else:
        pairs = [a + b for a in latin1 for b in latin1]
    for b in batches([(s, "v") for s in pairs] + [("n", s) for s in pairs], 128):
        yield "cookie-latin1-pairs", ["cookies", [list(p) for p in b]]
    for _ in range(1000 if quick else 8000):
        yield "cookie-random", ["cookies", [[rand_unicode(rng, 10), rand_unicode(rng, 10)] for _ in range(8)]]
    # (e) redirect targets
    ualpha = ALPHA + URL_EXTRA
    ustrs = [""] + ["".join(t) for n in range(1, maxlen + 1) for t in itertools.product(ualpha, repeat=n)]
    for b in batches(ustrs, 64):
        yield "iri-alphabet", ["iri", b]
    rstrs = ustrs if not quick else [""] + ["".join(t) for n in (1, 2) for t in itertools.product(ALPHA, repeat=n)] + URL_EXTRA
    if not quick:
        rstrs = [s for s in ustrs if len(s) <= 2]
    for s in rstrs:
        yield "redirect", ["redir", s, []]
    for _ in range(1500 if quick else 10000):
        init = [] if rng.random() < 0.6 else [[rng.choice(["Location", "x", "Content-Length", "\xc9"]), rand_str(rng, 3, 0.0)]
                                              for _ in range(rng.randrange(1, 3))]
        yield "redirect-random", ["redir", rand_unicode(rng, 10), init]
    for _ in range(300 if quick else 3000):
        yield "iri-random", ["iri", [rand_unicode(rng, 12) for _ in range(16)]]


def search_cases(tier, rng, mism):
    yield from cases("thorough" if tier == "quick" else tier, rng)


# update(other): `other` may be a list of pairs (the default here), a dict, keyword arguments' dict, or a Headers /
# MutableHeaders object (whose constructor lower-cases the names, folds repeats and checks nothing).  Whatever it is,
# MutableMapping.update stores `other`'s items one by one through __setitem__.  ["update", pairs, how]: how in
# "dict" | "headers" | "mheaders"; absent = the pair list itself.
def update_source(o):
    pairs = [(k, v) for k, v in o[1]]
    how = o[2] if len(o) > 2 else "list"
    if how == "list":
        return pairs
    if how == "dict":
        return dict(pairs)
    from baize.datastructures import Headers, MutableHeaders
    return (Headers if how == "headers" else MutableHeaders)(pairs)


def update_pairs(o):
    """the (name, value) items the update stores, in order"""
    src = update_source(o)
    return [[k, v] for k, v in (src.items() if hasattr(src, "items") else src)]


def ENCODE(case):
    if case[0] == "resp" and any((o[0] == "update" and len(o) > 2) or o[0] == "setobj" for o in case[2]):
        ops = []
        for o in case[2]:
            if o[0] == "update":
                ops.append(["update", update_pairs(o)])
            elif o[0] == "setobj":
                ops.append(["set", o[1], "\n"])       # for the model: a store that is refused and changes nothing
            else:
                ops.append(o)
        case = [case[0], case[1], ops] + list(case[3:])
    return core.enc_line(case)


# ------------------------------------------------------------------ implementation driver

def _exc(e):
    return ["exc", type(e).__name__]


def _items(m):
    try:
        return [[k, v] for k, v in m.items()]
    except Exception as e:
        return _exc(e)


def _lat(x):
    return x.decode("latin-1") if isinstance(x, bytes) else x


def _pairs(l):
    return [[_lat(k), _lat(v)] for k, v in l]


def _apply(m, o):
    name = o[0]
    try:
        if name == "set":
            m[o[1]] = o[2]
            return []
        if name == "append":
            m.append(o[1], o[2])
            return []
        if name == "setobj":
            # a value that is not a str (here: a URL object, a pathlib path) whose text is o[2]: it is refused at the point
            # of mutation whatever its text (TypeError in the membership test), the mapping stays as it was — observed like
            # the refusal of a dirty str
            import pathlib
            from baize.datastructures import URL
            carrier = URL(o[2]) if o[3] == 0 else pathlib.PurePosixPath(o[2])
            try:
                m[o[1]] = carrier
            except (TypeError, ValueError):
                raise ValueError("refused")
            return []
        if name == "update":
            m.update(update_source(o))
            return []
        if name == "setdefault":
            return ["v", m.setdefault(o[1], o[2])]
        if name == "del":
            del m[o[1]]
            return []
        if name == "pop":
            return ["v", m.pop(o[1])]
        if name == "popd":
            return ["v", m.pop(o[1], o[2])]
        if name == "popitem":
            k, v = m.popitem()
            return ["p", k, v]
        if name == "clear":
            m.clear()
            return []
        return ["badop"]
    except (ValueError, KeyError) as e:
        return _exc(e)


def _run_wsgi(resp):
    got = []
    body = resp({"REQUEST_METHOD": "GET"}, lambda status, headers, exc_info=None: got.append(headers))
    for _ in body:
        pass
    return _pairs(got[0])


def _run_asgi(resp):
    got = []

    async def send(message):
        got.append(message)

    async def receive():
        return {"type": "http.disconnect"}

    coro = resp({"type": "http", "method": "GET"}, receive, send)
    try:
        coro.send(None)
        coro.close()
        raise RuntimeError("ASGI response suspended")
    except StopIteration:
        pass
    start = [m for m in got if m["type"] == "http.response.start"]
    return _pairs(start[0]["headers"])


def impl(case):
    kind = case[0]
    if kind == "resp":
        from baize.responses import BaseResponse
        init = [(k, v) for k, v in case[1]]
        resp = BaseResponse(headers=init if init else None)
        m = resp.headers
        out = [_items(m)]
        for o in case[2]:
            r = _apply(m, o)
            out.append([r, _items(m)])
        for n, v, max_age, path, domain, secure, httponly, samesite in case[3]:
            resp.set_cookie(n, v, max_age=max_age, path=path, domain=(domain or None), secure=bool(secure),
                            httponly=bool(httponly), samesite=samesite)
        for as_bytes in (False, True):
            try:
                out.append(_pairs(resp.list_headers(as_bytes=as_bytes)))
            except (UnicodeEncodeError, KeyError) as e:
                out.append(_exc(e))
        return out
    if kind == "cookies":
        from baize.datastructures import Cookie
        out = []
        for n, v in case[1]:
            c = Cookie(n, v)
            try:
                b = bytes(c).decode("latin-1")
            except UnicodeEncodeError as e:
                b = _exc(e)
            out.append([str(c), b])
        return out
    if kind == "redir":
        from baize.wsgi.responses import RedirectResponse as WR
        from baize.asgi.responses import RedirectResponse as AR
        init = [(k, v) for k, v in case[2]]
        out = []
        target = case[1]
        if len(repr(case)) % 2:
            # the target may be given as a URL object (the signature says Union[str, URL]): it is the same text
            from baize.datastructures import URL
            try:
                u = URL(case[1])
                if str(u) == case[1]:
                    target = u
            except Exception:  # noqa  (text urlsplit refuses: stays a str)
                pass
        for cls, runner in ((WR, _run_wsgi), (AR, _run_asgi)):
            try:
                out.append(runner(cls(target, headers=init if init else None)))
            except (UnicodeEncodeError, ValueError, KeyError) as e:
                out.append(_exc(e))
        return out
    if kind == "iri":
        from baize.responses import iri_to_uri
        out = []
        for s in case[1]:
            try:
                out.append(iri_to_uri(s))
            except UnicodeEncodeError as e:
                out.append(_exc(e))
        return out
    return ["badcase"]


# ------------------------------------------------------------------ the property on the observations

OCT = "01234567"
URI_OK = set(string.ascii_letters + string.digits + "_.-~" + "/#%[]=:;$&()+,!?*@'~")


def _is_exc(x, name=None):
    return isinstance(x, list) and len(x) == 2 and x[0] == "exc" and isinstance(x[1], str) and (name is None or x[1] == name)


def _scan_quoted(seg, i):
    """seg[i] == '"': scan a quoted string the way a cookie parser does; (decoded, index after the closing quote) or None"""
    out = []
    i += 1
    while i < len(seg):
        c = seg[i]
        if c == '"':
            return "".join(out), i + 1
        if c == "\\":
            if i + 1 >= len(seg):
                return None
            d = seg[i + 1]
            if d in '"\\':
                out.append(d)
                i += 2
            elif d in "0123" and i + 3 < len(seg) and seg[i + 2] in OCT and seg[i + 3] in OCT:
                out.append(chr(int(seg[i + 1:i + 4], 8)))
                i += 4
            else:
                return None
        else:
            out.append(c)
            i += 1
    return None


def parse_pair(seg):
    """first segment of a Set-Cookie line -> (name, value) as a user agent reads it, or None"""
    if seg.startswith('"'):
        r = _scan_quoted(seg, 0)
        if r is None:
            return None
        name, i = r
    else:
        i = seg.find("=")
        if i < 0:
            return None
        name = seg[:i].strip(" \t")
        if name != seg[:i]:
            return None
    if i >= len(seg) or seg[i] != "=":
        return None
    i += 1
    if i < len(seg) and seg[i] == '"':
        r = _scan_quoted(seg, i)
        if r is None or r[1] != len(seg):
            return None
        return name, r[0]
    value = seg[i:]
    if value.strip(" \t") != value or '"' in value:
        return None
    return name, value


def expected_attrs(max_age, path, domain, secure, httponly, samesite):
    a = []
    if max_age > -1:
        a.append("max-age=%d" % max_age)
    if domain:
        a.append("domain=" + domain)
    if path:
        a.append("path=" + path)
    if httponly:
        a.append("httponly")
    if secure or samesite in ("strict", "none"):
        a.append("secure")
    a.append("samesite=" + samesite)
    return a


def check_cookie_line(line, name, value, attrs):
    if dirty(line):
        return ("cookie-line-control-character", "Set-Cookie line %r for name %r value %r contains CR/LF/NUL" % (line, name, value))
    segs = line.split(";")
    first = segs[0]
    got_attrs = [s.strip(" ") for s in segs[1:]]
    if got_attrs != attrs:
        return ("cookie-extra-attribute", "Set-Cookie line %r for name %r value %r: attributes after the first ';' are %r, "
                "the cookie was given %r" % (line, name, value, got_attrs, attrs))
    if "," in first:
        return ("cookie-comma", "Set-Cookie line %r: the pair %r contains a bare comma" % (line, first))
    p = parse_pair(first)
    if p != (name, value):
        return ("cookie-pair-not-inert", "Set-Cookie line %r: the pair %r reads back as %r, the cookie was name %r value %r"
                % (line, first, p, name, value))
    return None


def check_uri(url, uri):
    from urllib.parse import unquote_to_bytes
    bad = [c for c in uri if c not in URI_OK]
    if bad:
        return ("redirect-unescaped", "target %r became %r which contains %r" % (url, uri, bad[:5]))
    if unquote_to_bytes(uri) != unquote_to_bytes(url.encode("utf-8")):
        return ("redirect-target-changed", "target %r became %r which does not decode to the same bytes" % (url, uri))
    return None


def _has_surrogate(s):
    return any(0xD800 <= ord(c) <= 0xDFFF for c in s)


def _pairs_clean(pairs):
    for k, v in pairs:
        if dirty(k) or dirty(v):
            return (k, v)
    return None


def oracle_resp(case, obs):
    init, ops, cookies = case[1], case[2], case[3]
    init_clean = all(not dirty(k) and not dirty(v) for k, v in init)
    if len(obs) != len(ops) + 3:
        return ("bad-observation", "expected %d entries, got %d" % (len(ops) + 3, len(obs)))
    before = obs[0]
    if _is_exc(before):
        return ("items-raises", "items() of the fresh mapping raised %s" % before[1])
    for o, (r, after) in zip(ops, obs[1:1 + len(ops)]):
        if _is_exc(after):
            return ("items-raises", "items() raised %s after %r" % (after[1], o))
        name = o[0]
        rejected = _is_exc(r, "ValueError")
        if init_clean:
            bad = _pairs_clean(after)
            if bad is not None:
                return ("stored-control-character", "after %r the mapping holds %r" % (o, bad))
        if name in ("set", "append"):
            d = dirty(o[1]) or dirty(o[2])
            if d and not rejected:
                return ("dirty-%s-not-rejected" % name, "%r returned %r, mapping %r -> %r" % (o, r, before, after))
            if init_clean and not d and rejected:
                return ("clean-%s-rejected" % name, "%r raised ValueError on mapping %r" % (o, before))
        elif name == "setobj":
            # a value that is not a str is refused whatever its text: nothing unchecked may enter through str(value)
            if not rejected:
                return ("non-str-value-stored", "%r (a %s object) was stored: %r -> %r" % (o, "URL" if o[3] == 0 else "path", before, after))
        elif name == "setdefault":
            d = dirty(o[1]) or dirty(o[2])
            present = [v for k, v in before if k == o[1].lower()]
            if present:
                if r != ["v", present[0]] or after != before:
                    return ("setdefault-present-changed", "%r on %r returned %r, mapping %r" % (o, before, r, after))
            elif d and not rejected:
                return ("dirty-setdefault-not-rejected", "%r returned %r, mapping %r -> %r" % (o, r, before, after))
            elif not d and rejected:
                return ("clean-setdefault-rejected", "%r raised ValueError on mapping %r" % (o, before))
        elif name == "update":
            o = ["update", update_pairs(o)]
            idx = [i for i, (k, v) in enumerate(o[1]) if dirty(k) or dirty(v)]
            if idx and not rejected:
                return ("dirty-update-not-rejected", "%r returned %r, mapping %r -> %r" % (o, r, before, after))
            if init_clean and not idx and rejected:
                return ("clean-update-rejected", "%r raised ValueError on mapping %r" % (o, before))
            if idx:
                touched = set(k.lower() for k, v in o[1][:idx[0]])
                if [p for p in after if p[0] not in touched] != [p for p in before if p[0] not in touched]:
                    return ("rejected-update-mutated", "%r raised at pair %d but changed other entries: %r -> %r"
                            % (o, idx[0], before, after))
        elif rejected:
            return ("unexpected-valueerror", "%r raised ValueError" % (o,))
        if rejected and name != "update" and after != before:
            return ("rejected-but-mutated", "%r raised ValueError and the mapping changed: %r -> %r" % (o, before, after))
        before = after
    lh_s, lh_b = obs[-2], obs[-1]
    if not init_clean:
        return None
    if _is_exc(lh_s):
        return ("list-headers-raises", "list_headers(as_bytes=False) raised %s" % lh_s[1])
    nh = len(before)
    if lh_s[:nh] != before or len(lh_s) != nh + len(cookies):
        return ("emitted-differs-from-stored", "list_headers gives %r, the mapping holds %r and %d cookies were set"
                % (lh_s, before, len(cookies)))
    bad = _pairs_clean(lh_s)
    if bad is not None:
        return ("emitted-control-character", "list_headers(as_bytes=False) emits %r" % (bad,))
    for ck, (hn, line) in zip(cookies, lh_s[nh:]):
        if hn != "set-cookie":
            return ("cookie-header-name", "cookie emitted under header name %r" % hn)
        v = check_cookie_line(line, ck[0], ck[1], expected_attrs(*ck[2:]))
        if v is not None:
            return v
    wide = any(ord(c) > 255 for k, v in before for c in k + v) or any(ord(c) > 255 for ck in cookies for c in ck[0] + ck[1])
    if _is_exc(lh_b):
        if lh_b[1] != "UnicodeEncodeError" or not wide:
            return ("list-headers-bytes-raises", "list_headers(as_bytes=True) raised %s, text view %r" % (lh_b[1], lh_s))
    elif lh_b != lh_s:
        return ("bytes-view-differs", "list_headers(as_bytes=True) gives %r, as_bytes=False gives %r" % (lh_b, lh_s))
    return None


def oracle(case, obs):
    if obs and obs[0] == "driver-exception":
        return ("raises-" + str(obs[1]), "driver raised %s: %s" % (obs[1], obs[2]))
    kind = case[0]
    if kind == "resp":
        return oracle_resp(case, obs)
    if kind == "cookies":
        if len(obs) != len(case[1]):
            return ("bad-observation", "expected %d entries" % len(case[1]))
        for (n, v), (line, b) in zip(case[1], obs):
            r = check_cookie_line(line, n, v, ["samesite=lax"])
            if r is not None:
                return r
            wide = any(ord(c) > 255 for c in n + v)
            if _is_exc(b):
                if b[1] != "UnicodeEncodeError" or not wide:
                    return ("cookie-bytes-raises", "bytes(Cookie(%r, %r)) raised %s" % (n, v, b[1]))
            elif b != line or any(ord(c) > 126 or ord(c) < 32 for c in b):
                return ("cookie-bytes-differ", "bytes(Cookie(%r, %r)) = %r, str = %r" % (n, v, b, line))
        return None
    if kind == "iri":
        if len(obs) != len(case[1]):
            return ("bad-observation", "expected %d entries" % len(case[1]))
        for s, u in zip(case[1], obs):
            if _is_exc(u):
                if u[1] != "UnicodeEncodeError" or not _has_surrogate(s):
                    return ("iri-raises", "iri_to_uri(%r) raised %s" % (s, u[1]))
                continue
            r = check_uri(s, u)
            if r is not None:
                return r
        return None
    if kind == "redir":
        url, init = case[1], case[2]
        if len(obs) != 2:
            return ("bad-observation", "expected 2 entries")
        for iface, o in zip(("wsgi", "asgi"), obs):
            if _is_exc(o):
                wide_init = iface == "asgi" and any(ord(c) > 255 for k, v in init for c in k + v)
                if o[1] != "UnicodeEncodeError" or not (_has_surrogate(url) or wide_init):
                    return ("redirect-raises", "%s RedirectResponse(%r, headers=%r) raised %s" % (iface, url, init, o[1]))
                continue
            bad = _pairs_clean(o)
            if bad is not None and all(not dirty(k) and not dirty(v) for k, v in init):
                return ("emitted-control-character", "%s RedirectResponse(%r) emits %r" % (iface, url, bad))
            loc = [v for k, v in o if k == "location"]
            if len(loc) != 1:
                return ("redirect-location-count", "%s RedirectResponse(%r) emits %d location headers: %r" % (iface, url, len(loc), o))
            r = check_uri(url, loc[0])
            if r is not None:
                return (r[0], iface + " " + r[1])
        if not _is_exc(obs[0]) and not _is_exc(obs[1]) and obs[0] != obs[1]:
            return ("interfaces-differ", "wsgi emits %r, asgi emits %r" % (obs[0], obs[1]))
        return None
    return ("bad-case", repr(case)[:100])


LEGAL = set(string.ascii_letters + string.digits + "!#$%&'*+-.^_`|~:")


def nontrivial(case, obs):
    kind = case[0]
    if kind == "resp":
        prev = obs[0]
        for r, v in obs[1:1 + len(case[2])]:
            if v != prev or _is_exc(r):
                return True
            prev = v
        return any(not (set(ck[0]) <= LEGAL and set(ck[1]) <= LEGAL) for ck in case[3])
    if kind == "cookies":
        return any(not (n and v and set(n) <= LEGAL and set(v) <= LEGAL) for n, v in case[1])
    if kind == "iri":
        return any(any(c not in URI_OK for c in s) for s in case[1])
    if kind == "redir":
        return any(c not in URI_OK for c in case[1])
    return False


def _shorter(s):
    for i in range(len(s)):
        yield s[:i] + s[i + 1:]


def shrink(case):
    kind = case[0]
    if kind == "resp":
        init, ops, cookies = case[1], case[2], case[3]
        for i in range(len(ops)):
            yield ["resp", init, ops[:i] + ops[i + 1:], cookies]
        for i in range(len(cookies)):
            yield ["resp", init, ops, cookies[:i] + cookies[i + 1:]]
        for i in range(len(init)):
            yield ["resp", init[:i] + init[i + 1:], ops, cookies]
        for i, o in enumerate(ops):
            if o[0] == "update":
                for j in range(len(o[1])):
                    yield ["resp", init, ops[:i] + [["update", o[1][:j] + o[1][j + 1:]] + o[2:]] + ops[i + 1:], cookies]
            else:
                for pos in range(1, len(o)):
                    if not isinstance(o[pos], str):
                        continue
                    for s in _shorter(o[pos]):
                        yield ["resp", init, ops[:i] + [o[:pos] + [s] + o[pos + 1:]] + ops[i + 1:], cookies]
        for i, ck in enumerate(cookies):
            for pos in (0, 1):
                for s in _shorter(ck[pos]):
                    yield ["resp", init, ops, cookies[:i] + [ck[:pos] + [s] + ck[pos + 1:]] + cookies[i + 1:]]
    elif kind == "cookies":
        ps = case[1]
        if len(ps) > 1:
            for p in ps:
                yield ["cookies", [p]]
        else:
            for pos in (0, 1):
                for s in _shorter(ps[0][pos]):
                    q = list(ps[0])
                    q[pos] = s
                    yield ["cookies", [q]]
    elif kind == "iri":
        ss = case[1]
        if len(ss) > 1:
            for s in ss:
                yield ["iri", [s]]
        else:
            for s in _shorter(ss[0]):
                yield ["iri", [s]]
    elif kind == "redir":
        for i in range(len(case[2])):
            yield ["redir", case[1], case[2][:i] + case[2][i + 1:]]
        for s in _shorter(case[1]):
            yield ["redir", s, case[2]]


# ---------------------------------------------------------------- the source-level tie (tools/py2coq.py)


def extra_obligations(tier):
    """MutableHeaders.__setitem__ is translated to Gallina from the source in BAIZE_REPO as it is now (self._dict a dict
    that is threaded and returned, str.lower an argument), and coqc re-checks C13/Translated.v (translated function =
    C13.Model.setitem for every key, value and mapping: same mapping afterwards, ValueError exactly when the model says
    so) against the fresh definition; the PyStr functions the translation is made of are compared with the interpreter's
    own str methods and dict.
    In addition (tools/py2coq_c13.py, C13/TranslatedMore.v): Headers.__getitem__, MutableHeaders.__delitem__,
    MutableHeaders.append and the loop of Headers.__init__ are translated the same way (`self[k] = v` in append: the
    freshly translated __setitem__; `k in self`: Mapping.__contains__ of the translated __getitem__) and coqc re-checks that
    each equals getitem / delitem / append / hinit of C13.Model for every key, value and mapping, and that from the
    TRANSLATED setitem / append / delitem a clean mapping stays clean and a raising operation changes nothing
    (translated_ops_preserve_clean); C13/PyLib.v is compared with the interpreter's dict, for statement and
    Mapping.__contains__.  A source the translator refuses is not applicable (None)."""
    import importlib.util
    import os
    spec = importlib.util.spec_from_file_location("py2coq", os.path.join(core.VERIF, "tools", "py2coq.py"))
    py2coq = importlib.util.module_from_spec(spec)
    spec.loader.exec_module(py2coq)
    spec = importlib.util.spec_from_file_location("py2coq_c13", os.path.join(core.VERIF, "tools", "py2coq_c13.py"))
    more = importlib.util.module_from_spec(spec)
    spec.loader.exec_module(more)
    from concurrent.futures import ThreadPoolExecutor
    with ThreadPoolExecutor(2) as ex:
        a = ex.submit(py2coq.obligations, PID, core.REPO, core.VERIF)
        b = ex.submit(more.obligations, core.REPO, core.VERIF)
        return list(a.result()) + list(b.result())


if __name__ == "__main__":
    import sys
    core.main(sys.modules[__name__])
