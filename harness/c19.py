"""C19 - server-sent events: correspondence of build_bytes_from_sse / the ping chunk / the headers with
C19/Model.v, and the property itself (WHATWG event-stream interpretation of the implementation's bytes)."""
import itertools

from . import core, util

PID = "C19"
MANIFEST = dict(text="Theorem stream_decodes_to_prefix composes this with C06: in every reachable state of the WSGI and ASGI event-stream transition systems (every schedule, every close/disconnect point) the bytes handed to the server decode to exactly the events 0..d-1 the producer yielded, in order, pings invisible. "
         "Theorems sse_roundtrip / sse_roundtrip_messages / sse_data_any_text / normalise_meaning / ping_ignored / "
             "sequence_in_order / sequence_messages / splitlines_refuted / splitlines_refuted_unicode: for every "
             "data text (all code points) and every well-formed event dict the text written by build_bytes_from_sse is "
             "decoded by the WHATWG event-stream interpretation (transcribed as the specification) into exactly one block with the "
             "same name, id and retry whose data is the text with CRLF/CR replaced by LF; pings dispatch nothing and change no "
             "buffer; a sequence of events and pings decodes to the events in order. The model is compared with the live "
             "build_bytes_from_sse on every key subset x every data text up to length 3 (thorough 4-5) over the 15 critical "
             "characters, key orders, sequences with pings; the ping chunk and the headers are read from live WSGI and ASGI "
             "SendEventResponse objects; the Coq parser is compared with an independent Python transcription of the standard on "
             "generated streams. The encoder as it was before the repair (str.splitlines) is modelled too and refuted. "
             "announced_charset: the headers of a response built with charset cs carry exactly one Content-Type and it announces cs; "
             "one response object constructed with each of seven charsets answers 1-3 requests through its WSGI / ASGI interface "
             "(optionally after a request the client closed early), each stream is read back with the charset the headers ANNOUNCE "
             "and must be the whole stream (a response object has no memory of earlier requests: found the defect 058410f).",
        note="Modelled, not verified: str.encode/bytes.decode UTF-8 round trip (theorems are over code points; the harness "
             "decodes the real bytes as UTF-8), re.split, dict insertion order, str(int). The WHATWG algorithm is a "
             "hand transcription, validated against a second, independent Python transcription. The timing that interleaves "
             "pings (queue/threads, asyncio) is not modelled: sequences are concatenations of chunks.",
        technique="Coq proof (line-splitting distributes over complete blocks, field processing, newline normalisation) + "
                  "executable model/implementation correspondence + independent reference parser",
        ref="5/C19")

RULE = ("cases: (a) data-only and all-keys events x every data text of length <=3 (thorough <=4, data-only <=5) over "
        "{CR,LF,VT,FF,U+1C,U+1D,U+1E,U+85,U+2028,U+2029,space,':','a','e-acute',U+1F600} (exhaustive), every subset of "
        "{data,event,id,retry} x every data text of length <=2, (b) all 24 key orders, varied names/ids/retries, (c) random longer "
        "texts, (d) events outside the hypotheses (multi-line name/id, NUL id, negative retry: correspondence only), (e) sequences "
        "of events and pings, (f) live SendEventResponse objects on both interfaces (ping chunk, body, headers); one response object "
        "constructed with a charset (utf-8, latin-1, cp1252, iso-8859-15, cp1251, gb18030, shift_jis) answering 1-3 requests through "
        "its WSGI / ASGI interface, optionally after a request the client closed early: per request the stream read back with the "
        "charset the Content-Type ANNOUNCES, and the headers sent, (g) arbitrary "
        "streams through the Coq parser and the Python reference parser (token sequences exhaustive to length 4/5, random longer), "
        "(h) the pre-repair encoder (model of str.splitlines) against the interpreter's str.splitlines. "
        "non-trivial = an event whose data is empty or contains a separator/space/colon or that has >=2 keys; a sequence with >=2 "
        "items; a stream with at least one dispatched block; every live case; a pre-repair case whose decoding differs from the event")
TRUSTED = ["hand transcription of WHATWG HTML 9.2.6 'Interpreting an event stream' in C19/Model.v (spec), cross-validated on every "
           "run against an independent Python transcription (harness ref_parse)",
           "UTF-8 encode/decode round trip of CPython (the theorems speak about code points)"]
ASSUMPTIONS = ["the data text, event name and id contain no lone surrogates (they are text that UTF-8 can encode)",
               "charset is utf-8, the only encoding an EventSource decodes; under another ASCII-compatible charset the bytes are read back with that charset (text it can encode)",
               "event name and id: no CR/LF (single-line); id: no NUL (the standard ignores such an id); retry: a non-negative int",
               "an event without a 'data' key dispatches nothing by the standard; the theorem then speaks about the block record "
               "(DESIGN.md 5/C19 'Reading')",
               "an event's id and retry persist for later events (last event ID / reconnection time are per stream in the standard)"]
EXHAUSTIVE = {"quick": True, "thorough": True}

ALPHABET = ["\r", "\n", "\x0b", "\x0c", "\x1c", "\x1d", "\x1e", "\x85", "\u2028", "\u2029", " ", ":", "a", "\u00e9", "\U0001F600"]
NAMES = ["", "a", "message", " lead", "a:b", ":x", "\u00e9v", "x\u2028y", "\x0b", "data", "update "]
IDS = ["", "1", " x", "a:b", "\u2029", "\u00e9", "0042", "\x85z"]
RETRIES = [0, 1, 3000, 10 ** 20, 7]
KEYS = ("data", "event", "id", "retry")


CHARSET_TEXTS = [("latin-1", ["na\u00efve", "\u00a35", "\u00e9"]), ("cp1252", ["\u20acuro", "na\u00efve", "\u0153"]),
                 ("iso-8859-15", ["\u20ac", "\u00e9t\u00e9"]), ("cp1251", ["\u043f\u0440\u0438\u0432\u0435\u0442", "\u0436"]),
                 ("gb18030", ["\u901a\u77e5", "\u00e9", "\U0001F600"]), ("shift_jis", ["\u65e5\u672c\u8a9e", "\u8868\u793a"]),
                 ("utf-8", ["\u901a\u77e5", "\u00a35"])]


def texts(alphabet, maxlen):
    for n in range(maxlen + 1):
        for t in itertools.product(alphabet, repeat=n):
            yield "".join(t)


def mk(keys, data="", name="ev", id_="7", retry=3000):
    vals = {"data": data, "event": name, "id": id_, "retry": retry}
    return [[k, vals[k]] for k in keys]


def rand_text(rng, maxlen):
    n = rng.randrange(0, maxlen + 1)
    out = []
    for _ in range(n):
        r = rng.random()
        if r < 0.45:
            out.append(rng.choice(ALPHABET))
        elif r < 0.6:
            out.append("\r\n")
        elif r < 0.8:
            out.append(rng.choice("abc xyz:{}\",0123"))
        else:
            c = rng.choice([rng.randrange(0x20, 0x7f), rng.randrange(0xa0, 0x800), rng.randrange(0x800, 0xd800),
                            rng.randrange(0xe000, 0x10000), rng.randrange(0x10000, 0x110000), rng.randrange(0, 0x20)])
            out.append(chr(c))
    return "".join(out)


def rand_line(rng, maxlen, nul=False):
    t = rand_text(rng, maxlen).replace("\r", "").replace("\n", "")
    return t if nul else t.replace("\0", "")


def rand_event(rng, maxlen=12):
    keys = [k for k in KEYS if rng.random() < 0.6]
    rng.shuffle(keys)
    return mk(keys, rand_text(rng, maxlen), rng.choice(NAMES + [rand_line(rng, 6)]), rng.choice(IDS + [rand_line(rng, 6)]),
              rng.choice(RETRIES + [rng.randrange(0, 10 ** 6)]))


STREAM_TOKENS = ["data", "id", ":", " ", "\r", "\n", "x", "retry", "1"]
STREAM_TOKENS_RANDOM = ["data", "event", "id", "retry", ":", ":", " ", "\r", "\n", "\n", "\r\n", "a", "1", "23", "\0", "\ufeff",
                        "\u00e9", "x", "dat", "DATA", "\u2028", "data:", "data: ", "id: ", "event: ", "retry: ", ": ping", "\n\n", "-", "0"]


def cases(tier, rng, level=None):
    level = level if level is not None else (0 if tier == "quick" else 2)
    # (a) exhaustive small data texts
    full = 3 + (1 if level >= 1 else 0)
    for t in texts(ALPHABET, full):
        yield "exhaustive-data", ["enc", mk(("data",), t)]
        yield "exhaustive-data", ["enc", mk(("event", "data", "id", "retry"), t)]
    if level >= 2:
        for t in itertools.product(ALPHABET, repeat=5):
            yield "exhaustive-data", ["enc", mk(("data",), "".join(t))]
    for r in range(len(KEYS) + 1):
        for keys in itertools.combinations(KEYS, r):
            for t in texts(ALPHABET, 2):
                yield "exhaustive-subsets", ["enc", mk(keys, t)]
    # (b) key orders, names, ids, retries
    for keys in itertools.permutations(KEYS):
        for t in ("", "x", "a\nb", "\u2028", " :\r\n"):
            yield "key-orders", ["enc", mk(keys, t)]
    for r in (2, 3):
        for keys in itertools.permutations(KEYS, r):
            yield "key-orders", ["enc", mk(keys, "p\rq")]
    for name in NAMES:
        for id_ in IDS:
            for retry in RETRIES[:3]:
                yield "fields", ["enc", mk(("event", "id", "retry", "data"), "d", name, id_, retry)]
                yield "fields", ["enc", mk(("retry", "id", "event"), "", name, id_, retry)]
    for retry in RETRIES:
        yield "fields", ["enc", mk(("retry",), retry=retry)]
        yield "fields", ["enc", mk(("data", "retry"), "r", retry=retry)]
    # the examples of the pinned tests and of the property text
    for ev in ([["event", "only-event"]], [["data", "hello\nworld"]], [["id", "1"], ["data", '{"k":"\u2028"}']], []):
        yield "literal", ["enc", ev]
    # the encoder as it was before the repair (model of str.splitlines vs the interpreter's)
    for t in texts(ALPHABET, 3 if level == 0 else 4):
        yield "pre-repair-model", ["orig", mk(("data",), t)]
    for _ in range(500 if level == 0 else 5000):
        yield "pre-repair-model", ["orig", rand_event(rng, 12)]
    # ASCII-compatible charsets on ASCII text
    for cs in ("ascii", "latin-1", "utf-8", "cp1252", "iso-8859-15"):
        for t in ("", "a", "a\r\nb", " x:y\n"):
            yield "charsets", ["cs", cs, mk(("id", "data", "event"), t)]
    # other charsets on text they can encode: whoever decodes the bytes with the charset the response was given reads the event
    for cs, samples in CHARSET_TEXTS:
        for name in samples:
            for id_ in samples[:2]:
                for d in ("", samples[-1], "a\r\n " + samples[0] + "\n"):
                    yield "charsets", ["cs", cs, mk(("event", "id", "data"), d, name, id_)]
                    yield "charsets", ["cs", cs, mk(("data", "retry", "id"), d, name, id_)]
    # (c) random longer texts
    n_rand = 3000 if level == 0 else 40000
    for _ in range(n_rand):
        ev = rand_event(rng, rng.choice([6, 12, 40]))
        yield "random", ["enc", ev]
    # (d) outside the hypotheses: correspondence of the encoder and of the two parsers only
    for ev in ([["event", "a\nb"], ["data", "x"]], [["event", "a\rdata: y"], ["data", "x"]], [["id", "1\n\nid: 2"], ["data", "x"]],
               [["id", "a\0b"], ["data", "x"]], [["id", "\0"]], [["retry", -1], ["data", "x"]], [["retry", -300]],
               [["event", "\r"], ["id", "\n"]], [["data", "x"], ["id", "p\r\nq"]]):
        yield "outside-hypotheses", ["enc", ev]
    for _ in range(300 if level == 0 else 4000):
        keys = [k for k in KEYS if rng.random() < 0.7]
        rng.shuffle(keys)
        yield "outside-hypotheses", ["enc", mk(keys, rand_text(rng, 8), rand_text(rng, 5), rand_line(rng, 4, nul=True) + rng.choice(["", "\0", "\n"]),
                                           rng.choice([-1, -20, 0, 5]))]
    # (e) sequences with pings interleaved
    for a, b in itertools.product([mk(("data",), "1"), mk(("id", "data"), "2\n", id_="i2"), mk(("event",), name="n"), mk(("retry", "id"), id_="i4", retry=9),
                                   [], "ping"], repeat=2):
        yield "sequences", ["seq", [a, b]]
        yield "sequences", ["seq", ["ping", a, "ping", b, "ping"]]
    for _ in range(1500 if level == 0 else 20000):
        items = []
        for _ in range(rng.randrange(0, 7)):
            items.append("ping" if rng.random() < 0.3 else rand_event(rng, 6))
        yield "sequences", ["seq", items]
    # (f) live responses
    for iface in ("wsgi", "asgi"):
        yield "live", ["live", iface, []]
        yield "live", ["live", iface, [mk(("data",), "one"), mk(("id", "event", "data"), "two\r\n\u2028", "n", "i"), mk(("retry",), retry=5),
                                       mk(("data",), "")]]
    # live sequences: events with no field at all (the documented heart-beat event {}), empty data, falsy values —
    # nothing but the end of the generator may end the stream
    live_items = [[], mk(("data",), ""), mk(("data",), "x"), mk(("id",), id_=""), mk(("retry",), retry=0), mk(("event", "data"), "0", name="e")]
    for iface in ("wsgi", "asgi"):
        for a, b in itertools.product(live_items, repeat=2):
            yield "live", ["live", iface, [a, b]]
        for a in live_items:
            yield "live", ["live", iface, [a]]
            yield "live", ["live", iface, [mk(("data",), "first"), a, mk(("data",), "last")]]
        for _ in range(10 if level == 0 else 150):
            items = [rng.choice(live_items) if rng.random() < 0.5 else rand_event(rng, 6) for _ in range(rng.randrange(1, 7))]
            yield "live", ["live", iface, items]
    # (f2) one response object, constructed with a charset, answering several requests through its gateway interface
    # (a response object is a WSGI / ASGI application; the routers mount such objects): every request gets the whole
    # stream, and the headers announce the charset the bytes are written in — the stream is read back with the
    # ANNOUNCED charset (seeds C19-11, C19-12).  early=1: a request that the client closes after the first chunk
    # comes before the observed ones
    two = [mk(("data",), "one"), mk(("id", "data"), "two\n", id_="i2")]
    for iface in ("wsgi", "asgi"):
        for n, early in ((1, 0), (2, 0), (3, 0), (1, 1), (2, 1)):
            yield "live-charset-history", ["livecs", iface, "utf-8", n, two, early]
            yield "live-charset-history", ["livecs", iface, "utf-8", n, [mk(("data",), "\u00e9 \u2028")], early]
        yield "live-charset-history", ["livecs", iface, "utf-8", 2, [], 0]
        for cs, samples in CHARSET_TEXTS:
            for n, early in ((1, 0), (2, 0), (2, 1)):
                yield "live-charset-history", ["livecs", iface, cs, n, [mk(("event", "id", "data"), "a\r\n " + samples[0], samples[-1], samples[0]),
                                                                        mk(("data",), samples[-1])], early]
        for _ in range(6 if level == 0 else 80):
            cs, samples = rng.choice(CHARSET_TEXTS)
            items = [mk(("data", "id"), rng.choice(samples) + rng.choice(["", "\n", " x"]), id_=rng.choice(samples)) if rng.random() < 0.6
                     else rng.choice(live_items) for _ in range(rng.randrange(1, 4))]
            yield "live-charset-history", ["livecs", iface, cs, rng.randrange(1, 4), items, rng.randrange(0, 2)]
    # (g) arbitrary streams: Coq transcription of the standard vs the Python transcription
    for n in range((4 if level == 0 else 5) + 1):
        for t in itertools.product(STREAM_TOKENS, repeat=n):
            yield "streams-exhaustive", ["parse", "".join(t)]
    for s in ("\ufeffdata: x\n\n", "\ufeff\ufeffdata: x\n\n", "data: x\n\n\ufeffdata: y\n\n", "data\n\n", "data:\n\n", "data:  x\n\n", "data: x\r\r",
              "data: x\r\n\r\n", "data: x\n\r\n", "data:x\ndata\ndata: \n\n", "retry: 12a\ndata: x\n\n", "retry: \ndata: x\n\n", "retry:007\ndata:x\n\n",
              "retry: \u0661\ndata:x\n\n", "id: a\0\ndata:x\n\n", "id\ndata:x\n\n", "Data: x\n\n", " data: x\n\n", "event: e\n\ndata: x\n\n",
              "id: 1\ndata: a\n\ndata: b\n\nid\ndata: c\n\n", "data: x\n", "data: x", "data: x\n\r", "\r\n\n\r", ":\n\n", "event:  two\ndata\n\n"):
        yield "streams-literal", ["parse", s]
    for _ in range(4000 if level == 0 else 60000):
        toks = [rng.choice(STREAM_TOKENS_RANDOM) for _ in range(rng.randrange(0, 26))]
        yield "streams-random", ["parse", "".join(toks)]


def search_cases(tier, rng, mism):
    yield from cases(tier, rng, level=1)


# ---------------------------------------------------------------- reference parser (WHATWG HTML 9.2.6)


def ref_parse(text):
    """Independent transcription of 'Interpreting an event stream'.  One record per blank line:
    [event type buffer, data (last LF removed), last event ID, [reconnection time] or [], dispatched 0/1]."""
    if text[:1] == "\ufeff":
        text = text[1:]
    data, etype, last_id, retry = "", "", "", None
    blocks = []
    i, n = 0, len(text)
    while True:
        j = i
        while j < n and text[j] != "\r" and text[j] != "\n":
            j += 1
        if j == n:
            break                       # end of file: pending data is discarded
        line = text[i:j]
        i = j + 2 if (text[j] == "\r" and j + 1 < n and text[j + 1] == "\n") else j + 1
        if line == "":
            if data == "":
                blocks.append([etype, "", last_id, [] if retry is None else [retry], 0])
            else:
                blocks.append([etype, data[:-1] if data[-1] == "\n" else data, last_id, [] if retry is None else [retry], 1])
            data, etype = "", ""
            continue
        if line[0] == ":":
            continue
        k = line.find(":")
        if k >= 0:
            field, value = line[:k], line[k + 1:]
            if value[:1] == " ":
                value = value[1:]
        else:
            field, value = line, ""
        if field == "event":
            etype = value
        elif field == "data":
            data += value + "\n"
        elif field == "id":
            if "\0" not in value:
                last_id = value
        elif field == "retry":
            if value != "" and all(c in "0123456789" for c in value):
                retry = int(value)
    return blocks


# ---------------------------------------------------------------- implementation driver


def to_event(fields):
    return {k: v for k, v in fields}


def live(iface, events):
    """Drive a live SendEventResponse: the generator is held back until two chunks have been produced
    (these can only be keep-alive pings), then it yields the events.  Returns (ping chunks, other chunks, headers)."""
    if iface == "wsgi":
        import threading
        from baize.wsgi.responses import SendEventResponse
        gate = threading.Event()

        def gen():
            gate.wait(20)
            for e in events:
                yield to_event(e)

        r = SendEventResponse(gen(), ping_interval=0.005)
        it = r.render_stream()
        pre = [next(it), next(it)]
        r.ping_interval = 5
        gate.set()
        rest = list(it)
    else:
        import asyncio
        from baize.asgi.responses import SendEventResponse

        async def main():
            gate = asyncio.Event()

            async def gen():
                await asyncio.wait_for(gate.wait(), 20)
                for e in events:
                    yield to_event(e)

            r = SendEventResponse(gen(), ping_interval=0.005)
            it = r.render_stream()
            pre = [await it.__anext__(), await it.__anext__()]
            r.ping_interval = 5
            gate.set()
            rest = [c async for c in it]
            return r, pre, rest

        r, pre, rest = asyncio.run(main())
    pings = sorted(set(pre))
    headers = sorted([k.lower(), v] for k, v in r.list_headers(as_bytes=False))
    return pings, [c for c in rest if c not in pings], headers


class _Again:
    """an iterable whose every iteration starts a fresh stream of the same events (sync and async)"""

    def __init__(self, events):
        self.events = events

    def __iter__(self):
        for e in self.events:
            yield to_event(e)

    async def __aiter__(self):
        for e in self.events:
            yield to_event(e)


def _announced(headers):
    """the charset parameter of the Content-Type that was sent (utf-8 when there is none: what an EventSource assumes)"""
    for k, v in headers:
        if k == "content-type":
            for p in v.split(";")[1:]:
                a, _, b = p.strip().partition("=")
                if a.lower() == "charset":
                    return b.strip()
    return "utf-8"


def _read_back(chunks, headers):
    raw = b"".join(c for c in chunks if c != b": ping\n\n")
    cs = _announced(headers)
    try:
        return raw.decode(cs)
    except (UnicodeDecodeError, LookupError) as e:
        return "<not decodable with the announced charset %s: %s>" % (cs, type(e).__name__)


def live_charset(iface, charset, n, events, early):
    """one response object answers (early: a request closed after its first chunk, then) n requests; per observed
    request [text read back with the announced charset, headers sent]"""
    out = []
    if iface == "wsgi":
        from baize.wsgi.responses import SendEventResponse
        r = SendEventResponse(_Again(events), ping_interval=5, charset=charset)
        for k in range(early + n):
            starts = []
            it = r(util.wsgi_environ(), lambda status, headers, exc_info=None: starts.append((status, list(headers))))
            chunks = []
            try:
                for c in it:
                    chunks.append(c)
                    if k < early:
                        break
            finally:
                if hasattr(it, "close"):
                    it.close()
            if k >= early:
                headers = sorted([a.lower(), b] for a, b in (starts[-1][1] if starts else []))
                out.append([_read_back(chunks, headers), headers])
    else:
        import asyncio
        from baize.asgi.responses import SendEventResponse

        async def one(r, close_early):
            sent = []
            gone = asyncio.Event()
            first = [True]

            async def receive():
                if first[0]:
                    first[0] = False
                    return {"type": "http.request", "body": b"", "more_body": False}
                await gone.wait()
                return {"type": "http.disconnect"}

            async def send(m):
                sent.append(m)
                if close_early and m["type"] == "http.response.body" and m.get("body"):
                    gone.set()

            await asyncio.wait_for(r(util.http_scope(), receive, send), 20)
            return sent

        async def main():
            r = SendEventResponse(_Again(events), ping_interval=5, charset=charset)
            res = []
            for k in range(early + n):
                sent = await one(r, k < early)
                if k >= early:
                    start = [m for m in sent if m["type"] == "http.response.start"]
                    headers = sorted([a.decode("latin-1").lower(), b.decode("latin-1")] for a, b in (start[0].get("headers", []) if start else []))
                    res.append([_read_back([m.get("body", b"") for m in sent if m["type"] == "http.response.body"], headers), headers])
            return res

        out = asyncio.run(main())
    return out


_PING = []


def observed_ping():
    if not _PING:
        pings, _, _ = live("asgi", [])
        _PING.append(pings[0] if len(pings) == 1 else b"<" + b"|".join(pings) + b">")
    return _PING[0]


def build_before_repair(event, charset):
    """baize/responses.py build_bytes_from_sse as it was before the repair (git history of /repo), verbatim"""
    from itertools import chain
    if "data" in event:
        data = (f"data: {_}".encode(charset) for _ in event.pop("data").splitlines())
    else:
        data = ()
    return b"\n".join(
        chain(
            map(lambda k, v: f"{k}: {v}".encode(charset), event.keys(), event.values()),
            data,
            (b"", b""),  # for generate b"\n\n"
        )
    )


def impl(case):
    from baize.responses import build_bytes_from_sse
    op = case[0]
    if op == "parse":
        return [ref_parse(case[1])]
    if op == "orig":
        text = build_before_repair(to_event(case[1]), "utf-8").decode("utf-8")
        return [text, ref_parse(text)]
    try:
        if op == "enc":
            b = build_bytes_from_sse(to_event(case[1]), "utf-8")
        elif op == "cs":
            b = build_bytes_from_sse(to_event(case[2]), case[1])
        elif op == "seq":
            b = b"".join(observed_ping() if it == "ping" else build_bytes_from_sse(to_event(it), "utf-8") for it in case[1])
        elif op == "livecs":
            return live_charset(case[1], case[2], case[3], [it for it in case[4] if it != "ping"], case[5])
        elif op == "live":
            pings, chunks, headers = live(case[1], [it for it in case[2] if it != "ping"])
            return [[p.decode("utf-8") for p in pings], b"".join(chunks).decode("utf-8"), headers]
        else:
            return ["badcase"]
    except Exception as e:
        return [["exc", type(e).__name__]]
    # what an EventSource does with the bytes; under another charset: what a reader does that honours the charset of the response
    text = b.decode(case[1] if op == "cs" else "utf-8")
    return [text, ref_parse(text)]


# ---------------------------------------------------------------- the property on the implementation's bytes


def normalise(text):
    return text.replace("\r\n", "\n").replace("\r", "\n")


def in_hypotheses(fields):
    keys = [k for k, _ in fields]
    if len(set(keys)) != len(keys) or any(k not in KEYS for k in keys):
        return False
    for k, v in fields:
        if k == "retry":
            if not isinstance(v, int) or v < 0:
                return False
        elif not isinstance(v, str):
            return False
        elif k in ("event", "id") and ("\r" in v or "\n" in v):
            return False
        elif k == "id" and "\0" in v:
            return False
    return True


def expected_blocks(items):
    """what a conforming parser must report for the yielded items (events as field lists, or 'ping')"""
    last_id, retry, out = "", None, []
    for it in items:
        if it == "ping":
            out.append(["", "", last_id, [] if retry is None else [retry], 0])
            continue
        ev = to_event(it)
        last_id = ev.get("id", last_id)
        retry = ev.get("retry", retry)
        out.append([ev.get("event", ""), normalise(ev["data"]) if "data" in ev else "", last_id,
                    [] if retry is None else [retry], 1 if "data" in ev else 0])
    return out


FIELDS = ("name", "data", "id", "retry", "dispatched")


def compare_blocks(what, got, exp):
    if len(got) != len(exp):
        ng, ne = sum(b[4] for b in got), sum(b[4] for b in exp)
        if ng != ne:
            return ("wrong-event-count", "%s: a conforming parser dispatches %d event(s), %d were yielded with data (blocks %r)" % (what, ng, ne, got))
        return ("wrong-block-count", "%s: %d blank-line blocks instead of %d: %r" % (what, len(got), len(exp), got))
    for n, (g, e) in enumerate(zip(got, exp)):
        for i in (4, 1, 0, 2, 3):
            if g[i] != e[i]:
                return (FIELDS[i] + "-differs", "%s: block %d decodes with %s %r, yielded %r (block %r)" % (what, n, FIELDS[i], g[i], e[i], g))
    return None


def visible(blocks):
    """drop the records of blank lines that have no effect at all (nothing dispatched, no name, id and retry as before)"""
    prev, out = ("", []), []
    for b in blocks:
        if not (b[0] == "" and b[4] == 0 and (b[2], b[3]) == prev):
            out.append(b)
        prev = (b[2], b[3])
    return out


def check_ping(p):
    lines = ref_lines(p)
    if lines is None:
        return ("ping-unterminated", "the ping chunk %r does not end with a line end; it would merge with the next event" % p)
    if any(l != "" and l[0] != ":" for l in lines):
        return ("ping-not-a-comment", "the ping chunk %r has a line that is not a comment" % p)
    probe = ref_parse("id: k\nretry: 4\n\n" + p + "event: e\ndata: x\n\n" + p)
    if [b for b in probe if b[4]] != [["e", "x", "k", [4], 1]] or any(b[:4] not in (["", "", "k", [4]], ["e", "x", "k", [4]]) for b in probe):
        return ("ping-not-ignored", "the ping chunk %r changes what a parser reports: %r" % (p, probe))
    return None


def ref_lines(text):
    """complete lines of a text, or None when the text does not end with a line end"""
    if text == "" or text[-1] not in "\r\n":
        return None
    return normalise(text)[:-1].split("\n")


def oracle(case, obs):
    if obs and obs[0] == "driver-exception":
        return ("raises-" + str(obs[1]), "the driver raised %s: %s" % (obs[1], obs[2]))
    op = case[0]
    if op in ("parse", "orig"):
        return None
    if obs and isinstance(obs[0], list) and obs[0][:1] == ["exc"]:
        fields = case[2] if op == "cs" else case[1]
        if op in ("enc", "cs") and not in_hypotheses(fields):
            return None
        return ("raises-" + obs[0][1], "encoding %r raised %s" % (case[1:], obs[0][1]))
    if op in ("enc", "cs"):
        fields = case[2] if op == "cs" else case[1]
        if not in_hypotheses(fields):
            return None
        return compare_blocks("event %r" % (to_event(fields),), ref_parse(obs[0]), expected_blocks([fields]))
    if op == "seq":
        if not all(it == "ping" or in_hypotheses(it) for it in case[1]):
            return None
        return compare_blocks("sequence %r" % (case[1],), visible(ref_parse(obs[0])), visible(expected_blocks(case[1])))
    if op == "livecs":
        iface, cs, n, items = case[1], case[2], case[3], [it for it in case[4] if it != "ping"]
        if len(obs) != n:
            return ("requests-unanswered", "%d requests on one %s response object, %d answers" % (n, iface, len(obs)))
        for k, o in enumerate(obs):
            text, headers = o
            h = dict((a, b) for a, b in headers)
            ct = [x.strip() for x in h.get("content-type", "").split(";")]
            if ct[0].lower() != "text/event-stream" or len(ct) != 2 or not ct[1].lower().startswith("charset="):
                return ("content-type", "Content-Type is %r: text/event-stream with exactly one charset parameter expected" % h.get("content-type"))
            if all(in_hypotheses(it) for it in items):
                v = compare_blocks("%s response object built with charset=%s, request %d of %d%s, stream of %r read back with the announced %s"
                                   % (iface, cs, k + 1, n, " (after a request closed early)" if case[5] else "", items, ct[1]),
                                   visible(ref_parse(text)), visible(expected_blocks(items)))
                if v:
                    return ("live-" + v[0], v[1])
        return None
    if op == "live":
        pings, text, headers = obs
        if len(pings) != 1:
            return ("ping-varies", "chunks produced while the generator was blocked: %r" % (pings,))
        v = check_ping(pings[0])
        if v:
            return v
        h = dict((k, v) for k, v in headers)
        ct = [x.strip().lower() for x in h.get("content-type", "").split(";")]
        if ct[0] != "text/event-stream" or ct[1:] != ["charset=utf-8"]:      # exactly one charset parameter
            return ("content-type", "Content-Type is %r, an EventSource requires text/event-stream (utf-8)" % h.get("content-type"))
        if h.get("cache-control") != "no-cache":
            return ("cache-control", "Cache-Control is %r" % h.get("cache-control"))
        if case[1] == "asgi" and h.get("connection") != "keep-alive":
            return ("connection", "Connection is %r" % h.get("connection"))
        if case[1] == "wsgi" and "connection" in h:
            return ("connection", "a WSGI application must not send the hop-by-hop Connection header (PEP 3333)")
        evs = [it for it in case[2] if it != "ping"]
        return compare_blocks("live %s stream of %r" % (case[1], evs), visible(ref_parse(text)), visible(expected_blocks(evs)))
    return None


SPECIAL = set(ALPHABET) - {"a", "\u00e9", "\U0001F600"}


def nontrivial(case, obs):
    op = case[0]
    if op == "parse":
        return any(b[4] for b in obs[0])
    if op in ("live", "livecs"):
        return True
    if op == "seq":
        return len(case[1]) >= 2
    if op == "orig":
        ev = to_event(case[1])
        return "data" in ev and ref_parse(obs[0]) != expected_blocks([case[1]])
    fields = case[2] if op == "cs" else case[1]
    ev = to_event(fields)
    return len(ev) >= 2 or ("data" in ev and (ev["data"] == "" or any(c in SPECIAL for c in ev["data"])))


def shrink_fields(fields):
    for i in range(len(fields)):
        yield fields[:i] + fields[i + 1:]
    for i, (k, v) in enumerate(fields):
        if isinstance(v, str):
            for j in range(len(v)):
                yield fields[:i] + [[k, v[:j] + v[j + 1:]]] + fields[i + 1:]
        elif v not in (0, 1):
            yield fields[:i] + [[k, 1]] + fields[i + 1:]


def shrink(case):
    op = case[0]
    if op == "enc":
        for f in shrink_fields(case[1]):
            yield ["enc", f]
    elif op == "cs":
        for f in shrink_fields(case[2]):
            yield ["cs", case[1], f]
    elif op == "seq":
        items = case[1]
        for i in range(len(items)):
            yield ["seq", items[:i] + items[i + 1:]]
        if len(items) == 1 and items[0] != "ping":
            yield ["enc", items[0]]
        for i, it in enumerate(items):
            if it != "ping":
                for f in shrink_fields(it):
                    yield ["seq", items[:i] + [f] + items[i + 1:]]
    elif op == "live":
        items = case[2]
        for i in range(len(items)):
            yield ["live", case[1], items[:i] + items[i + 1:]]
    elif op == "livecs":
        items = case[4]
        for i in range(len(items)):
            yield case[:4] + [items[:i] + items[i + 1:], case[5]]
        if case[3] > 1:
            yield case[:3] + [case[3] - 1] + case[4:]
        if case[5]:
            yield case[:5] + [0]
        for i, it in enumerate(items):
            if it != "ping":
                for f in shrink_fields(it):
                    yield case[:4] + [items[:i] + [f] + items[i + 1:], case[5]]
    elif op == "parse":
        s = case[1]
        for i in range(len(s)):
            yield ["parse", s[:i] + s[i + 1:]]


# ---------------------------------------------------------------- the source-level tie (tools/py2coq_c19.py)


def extra_obligations(tier):
    """build_bytes_from_sse is translated to Gallina from the source in BAIZE_REPO as it is now (x.encode(charset) is an
    argument `encode` of the generated function, the event a dict of str / int values, re.split of the literal pattern a
    scan of C19/PyLib.v), and coqc re-checks C19/Translated.v against the fresh definition: for every event and every
    encode, what the translated function returns is the LF-join of encode(charset) of the model's field and data lines and
    the two empty items; it is encode(charset) of M.build_bytes_from_sse for a codec that distributes over concatenation
    and keeps LF; it is M.build_bytes_from_sse itself over code points.  Second obligation: C19/PyLib.v evaluated inside
    coqc against this interpreter's re.split, dict, f-string, map, chain and bytes.join.  A source the translator
    refuses is not applicable (None), no alarm."""
    import importlib.util
    import os
    spec = importlib.util.spec_from_file_location("py2coq_c19", os.path.join(core.VERIF, "tools", "py2coq_c19.py"))
    mod = importlib.util.module_from_spec(spec)
    spec.loader.exec_module(mod)
    return mod.obligations(core.REPO, core.VERIF)


if __name__ == "__main__":
    import sys
    core.main(sys.modules[__name__])
