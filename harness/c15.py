"""C15 — multipart limits are exact and enforced with bounded buffering (C15/Model.v on top of C01/Model.v).

Case formats (the last element `meta` is for the oracle only and is not sent to the model):
  ["form", boundary, utf8?, max_parts, [max_mem]|[], chunks, meta]
        parse_stream, parse_async_stream with the given limits; Request.form on WSGI and on ASGI (these pass no
        limits on: the helpers' defaults apply) — outcomes only (C01's driver)
  ["stream", boundary, utf8?, max_parts, [max_mem]|[], chunks, meta]
        a chunk is a list of pieces, a piece is a byte string or a run [byte, count] (megabyte parts stay small
        on the wire and in replay files).  Observed: MultipartDecoder driven directly (events, len(buffer), state
        after every chunk and at end of input); parse_stream and parse_async_stream with a counting file sink:
        after every completely processed chunk len(decoder.buffer), the state and the bytes written to the sink
        so far; the outcome.
meta = None (nothing is claimed) or [parts, preamble, epilogue, first_crlf?] with
       parts = [[kind, name, filename, [[header, value]...], content pieces]...]   (kind 0 field, 1 file);
       in "form" cases meta is C01's: the parts with plain contents.
"""
import itertools
import re

from . import core, util
from . import c01

PID = "C15"
MANIFEST = dict(
    text="Theorems limits_exact_events / limits_monotone / limits_only_through_over / parse_stream_fold / limits_exact_parts / "
         "limits_exact / limits_chunking_independent / buffer_bounded / unforwarded_bounded / buffer_pending / "
         "buffer_bounded_orig_refuted / buffer_bounded_0024_refuted about the multipart model shared with C01: for EVERY event list "
         "the stream helper answers 413 exactly when the parts ended exceed max_form_parts or the bytes of field data (files not "
         "counted, one total over the form) exceed max_form_memory_size, else the result without limits; composed with C01's "
         "decode_framing: for every well-formed form, EVERY chunking and every pair of limits parse_stream returns 413 iff "
         "parts > max_parts or field bytes > max_mem, else exactly the encoded items. For EVERY decoder state and chunk, after the "
         "event loop the buffer in DATA state holds at most len(boundary)+4+max(1, padding) bytes with the repaired hold-back "
         "(planned fix 0030), while the code before the repair and after the first repair attempt holds a whole part (parametric "
         "counter-examples for every n). The model is compared with parse_stream / parse_async_stream (a counting file sink, "
         "len(decoder.buffer), state and sink total after every chunk), with the decoder driven directly, and with Request.form on "
         "WSGI and ASGI.",
    note="Modelled, not verified: re, bytes methods, SpooledTemporaryFile (the sink is a counting subclass of UploadFile). "
         "Not bounded by design of the API: the header block of a part, the preamble, the epilogue and transport padding after "
         "a delimiter are buffered whole (explicit additive terms of buffer_bounded / buffer_pending). Request.form passes no "
         "limits to the helpers, so only the defaults (324 parts, no memory limit) are reachable there.",
    technique="Coq proof (fold invariant for the limits; termination measure of the event loop and a case analysis of the "
              "hold-back for the buffer bound; composition with C01's framing theorem) + executable model/implementation "
              "correspondence",
    ref="5/C15")

RULE = ("cases: (a) exhaustive: every form of up to 2 (thorough 3) parts, each a field or a file with 0-2 content bytes, x every "
        "max_form_parts in 0..parts+1 x every max_form_memory_size in {none, 0..total+1}, as one chunk and byte-wise; (b) random "
        "forms of C01's generator (0-4 parts, odd boundaries, contents seeded with CR, LF, dashes, delimiter prefixes) x limits at "
        "total-1 / total / total+1 for both limits x one chunk, byte-wise, random partitions, cuts near the delimiters, through "
        "both stream helpers and Request.form (WSGI, ASGI; 323-325 parts for the default limit); (c) the same forms with the "
        "per-chunk observation of buffer and sink; (d) adversarial parts: leading CR or LF then 100 kB - 1.1 MB without a line "
        "break, the boundary text inside the part, delimiter look-alikes, in 64 KiB and odd chunk sizes, as file (streaming) and "
        "as field under a memory limit (rejection as it arrives); quick: 60 kB parts and five 1.1 MB parts, thorough: 150 kB and nine 1.1 MB parts. non-trivial = a limit within 1 of its total, or a part "
        "delivered across at least two chunks")
TRUSTED = ["the multipart model of C01/Model.v (validated by C01's and this correspondence) and the transcription of "
           "pending_boundary_re as a dedicated matcher (C15/Model.v)"]
ASSUMPTIONS = ["limits_exact is about well-formed forms in the sense of C01/Spec.v (wf_form; it uses C01's decode_framing); "
               "limits_exact_events / limits_exact_parts hold for every event list",
               "the buffer bound concerns the DATA state; header blocks, preamble, epilogue and padding are unbounded by design",
               "oracle bound: len(boundary) + 5 + the longest run of horizontal white space in the body"]
EXHAUSTIVE = {"quick": True, "thorough": True}

CRLF = b"\r\n"
CHUNK = 65536
HWS = b" \t\x0b\x0c"

# ------------------------------------------------------------------ pieces


def expand(pieces):
    out = bytearray()
    for p in pieces:
        if isinstance(p, (bytes, bytearray)):
            out += p
        else:
            out += bytes([p[0]]) * p[1]
    return bytes(out)


_RUN = re.compile(rb"(.)\1{23,}", re.S)


def pieces_of(data):
    """bytes -> pieces: runs of 24 or more equal bytes become [byte, count]"""
    out = []
    pos = 0
    for m in _RUN.finditer(data):
        if m.start() > pos:
            out.append(data[pos:m.start()])
        out.append([data[m.start()], m.end() - m.start()])
        pos = m.end()
    if pos < len(data):
        out.append(data[pos:])
    return out


def piece_len(p):
    return len(p) if isinstance(p, (bytes, bytearray)) else p[1]


def rle(s):
    """run-length encoding of bytes / text as [[code, count]...]"""
    if isinstance(s, str):
        s = [ord(c) for c in s]
    return [[k, sum(1 for _ in g)] for k, g in itertools.groupby(s)]


def chunks_of(body, size):
    return [body[i:i + size] for i in range(0, len(body), size)]


# ------------------------------------------------------------------ generators


def limit_settings(n, total):
    """the settings around the exact totals"""
    out = []
    for mp in (n - 1, n, n + 1):
        if mp >= 0:
            out.append((mp, []))
    for mm in (total - 1, total, total + 1):
        if mm >= 0:
            out.append((324, [mm]))
    out.append((n, [total]))
    if n >= 1:
        out.append((n - 1, [total + 1]))
    if total >= 1:
        out.append((n + 1, [total - 1]))
    return out


def field_total(parts):
    return sum(len(p[4]) for p in parts if not p[0])


def stream_case(b, u, mp, mm, chunks, parts, pre=b"", epi=b"", first_crlf=True):
    meta = [[[p[0], p[1], p[2], p[3], pieces_of(p[4])] for p in parts], pre, epi, 1 if first_crlf else 0]
    return ["stream", b, u, mp, mm, [pieces_of(c) for c in chunks], meta]


def exhaustive_cases(tier):
    b = b"b"
    kinds = [(k, c) for k in (0, 1) for c in (b"", b"x", b"\r-")]
    maxparts = 2 if tier == "quick" else 3
    for n in range(maxparts + 1):
        for combo in itertools.product(kinds, repeat=n):
            parts = [[k, "n%d" % i, "f" if k else "", [], c] for i, (k, c) in enumerate(combo)]
            body, _ = c01.encode_form(b, parts, "utf-8")
            total = field_total(parts)
            bytewise = [body[i:i + 1] for i in range(len(body))]
            for mp in range(0, n + 2):
                for mm in [[]] + [[m] for m in range(0, total + 2)]:
                    yield "exhaustive-limits", ["form", b, 1, mp, mm, [body], parts]
                    if n < 3 or (mp + len(mm)) % 2:
                        yield "exhaustive-limits", stream_case(b, 1, mp, mm, bytewise, parts)


def padded_cases(tier, rng):
    """RFC 2046 allows transport padding (blanks, tabs) after a delimiter: a chunk edge anywhere inside such a line
    must not change the parts, nor the limits' verdict"""
    b = b"Bnd"
    forms = [[[0, "a", "", [], b"v1"], [0, "b", "", [], b"second"]],
             [[0, "a", "", [], b"x\r"], [1, "f", "n.bin", [], b"\r\n--Bn"], [0, "c", "", [], b""]]]
    pads = [b"   ", b" \t \t", b"\t" * 7, b" " * 12] if tier == "quick" else [b" ", b"  ", b"   ", b" \t \t", b"\t" * 7, b" " * 12, b" \x0b\x0c "]
    for parts in forms:
        plain, _ = c01.encode_form(b, parts, "utf-8")
        n, total = len(parts), field_total(parts)
        for pad in pads:
            body = plain.replace(b"--" + b + b"\r\n", b"--" + b + pad + b"\r\n").replace(b"--" + b + b"--\r\n", b"--" + b + b"--" + pad + b"\r\n")
            cuts = [i for i in range(len(body) + 1)]
            for i in cuts:
                # (limits that are not exceeded: the oracle times a 413 by the positions of the unpadded encoding)
                mp, mm = (n, [total]) if i % 2 == 0 else (324, [])
                yield "padded-delimiters", stream_case(b, 1, mp, mm, [body[:i], body[i:]], parts)
            yield "padded-delimiters", ["form", b, 1, max(0, n - 1), [], [body], parts]
            yield "padded-delimiters", ["form", b, 1, 324, [max(0, total - 1)], [body], parts]
            for size in (1, 2, 3, 5):
                yield "padded-delimiters", stream_case(b, 1, n, [total], chunks_of(body, size), parts)
                yield "padded-delimiters", ["form", b, 1, n, [total], chunks_of(body, size), parts]


def random_cases(tier, rng):
    n_forms = 250 if tier == "quick" else 4000
    for _ in range(n_forms):
        u = 1 if rng.random() < 0.7 else 0
        b, parts = c01.gen_form(rng, u, nparts=rng.choice([0, 1, 2, 2, 3, 4]))
        enc = "utf-8" if u else "latin-1"
        pre, epi, first_crlf = b"", b"", True
        r = rng.random()
        if r < 0.3:
            first_crlf = False
        elif r < 0.5:
            pre = c01.gen_content(rng, b, u)
        if rng.random() < 0.3:
            epi = rng.choice([b"\r\n", b"epilogue", b"--" + b + b"--\r\n", b"x" * 30])
        body, marks = c01.encode_form(b, parts, enc, pre, epi, first_crlf)
        n, total = len(parts), field_total(parts)
        chunkings = [c01.one_chunk(body), c01.bytewise(body, rng), c01.random_partition(body, rng),
                     c01.cuts_near(body, marks, rng, len(b) + 8)]
        for mp, mm in limit_settings(n, total):
            ch = rng.choice(chunkings)
            yield "form/limits", ["form", b, u, mp, mm, ch, parts]
            ch = rng.choice(chunkings)
            yield "stream/limits", stream_case(b, u, mp, mm, ch, parts, pre, epi, first_crlf)


def many_parts_cases(tier, rng):
    # the default limit of the request accessors (they pass no limits on)
    for n in ((323, 324, 325) if tier == "quick" else (322, 323, 324, 325, 326)):
        parts = [[rng.randrange(2) if n % 2 else 0, "k%d" % i, "f", [], b"v"] for i in range(n)]
        body, _ = c01.encode_form(b"B", parts, "utf-8")
        yield "many-parts", ["form", b"B", 1, n - 1, [], c01.random_partition(body, rng), parts]
        yield "many-parts", ["form", b"B", 1, n, [field_total(parts)], chunks_of(body, 997), parts]


def adversarial_contents(rng, b, size):
    """contents that a careless hold-back keeps whole: a lone CR or LF, then no further line break"""
    dd = b"--" + b
    x = b"x" * size
    half = size // 2
    return [
        ("leading-cr", b"\r" + x),
        ("leading-lf", b"\n" + x),
        ("leading-crlf", b"\r\n" + x),
        ("lf-then-cr-far-apart", b"\n" + b"x" * half + b"\r" + b"y" * half),
        ("boundary-text-after-cr", b"\r" + dd + b"x" + b"y" * size),
        ("boundary-text-mid-line", b"\rab" + dd + b"-x" + b"y" * size),
        ("boundary-text-then-padding-then-junk", b"\n" + dd + b" \t z" + b"y" * size),
        ("delimiter-look-alike-per-line", (b"\r\n-" + dd[:-1] + b"x" * 40) * max(1, size // (44 + len(dd)))),
        ("no-line-break", x),
        # a line that looks like an unfinished delimiter ('--b-', '--b' + blanks) but is followed by a line break and data:
        # the "still incomplete at the very end of the buffer" test must not fire in the middle of the buffer
        ("pending-look-alike-dash-lf", b"ab\r\n" + dd + b"-\n" + b"y" * size),
        ("pending-look-alike-dash-crlf", b"ab\n" + dd + b"-\r\nq" + b"y" * size),
        ("pending-look-alike-blanks-x", b"ab\r" + dd + b" \t\x0bz\n" + b"y" * size),
        ("pending-look-alike-per-line", (b"\n" + dd + b"-\n" + b"x" * 30) * max(1, size // (36 + len(dd)))),
    ]


def adversarial_cases(tier, rng):
    b = b"BoUnDaRy"
    big = 1100000
    # (the extracted model accumulates a part's content by appending: its cost grows with size^2 / chunk size)
    sizes = [(60000, (16384, 2000, 7919))] if tier == "quick" else [(150000, (CHUNK, 1000, 7919)), (20000, (97, 333, 4096))]
    for size, chunk_sizes in sizes:
        for label, content in adversarial_contents(rng, b, size):
            for cs in chunk_sizes:
                for kind in (1, 0):
                    parts = [[kind, "up", "big.bin" if kind else "", [], content]]
                    if rng.random() < 0.5:
                        parts.append([0, "after", "", [], b"tail\r\nvalue"])
                    body, _ = c01.encode_form(b, parts, "utf-8")
                    total = field_total(parts)
                    if kind:
                        mm = rng.choice([[], [total], [max(0, total - 1)]])
                    else:
                        mm = rng.choice([[total], [total - 1], [len(content) // 3], [1000], []])
                    yield "adversarial/" + label, stream_case(b, 1, 324, mm, chunks_of(body, cs), parts)
    # the quantifier's megabyte parts, 64 KiB chunks (few: each costs the extracted model some seconds)
    picks = [("leading-cr", 1, []), ("leading-lf", 1, []), ("boundary-text-after-cr", 1, []), ("leading-cr", 0, [4096]),
             ("leading-lf", 0, None)]
    if tier == "thorough":
        picks += [("lf-then-cr-far-apart", 1, []), ("boundary-text-mid-line", 0, [500000]), ("no-line-break", 1, []),
                  ("leading-crlf", 1, [])]
    table = dict(adversarial_contents(rng, b, big))
    for label, kind, mm in picks:
        content = table[label]
        parts = [[kind, "up", "big.bin" if kind else "", [], content]]
        body, _ = c01.encode_form(b, parts, "utf-8")
        if mm is None:
            mm = [len(content)]
        yield "megabyte/" + label, stream_case(b, 1, 324, mm, chunks_of(body, CHUNK), parts)


def cases(tier, rng):
    yield from exhaustive_cases(tier)
    yield from random_cases(tier, rng)
    yield from many_parts_cases(tier, rng)
    yield from adversarial_cases(tier, rng)
    yield from padded_cases(tier, rng)


def search_cases(tier, rng, mism):
    yield from cases("thorough" if tier == "quick" else tier, rng)


def ENCODE(case):
    if case[0] == "form":
        return core.enc_line(list(case[:6]) + c01.helper_defaults())
    items = list(case[:6])
    if sum(piece_len(p) for c in case[5] for p in c) > 8000:
        # a large body in few characters: an ignored filler keeps the line out of the in-kernel vm_compute sample
        # (core takes lines < 1500 characters for it; a megabyte there needs many minutes)
        items.append(b"." * 800)
    return core.enc_line(items)


# ------------------------------------------------------------------ implementation driver


def show_event_rle(ev, mp):
    if isinstance(ev, mp.Preamble):
        return ["preamble", rle(ev.data)]
    if isinstance(ev, mp.Data):
        return ["data", rle(ev.data), 1 if ev.more_data else 0]
    if isinstance(ev, mp.Epilogue):
        return ["epilogue", rle(ev.data)]
    return c01.show_event(ev, mp)


def state_names(mp):
    return {getattr(mp.State, k): k for k in ("PREAMBLE", "PART", "DATA", "EPILOGUE", "COMPLETE")}


def decoder_trace(b, u, chunks):
    from baize import multipart as mp
    from baize.exceptions import MalformedMultipart
    names = state_names(mp)
    dec = mp.MultipartDecoder(b, "utf-8" if u else "latin-1")
    trace = []
    for chunk in list(chunks) + [None]:
        dec.receive_data(chunk)
        evs, stop = [], False
        while True:
            try:
                ev = dec.next_event()
            except MalformedMultipart:
                evs.append(["malformed"])
                stop = True
                break
            if isinstance(ev, mp.NeedData):
                break
            evs.append(show_event_rle(ev, mp))
            if isinstance(ev, mp.Epilogue):
                break
        trace.append([evs, len(dec.buffer), names.get(dec.state, "?")])
        if stop:
            break
    return trace


def show_items_rle(items):
    out = ["items"]
    for k, v in items:
        if isinstance(v, str):
            out.append(["text", c01.show_name(k), rle(v)])
        else:
            # through every public reader (C01's file_bytes): the uploads here are large (beyond the 64 KiB copy buffer of
            # save() and the 1 MiB spool of UploadFile)
            out.append(["file", c01.show_name(k), v.filename, c01.show_hdrs(v.headers), rle(c01.file_bytes(v, lambda f: f.read()))])
            v.close()
    return out


def helper_trace(b, u, mp_, mm, chunks, asynchronous):
    """parse_stream / parse_async_stream with a counting sink; one tick per chunk that was processed completely"""
    from baize import multipart as mpm
    from baize.datastructures import UploadFile
    from baize.multipart_helper import parse_stream, parse_async_stream
    names = state_names(mpm)
    charset = "utf-8" if u else "latin-1"
    mmv = mm[0] if mm else None
    sunk = [0]
    created = []

    class Sink(UploadFile):
        __slots__ = ()

        def write(self, data):
            sunk[0] += len(data)
            super().write(data)

    if (len(chunks) + len(b)) % 2:
        # a file_factory is the caller's: one whose objects have a length (and are falsy while empty) is as good as any
        class Sink(Sink):
            __slots__ = ()

            def __len__(self):
                return self.file.tell()

    ticks = []

    def tick():
        if created:
            d = created[-1]
            ticks.append([len(d.buffer), names.get(d.state, "?"), sunk[0]])
        else:
            ticks.append(["no-decoder"])

    orig_init = mpm.MultipartDecoder.__init__

    def init(self, *a, **k):
        orig_init(self, *a, **k)
        created.append(self)

    def gen():
        for c in chunks:
            yield c
            tick()          # reached when the helper asks for the next chunk: c has been processed

    async def agen():
        for c in chunks:
            yield c
            tick()

    mpm.MultipartDecoder.__init__ = init
    try:
        if asynchronous:
            f = lambda: show_items_rle(util.run(parse_async_stream(agen(), b, charset, file_factory=Sink,
                                                                   max_form_parts=mp_, max_form_memory_size=mmv)))
        else:
            f = lambda: show_items_rle(parse_stream(gen(), b, charset, file_factory=Sink,
                                                    max_form_parts=mp_, max_form_memory_size=mmv))
        out = c01.outcome(f)
    finally:
        mpm.MultipartDecoder.__init__ = orig_init
    return ticks, out


def impl(case):
    op = case[0]
    if op == "form":
        return c01.impl_form(case[1], case[2], case[3], case[4], case[5])
    if op == "stream":
        b, u, mp_, mm = case[1], case[2], case[3], case[4]
        chunks = [expand(c) for c in case[5]]
        t1, o1 = helper_trace(b, u, mp_, mm, chunks, False)
        t2, o2 = helper_trace(b, u, mp_, mm, chunks, True)
        return [decoder_trace(b, u, chunks), t1, o1, t2, o2]
    return ["badcase"]


# ------------------------------------------------------------------ the property on the implementation's observations


def longest_hws_run(body):
    m = 0
    for r in re.finditer(rb"[ \t\x0b\x0c]+", body):
        m = max(m, r.end() - r.start())
    return m


def layout(b, parts, enc, pre, epi, first_crlf):
    """body, and per part (content start, content end, end of the delimiter line that terminates it)"""
    body, marks = c01.encode_form(b, parts, enc, pre, epi, first_crlf)
    spans = []
    for i, p in enumerate(parts):
        cs = marks[2 * i + 1]
        ce = cs + len(p[4])
        # CRLF "--" b, then CRLF (next part) or "--" (closing): recognised once these bytes are there
        de = ce + 2 + 2 + len(b) + 2
        spans.append((cs, ce, de))
    return body, spans


def expected_items_rle(parts, u):
    items = ["items"]
    for p in parts:
        kind, name, filename, extra, content = p
        if kind:
            items.append(["file", [name], filename, c01._norm(c01.expected_headers(p)), rle(content)])
        else:
            items.append(["text", [name], rle(c01.text_of(content, u))])
    return items


def limit_verdict(who, got, over, items):
    if over and got != ["413"]:
        return ("limit-not-enforced", "%s: over the limit but no 413: %r" % (who, str(got)[:200]))
    if not over and got == ["413"]:
        return ("limit-spurious-413", "%s: within the limits but 413" % who)
    if not over and got != items:
        return ("form-differs", "%s returned %r, encoded form %r" % (who, str(got)[:300], str(items)[:300]))
    return None


def oracle(case, obs):
    if obs and obs[0] == "driver-exception":
        return ("raises-" + str(obs[1]), "%s: unexpected exception %s: %s" % (case[0], obs[1], obs[2]))
    op = case[0]
    if op == "form":
        meta = case[6]
        if meta is None:
            return None
        u, mp_, mm = case[2], case[3], case[4]
        items = ["items"]
        for kind, name, filename, extra, content in meta:
            if kind:
                items.append(["file", [name], filename, c01._norm(c01.expected_headers([kind, name, filename, extra, content])),
                              c01._s(content)])
            else:
                items.append(["text", [name], c01.text_of(content, u)])
        n, total = len(meta), field_total(meta)
        d = c01.helper_defaults()
        settings = [(mp_, mm), (mp_, mm), (d[0], d[1]), (d[2], d[3])]
        for who, g, (p_, m_) in zip(("parse_stream", "parse_async_stream", "wsgi-Request.form", "asgi-Request.form"), obs, settings):
            over = n > p_ or (bool(m_) and total > m_[0])
            v = limit_verdict(who, g, over, items)
            if v:
                return (v[0] + "-" + who, v[1] + " (parts %d/%d, field bytes %d/%r, chunk sizes %r)"
                        % (n, p_, total, m_, [len(c) for c in case[5]][:20]))
        if obs[0] != obs[1]:
            return ("sync-async-differ", "parse_stream %r, parse_async_stream %r" % (str(obs[0])[:200], str(obs[1])[:200]))
        return None
    if op == "stream":
        meta = case[6]
        if meta is None:
            return None
        b, u, mp_, mm = case[1], case[2], case[3], case[4]
        parts = [[p[0], p[1], p[2], p[3], expand(p[4])] for p in meta[0]]
        pre, epi, first_crlf = meta[1], meta[2], bool(meta[3])
        body, spans = layout(b, parts, "utf-8" if u else "latin-1", pre, epi, first_crlf)
        sizes = [sum(piece_len(x) for x in c) for c in case[5]]
        actual = b"".join(expand(c) for c in case[5])      # (differs from `body` only by transport padding)
        bound = len(b) + 5 + max(longest_hws_run(body), longest_hws_run(actual))
        biggest = max(sizes) if sizes else 0
        # 1. the decoder driven directly: the hold-back in DATA state (the worst chunk is reported)
        held = [(blen, k) for k, (evs, blen, st) in enumerate(obs[0]) if st == "DATA"]
        if held and max(held)[0] > bound:
            blen, k = max(held)
            return ("holdback-unbounded-" + holdback_shape(b, parts, blen),
                    "decoder holds %d bytes after chunk %d (chunks of up to %d bytes; bound len(boundary)+5+padding = %d)"
                    % (blen, k, biggest, bound))
        n, total = len(parts), field_total(parts)
        over = n > mp_ or (bool(mm) and total > mm[0])
        items = expected_items_rle(parts, u)
        for who, ticks, out in (("parse_stream", obs[1], obs[2]), ("parse_async_stream", obs[3], obs[4])):
            v = limit_verdict(who, out, over, items)
            if v:
                return (v[0] + "-" + who, v[1] + " (parts %d/%d, field bytes %d/%r)" % (n, mp_, total, mm))
            received = 0
            for k, t in enumerate(ticks):
                received += sizes[k]
                if len(t) != 3:
                    return ("no-decoder-observed", "%s: %r" % (who, t))
                blen, st, sunk = t
                if st == "DATA" and blen > bound:
                    return ("holdback-unbounded-" + holdback_shape(b, parts, blen),
                            "%s: decoder holds %d bytes after chunk %d (bound %d)" % (who, blen, k, bound))
                file_in = sum(max(0, min(ce, received) - cs) for (cs, ce, de), p in zip(spans, parts) if p[0])
                field_in = sum(max(0, min(ce, received) - cs) for (cs, ce, de), p in zip(spans, parts) if not p[0])
                ended = sum(1 for (cs, ce, de) in spans if de <= received)
                if sunk < file_in - bound:
                    return ("upload-not-streamed", "%s: after chunk %d %d bytes of file content have arrived but only %d were "
                            "handed to the file (bound %d)" % (who, k, file_in, sunk, bound))
                if sunk > file_in:
                    return ("sink-got-more-than-arrived", "%s: after chunk %d sink has %d bytes, %d arrived" % (who, k, sunk, file_in))
                if mm and field_in - bound > mm[0]:
                    return ("over-limit-field-not-rejected-as-it-arrives",
                            "%s: chunk %d processed without 413 although %d bytes of field data had arrived "
                            "(limit %d, bound %d)" % (who, k, field_in, mm[0], bound))
                if ended > mp_:
                    return ("over-limit-parts-not-rejected-as-they-arrive",
                            "%s: chunk %d processed without 413 although %d parts had ended (limit %d)" % (who, k, ended, mp_))
            if not over and len(ticks) != len(sizes):
                return ("chunks-not-consumed", "%s: %d of %d chunks processed" % (who, len(ticks), len(sizes)))
        if (obs[1], obs[2]) != (obs[3], obs[4]):
            return ("sync-async-differ", "parse_stream and parse_async_stream differ in their per-chunk observations")
        return None
    return None


def holdback_shape(b, parts, held):
    """which of the two shapes of the defect a failing form shows (and whether at the quantifier's scale: the
    shrinker keeps the signature, so a megabyte case stays one)"""
    dd = b"--" + b
    shape = "boundary-text-in-part" if any(dd in p[4] for p in parts) else "lone-line-break"
    return shape + ("-megabyte" if held >= 500000 else "")


def nontrivial(case, obs):
    if case[6] is None:
        return False
    if case[0] == "form":
        n, total = len(case[6]), field_total(case[6])
        return abs(case[3] - n) <= 1 or (bool(case[4]) and abs(case[4][0] - total) <= 1)
    if case[0] == "stream":
        return sum(1 for t in obs[0] if t[2] == "DATA") >= 2 or len(obs[1]) >= 2
    return False


def shrink(case):
    if case[0] == "form":
        for c2 in c01.shrink(case):
            # keep the limits at the same distance from the totals
            if c2[6] is not None and case[6] is not None:
                dn = case[3] - len(case[6])
                c2 = list(c2)
                c2[3] = max(0, len(c2[6]) + dn)
                if case[4]:
                    c2[4] = [max(0, field_total(c2[6]) + case[4][0] - field_total(case[6]))]
            yield c2
        return
    if case[0] != "stream" or case[6] is None:
        return
    b, u, mp_, mm = case[1], case[2], case[3], case[4]
    meta = case[6]
    parts = [[p[0], p[1], p[2], p[3], expand(p[4])] for p in meta[0]]
    chunks = [expand(c) for c in case[5]]
    size = max([len(c) for c in chunks] + [1])

    def rebuild(parts2, size2, pre=meta[1], epi=meta[2]):
        body, _ = c01.encode_form(b, parts2, "utf-8" if u else "latin-1", pre, epi, bool(meta[3]))
        dn = mp_ - len(parts)
        mm2 = [max(0, field_total(parts2) + mm[0] - field_total(parts))] if mm else []
        return stream_case(b, u, max(0, len(parts2) + dn), mm2, chunks_of(body, size2), parts2, pre, epi, bool(meta[3]))

    for i in range(len(parts)):
        if len(parts) > 1:
            yield rebuild(parts[:i] + parts[i + 1:], size)
    if meta[1] or meta[2]:
        yield rebuild(parts, size, b"", b"")
    for i, p in enumerate(parts):
        c = p[4]
        if len(c) > 8:
            for q in (c[:len(c) // 2], c[:len(c) * 3 // 4], c[:-1]):
                yield rebuild(parts[:i] + [[p[0], p[1], p[2], p[3], q]] + parts[i + 1:], size)
    if size > 64:
        yield rebuild(parts, size // 2)


# ---------------------------------------------------------------- the source-level tie (tools/py2coq_c15.py)


def extra_obligations(tier):
    """The counting loop of parse_stream and of parse_async_stream (baize/multipart_helper.py) is translated from the source
    in BAIZE_REPO as it is now: the body of the inner `while True:` for one event as a transition of the six local
    variables (isinstance chain = match on the event, `raise RequestEntityTooLarge()` = an outcome, file_factory /
    file.write / file.seek / safe_decode / the decoder = fields of a record instantiated with the model's own functions),
    the two loops as C15/PyLib.v's for_chunks / while_events.  coqc re-checks C15/Translated.v against the fresh text:
    translated body = C01.Model.helper_event for every state, event and both limits; whole function =
    C15.Model.parse_stream_g for every chunk list and every DATA-state function; the limits are exact (raise at the first
    event at which a limit is exceeded, not before), for the sync and the async function.  A source the translator
    refuses is not applicable (None), never an alarm."""
    import importlib.util
    import os
    spec = importlib.util.spec_from_file_location("py2coq_c15", os.path.join(core.VERIF, "tools", "py2coq_c15.py"))
    py2coq_c15 = importlib.util.module_from_spec(spec)
    spec.loader.exec_module(py2coq_c15)
    return py2coq_c15.obligations(core.REPO, core.VERIF)


if __name__ == "__main__":
    import sys
    core.main(sys.modules[__name__])
