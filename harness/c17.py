"""C17 — multi-value mappings vs. the pair-list specification (C17/Model.v)."""
import itertools

from . import core

PID = "C17"
MANIFEST = dict(text="Theorems reachable_invariant / ops_refine / views_agree / spec_meaning / query_roundtrip / update_self_collapses: for every initial pair list and every "
             "operation sequence the dict+list representation of MutableMultiMapping refines a plain ordered pair list and all views "
             "agree with it; the model (dict as ordered association list, MutableMapping mix-in methods) is compared with the live "
             "class on all operation sequences up to length 2 (thorough 3) from all small initial lists plus random long sequences. "
             "update_self_collapses: m.update(m) (op updself = Update (d s)) leaves the dict unchanged and every key with exactly one "
             "pair carrying its last value (keys stay at the place of their first pair in the old pair list).",
        note="Modelled, not verified: Python dict ordering, the collections.abc.MutableMapping mix-in. "
             "query_roundtrip (parse_qsl inverts urlencode, ASCII keys and values) is the theorem of the URL model (C18), re-stated here; "
             "non-ASCII query text is covered by C18's correspondence only.",
        technique="Coq proof (representation invariant by induction over operations, refinement to a list specification) + correspondence",
        ref="5/C17")

RULE = ("cases: every operation sequence up to length n (quick 2, thorough 3) over the 33-operation alphabet on keys {0,1} "
        "values {5,6} from every initial pair list of <=2 (quick: also <=3 for length 1) pairs (exhaustive), random sequences "
        "of length <=40 over 4 keys, and immutable QueryParams/FormData/MultiMapping views of the same pairs; "
        "non-trivial = at least one operation changes the pair list or raises")
TRUSTED = ["model of Python's insertion-ordered dict as an association list and of the collections.abc.MutableMapping mix-in "
           "methods (pop, popitem, setdefault, update, clear)",
           "source-level tie for MultiMapping.getlist and MutableMultiMapping.append / __delitem__ / setlist / poplist / __setitem__: "
           "tools/py2coq.py (Python ast -> Gallina, fail-closed; self._list a list of pairs and self._dict an insertion-ordered "
           "dict that are threaded and returned, == on keys an argument) and coq/theories/Lib/PyList.v (the meaning given to "
           "comprehensions, enumerate, reversed, item assignment and deletion, dict get/set/del; compared with the interpreter's "
           "own list and dict on every run); theorems <method>_translated in C17/Translated.v, re-checked per method on every run",
           "second source-level tie (tools/py2coq_c17.py, C17/TranslatedMore.v): MultiMapping.__init__ / __getitem__ / __iter__ / "
           "__len__ / multi_items translated from the current source; the argument of __init__ is one of four shapes (None, "
           "another MultiMapping, a Mapping, an iterable of pairs: C17/PyLib.v raw) and the collections.abc.MutableMapping mix-in "
           "methods pop / popitem / clear / update / setdefault are C17/PyLib.v mm_* (CPython's definitions over the translated "
           "__getitem__ / __setitem__ / __delitem__ / __iter__), both compared with the running interpreter on every run; "
           "theorems *_translated, tstep_model, translated_invariant re-checked on every run"]
ASSUMPTIONS = ["keys are hashable with value equality (ints in the cases)"]
EXHAUSTIVE = {"quick": True, "thorough": True}

KEYS = (0, 1)
VALS = (5, 6)


def op_alphabet():
    ops = []
    for k in KEYS:
        for v in VALS:
            ops.append(["set", k, v])
            ops.append(["append", k, v])
            ops.append(["setdefault", k, v])
        ops.append(["del", k])
        ops.append(["poplist", k])
        ops.append(["pop", k])
        ops.append(["popd", k, 9])
        for vs in ([], [5], [5, 6], [6, 5]):
            ops.append(["setlist", k, vs])
    ops.append(["popitem"])
    ops.append(["clear"])
    ops.append(["update", [[0, 5]]])
    ops.append(["update", [[1, 6], [0, 6]]])
    ops.append(["update", [[0, 5], [0, 6]]])
    # update() with a mapping: another MultiMapping / dict built from the pairs, and the mapping itself (seed C17-14)
    ops.append(["updmap", [[0, 5], [1, 6], [0, 6]]])
    ops.append(["updself"])
    return ops


def initials(maxlen):
    pairs = [[k, v] for k in KEYS for v in VALS]
    for n in range(maxlen + 1):
        for combo in itertools.product(pairs, repeat=n):
            yield [list(p) for p in combo]


def cases(tier, rng):
    ops = op_alphabet()
    depth = 2 if tier == "quick" else 3
    for init in initials(2):
        for n in range(depth + 1):
            for seq in itertools.product(ops, repeat=n):
                yield "exhaustive", ["ops", init, [list(o) for o in seq]]
    for init in initials(3):
        if len(init) == 3:
            for o in ops:
                yield "exhaustive", ["ops", init, [o]]
        yield "immutable-views", ["imm", init]
    yield from qs_cases(tier, rng)
    nrand = 1500 if tier == "quick" else 20000
    for _ in range(nrand):
        init = [[rng.randrange(4), rng.randrange(3)] for _ in range(rng.randrange(0, 6))]
        seq = []
        for _ in range(rng.randrange(1, 41)):
            k, v = rng.randrange(4), rng.randrange(10, 14)
            kind = rng.choice(["set", "append", "setdefault", "del", "poplist", "pop", "popd", "setlist", "popitem",
                               "clear", "update", "set", "append", "setlist", "updself", "updmap"])
            if kind in ("set", "append", "setdefault", "popd"):
                seq.append([kind, k, v])
            elif kind in ("del", "poplist", "pop"):
                seq.append([kind, k])
            elif kind == "setlist":
                seq.append([kind, k, [rng.randrange(10, 14) for _ in range(rng.randrange(0, 4))]])
            elif kind in ("update", "updmap"):
                seq.append([kind, [[rng.randrange(4), rng.randrange(10, 14)] for _ in range(rng.randrange(0, 4))]])
            else:
                seq.append([kind])
        yield "random", ["ops", init, seq]
        if len(seq) <= 12:
            yield "alias-random", ["alias", init, seq]
    for init in initials(2):
        for o in ops:
            yield "alias", ["alias", init, [list(o)]]
        for seq in itertools.product(ops[:6], repeat=2):
            yield "alias", ["alias", init, [list(o) for o in seq]]


QS_KEYS = ["", "a", "b c", "&", "=", "k+", "%41", "A;"]
QS_VALS = ["", "1", "x y", "+", "%", "&=", "v#?"]


def qs_cases(tier, rng):
    pairs = [[k, v] for k in QS_KEYS for v in QS_VALS]
    yield "query-string", ["qs", []]
    for p in pairs:
        yield "query-string", ["qs", [p]]
    for p in pairs:
        for q in (pairs if tier != "quick" else pairs[::5] + [["", ""], ["a", ""], ["", "1"]]):
            yield "query-string", ["qs", [p, q]]
    for _ in range(400 if tier == "quick" else 6000):
        n = rng.randrange(0, 6)
        ps = []
        for _ in range(n):
            k = "".join(rng.choice("ab &=+%;/?#.~-_1") for _ in range(rng.randrange(0, 4)))
            v = "".join(rng.choice("ab &=+%;/?#.~-_1") for _ in range(rng.randrange(0, 4)))
            ps.append([k, v])
        yield "query-string-random", ["qs", ps]
    # raw query strings as a client may send them, incl. percent-escapes that are not UTF-8 (%FF, a truncated %C3,
    # %ED%A0%80), given as text and as bytes: the mapping parsed from its own string form equals itself
    toks = ["a", "=", "&", "+", "%20", "%26", "%C3%A9", "\u00e9", "%FF", "%C3", "%", "%ED%A0%80", "%E9"]
    import itertools as _it
    for n in (1, 2, 3):
        for t in _it.product(toks, repeat=n):
            if n == 3 and tier == "quick" and rng.random() > 0.25:
                continue
            raw = "".join(t)
            yield "query-raw", ["rawx", raw, 0]
            if all(ord(c) < 256 for c in raw):
                yield "query-raw", ["rawx", raw, 1]


def search_cases(tier, rng, mism):
    yield from cases("thorough" if tier == "quick" else tier, rng)


def ENCODE(case):
    # for the model a mapping is a value: mappings built from the same pairs are independent, so the
    # untouched siblings of an "alias" case are the immutable views of the initial list
    if case[0] == "alias":
        return core.enc_line(["imm", case[1]])
    if case[0] == "rawx":
        return core.enc_line(["rawx", case[1]])
    return core.enc_line(case)


PROBE = (0, 1, 2, 3)


def _own(lst):
    """take a copy of a list the mapping handed out, then scribble on the original as a caller may: a returned list is the
    caller's own, writing to it must change neither the mapping nor what any mapping returns later"""
    out = list(lst)
    if isinstance(lst, list) and "<scribbled by the caller>" not in lst[-1:]:     # (once: a shared list must not grow for ever)
        lst.insert(0, ("<scribbled>", "<scribbled>"))
        lst.append("<scribbled by the caller>")
    return out


def views(m):
    return [[[k, v] for k, v in _own(m.multi_items())],
            sorted(m.keys()),
            len(m),
            [_getitem(m, k) for k in PROBE],
            [k in m for k in PROBE],
            [_own(m.getlist(k)) for k in PROBE]]


def _shape(items, salt):
    """the same pairs in another legal shape of Iterable[Tuple[K, V]] (list, tuple, generator, iterator, zip, map,
    another multi-value mapping), chosen from the text of the case"""
    import zlib
    from baize.datastructures import MultiMapping
    k = zlib.crc32(repr((items, salt)).encode("utf-8", "surrogatepass")) % 7
    if k == 0:
        return list(items)
    if k == 1:
        return tuple(items)
    if k == 2:
        return (p for p in items)
    if k == 3:
        return iter(list(items))
    if k == 4:
        return zip([p[0] for p in items], [p[1] for p in items])
    if k == 5:
        return map(tuple, [list(p) for p in items])
    return MultiMapping(list(items))


def _getitem(m, k):
    try:
        return [m[k]]
    except KeyError:
        return []


def apply_op(m, o):
    name = o[0]
    try:
        if name == "set":
            m[o[1]] = o[2]
            r = []
        elif name == "del":
            del m[o[1]]
            r = []
        elif name == "append":
            m.append(o[1], o[2])
            r = []
        elif name == "setlist":
            m.setlist(o[1], list(o[2]))
            r = []
        elif name == "poplist":
            r = ["l", _own(m.poplist(o[1]))]
        elif name == "pop":
            r = ["v", m.pop(o[1])]
        elif name == "popd":
            r = ["v", m.pop(o[1], o[2])]
        elif name == "popitem":
            k, v = m.popitem()
            r = ["p", k, v]
        elif name == "setdefault":
            r = ["v", m.setdefault(o[1], o[2])]
        elif name == "update":
            m.update([tuple(p) for p in o[1]])
            r = []
        elif name == "updmap":
            from baize.datastructures import MultiMapping
            ps = [tuple(p) for p in o[1]]
            m.update(MultiMapping(ps) if len(ps) % 2 else dict(ps))
            r = []
        elif name == "updself":
            m.update(m)
            r = []
        elif name == "clear":
            m.clear()
            r = []
        else:
            r = ["badop"]
    except KeyError:
        r = ["KeyError"]
    return r


def impl(case):
    from baize.datastructures import MultiMapping, MutableMultiMapping, QueryParams, FormData
    if case[0] == "qs":
        q = QueryParams([tuple(p) for p in case[1]])
        text = str(q)
        return [text, [[k, v] for k, v in QueryParams(text).multi_items()]]
    if case[0] == "rawx":
        raw = case[1].encode("latin-1") if case[2] else case[1]
        try:
            q = QueryParams(raw)
            text = str(q)
            q2 = QueryParams(text)
            if q2 == q and q2.multi_items() == q.multi_items() and str(q2) == text and repr(q):
                return ["roundtrip-holds"]
            return ["roundtrip-fails", text, [[k, v] for k, v in q.multi_items()], [[k, v] for k, v in q2.multi_items()]]
        except Exception as e:  # noqa
            return ["roundtrip-raises", type(e).__name__]
    if case[0] == "imm":
        items = [tuple(p) for p in case[1]]
        return [views(MultiMapping(_shape(items, 1))), views(QueryParams(_shape(items, 2))), views(FormData(_shape(items, 3)))]
    if case[0] == "alias":
        # one list object handed to four mappings; only the mutable one is operated on: the others, and the
        # caller's list, must stay what they were
        src = [tuple(p) for p in case[1]]
        keep = list(src)
        mm, q, f = MultiMapping(src), QueryParams(src), FormData(src)
        # (in every other case the mutable one is built from a sibling mapping instead of the list: the sibling it was
        # built from must stay what it was as well)
        m = MutableMultiMapping((mm, q, f)[len(case[2]) % 3] if (len(case[1]) + len(case[2])) % 2 else src)
        for o in case[2]:
            apply_op(m, o)
        out = [views(mm), views(q), views(f)]
        if src != keep:
            out.append(["source-list-changed", [list(p) for p in src]])
        return out
    items = [tuple(p) for p in case[1]]
    m = MutableMultiMapping(_shape(items, repr(case[2])))
    out = [views(m)]
    for o in case[2]:
        r = apply_op(m, o)
        out.append([r, views(m)])
    return out


# ---- the property on the implementation's observations: a plain list of pairs ----

def spec_apply(a, o, popped_key):
    """returns (new list, expected result or a predicate marker)"""
    name = o[0]
    last = {}
    for k, v in a:
        last[k] = v
    if name == "set":
        k, v = o[1], o[2]
        if k in last:
            i = [p[0] for p in a].index(k)
            return a[:i] + [[k, v]] + [p for p in a[i + 1:] if p[0] != k], []
        return a + [[k, v]], []
    if name == "del":
        return [p for p in a if p[0] != o[1]], ([] if o[1] in last else ["KeyError"])
    if name == "append":
        return a + [[o[1], o[2]]], []
    if name == "setlist":
        return [p for p in a if p[0] != o[1]] + [[o[1], v] for v in o[2]], []
    if name == "poplist":
        return [p for p in a if p[0] != o[1]], ["l", [p[1] for p in a if p[0] == o[1]]]
    if name in ("pop", "popd"):
        if o[1] in last:
            return [p for p in a if p[0] != o[1]], ["v", last[o[1]]]
        return a, (["KeyError"] if name == "pop" else ["v", o[2]])
    if name == "popitem":
        if not a:
            return a, ["KeyError"]
        if popped_key not in last:
            return a, ["p", "<some present key>", "<its last value>"]
        return [p for p in a if p[0] != popped_key], ["p", popped_key, last[popped_key]]
    if name == "setdefault":
        if o[1] in last:
            return a, ["v", last[o[1]]]
        return a + [[o[1], o[2]]], ["v", o[2]]
    if name == "update":
        for k, v in o[1]:
            a, _ = spec_apply(a, ["set", k, v], None)
        return a, []
    if name in ("updmap", "updself"):
        # a mapping argument contributes each of its keys once, with the key's last value, in first-occurrence order
        src = a if name == "updself" else o[1]
        lastv = {}
        for k, v in src:
            lastv[k] = v
        for k, v in lastv.items():
            a, _ = spec_apply(a, ["set", k, v], None)
        return a, []
    if name == "clear":
        return [], []
    raise ValueError(name)


def spec_views(a):
    last = {}
    for k, v in a:
        last[k] = v
    return [[list(p) for p in a], sorted(last), len(last), [[last[k]] if k in last else [] for k in PROBE],
            [1 if k in last else 0 for k in PROBE], [[p[1] for p in a if p[0] == k] for k in PROBE]]


def oracle(case, obs):
    if obs and obs[0] == "driver-exception":
        return ("raises-" + str(obs[1]), "operation sequence raised %s: %s" % (obs[1], obs[2]))
    if case[0] == "rawx":
        if obs[0] != "roundtrip-holds":
            return ("query-raw-roundtrip", "QueryParams(%r%s): %r" % (case[1], " as bytes" if case[2] else "", obs))
        return None
    if case[0] == "qs":
        if [list(p) for p in obs[1]] != [list(p) for p in case[1]]:
            return ("query-string-roundtrip", "QueryParams(%r) prints as %r, which parses back to %r" % (case[1], obs[0], obs[1]))
        return None
    if case[0] == "alias":
        a = [list(p) for p in case[1]]
        if len(obs) > 3:
            return ("caller-list-mutated", "operating on a mapping changed the list it was built from: %r -> %r" % (a, obs[3][1]))
        for name, v in zip(("MultiMapping", "QueryParams", "FormData"), obs):
            if v != spec_views(a):
                return ("sibling-mapping-changed", "%s built from the same list %r shows %r after operations %r on another mapping"
                        % (name, a, v, case[2]))
        return None
    if case[0] == "imm":
        a = [list(p) for p in case[1]]
        for name, v in zip(("MultiMapping", "QueryParams", "FormData"), obs):
            if v != spec_views(a):
                return ("immutable-views-differ", "%s(%r) views %r, pair list says %r" % (name, a, v, spec_views(a)))
        return None
    a = [list(p) for p in case[1]]
    if obs[0] != spec_views(a):
        return ("constructor-views-differ", "after construction from %r views are %r" % (a, obs[0]))
    for o, (r, v) in zip(case[2], obs[1:]):
        popped = r[1] if (o[0] == "popitem" and len(r) == 3) else None
        a2, exp = spec_apply(a, o, popped)
        if r != exp:
            return ("wrong-result-" + o[0], "op %r on pair list %r returned %r, specification %r" % (o, a, r, exp))
        if v != spec_views(a2):
            return ("views-differ-after-" + o[0], "after op %r on pair list %r the views are %r, specification %r" % (o, a, v, spec_views(a2)))
        a = a2
    return None


def nontrivial(case, obs):
    if case[0] == "rawx":
        return "%" in case[1]
    if case[0] == "qs":
        return len(case[1]) > 0
    if case[0] == "alias":
        return len(case[2]) > 0
    if case[0] != "ops":
        return len(case[1]) > 1
    prev = obs[0][0]
    for r, v in obs[1:]:
        if v[0] != prev or r == ["KeyError"]:
            return True
    return False


def shrink(case):
    if case[0] not in ("ops", "alias"):
        return
    init, ops = case[1], case[2]
    for i in range(len(ops)):
        yield [case[0], init, ops[:i] + ops[i + 1:]]
    for i in range(len(init)):
        yield [case[0], init[:i] + init[i + 1:], ops]


# ---------------------------------------------------------------- the source-level tie (tools/py2coq.py)


def extra_obligations(tier):
    """The methods getlist, append, __delitem__, setlist, poplist, __setitem__ of MultiMapping / MutableMultiMapping are translated to
    Gallina, one by one, from the source in BAIZE_REPO as it is now (self._list and self._dict threaded and returned, `==` on
    keys an argument), and coqc re-checks, per method, the part of C17/Translated.v about it (translated method = the
    function of C17.Model for every key, value, pair list and dict: same _list and _dict afterwards, same result, KeyError
    exactly when the model says so) against the fresh definitions.  One obligation per method: a method the translator
    refuses (not applicable, no alarm) does not hide the others.
    In addition (tools/py2coq_c17.py, C17/TranslatedMore.v): MultiMapping.__init__ (every argument shape), __getitem__,
    __iter__, __len__, multi_items are translated the same way and coqc re-checks that each equals M.init / the views of
    C17.Model, that the MutableMapping mix-in methods (C17/PyLib.v mm_pop, mm_popitem, mm_clear, mm_update_*,
    mm_setdefault) over the TRANSLATED __getitem__ / __setitem__ / __delitem__ / __iter__ equal M.step on Pop / PopDefault /
    PopItem / Clear / Update / SetDefault for every state, and translated_invariant (from __init__ on any argument, after any
    sequence of the translated operations, _dict is the last-value view of _list); C17/PyLib.v is compared with the
    interpreter's dict, isinstance, Mapping.items and MutableMapping mix-in."""
    import importlib.util
    import os
    spec = importlib.util.spec_from_file_location("py2coq", os.path.join(core.VERIF, "tools", "py2coq.py"))
    py2coq = importlib.util.module_from_spec(spec)
    spec.loader.exec_module(py2coq)
    spec = importlib.util.spec_from_file_location("py2coq_c17", os.path.join(core.VERIF, "tools", "py2coq_c17.py"))
    more = importlib.util.module_from_spec(spec)
    spec.loader.exec_module(more)
    from concurrent.futures import ThreadPoolExecutor
    with ThreadPoolExecutor(2) as ex:
        a = ex.submit(py2coq.obligations, PID, core.REPO, core.VERIF)
        b = ex.submit(more.obligations, core.REPO, core.VERIF)
        return list(a.result()) + list(b.result())


if __name__ == "__main__":
    import sys
    core.main(sys.modules[__name__])
