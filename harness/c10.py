"""C10 — the request body is read once, completely, and consistently cached (C10/Model.v).

ASGI: a case is a channel of server messages, a content type and a schedule of steps
(start an access as its own task / deliver the next message / run the loop until every task
is blocked); the driver steps a fresh event loop per case deterministically: `receive` is
scripted, its futures are resolved by the `deliver` steps only.
WSGI: a case is a list of pieces wsgi.input.read returns, and a sequence of accesses."""
import asyncio          # imported before the workers are forked (no loop is created at import time)
import itertools
import json

from . import core

PID = "C10"
MANIFEST = dict(
    text="Theorems single_reader / body_is_concat / cache_stable / stream_after_body_replays / body_after_stream_documented / "
         "disconnect_never_truncates (+ no_internal_error, and the WSGI counterparts w_*): for every channel of server messages, "
         "every list of events (start an access of body / stream to the end / k items of stream / json / form / close as a task, "
         "deliver a message, run ANY ready task, run the ready queue FIFO) the messages handed out are a prefix of the channel, all to "
         "one task; a finished body is the concatenation up to the final chunk; accesses of one cached property agree and never change; "
         "stream() after a finished body replays it without touching the channel; body after the stream was taken raises the "
         "documented RuntimeError; with a disconnect before the final chunk no body-derived access yields a value.  Liveness "
         "(asgi_no_lost_wakeup / asgi_progress / asgi_quiescent_done / asgi_loop_rests / asgi_completion, w_completion): in every "
         "reachable state the ready queue holds exactly the tasks that can run, once each, a task in receive() is the registered "
         "receiver and waits for a message not yet delivered, a task awaiting an undone slot is registered on its future; at rest "
         "every unfinished task waits (through access -> json/form -> body) on receive(); running the queue with 2*(accesses+3) "
         "fuel always empties it; on a channel with a final chunk or a disconnect, after any events, delivering the rest and "
         "running the queue finishes every started access.  WSGI: the model loop never stops for lack of fuel and read() is "
         "called at most total+1 times (pieces+1 when the pieces fit the chunk size).  The model is "
         "compared with baize.asgi.Request on a real asyncio loop stepped deterministically, and with baize.wsgi.Request.  "
         "WSGI with failing reads (readfault_never_truncated / readfault_error_then_consumed / readfault_reads_once, model "
         "C10/ReadFault.v): wsgi.input.read() may raise at any call, once or for good (the input is a list of option pieces); for "
         "every such input, chunk size and access sequence an access that returns a body-derived value returns the one derived from "
         "the concatenation of ALL pieces (and then no read of the input raises), k items of stream() are a prefix; an access fails "
         "in a read only when the input has a failing read, it leaves _stream_consumed set and nothing cached, the state never "
         "changes again, every later access that needs the body raises the documented RuntimeError and none raises the read error "
         "again; bytes read plus input left is the input, and once the input is taken no access reads.",
    note="Modelled, not verified: asyncio (tasks run atomic segments between awaits; the ready queue is FIFO in the correspondence, "
         "arbitrary in the safety theorems, FIFO in the fuel bound), CPython async generators, json.loads / parse_qsl (oracle passed "
         "per case).  Liveness is proved for the model (no fairness assumption is needed: a segment never re-queues itself); that "
         "the real loop resumes exactly the model's runnable tasks is what the correspondence checks.  multipart "
         "forms belong to C01.",
    technique="Coq proof (invariants over all schedules of a task/step model, by induction over events; liveness by a bookkeeping "
              "invariant plus a decreasing measure) + correspondence on a deterministically stepped event loop",
    ref="5/C10")

RULE = ("ASGI cases: every access sequence up to length n (quick 3, thorough 4) over {body, stream, stream-1-item, stream-2-items, json, "
        "form, close} x every grouping into concurrently started groups x 13 channel shapes (single / split / empty messages / "
        "foreign message / trailing and early disconnect / no final message / empty body) x 3 delivery modes (lazy, all buffered, "
        "one per group; at length 4: every second shape, one mode per case, in rotation) x 3 content types (exhaustive); every "
        "sequence of length n+1 x every grouping (thorough: every second one) with 2 (thorough 1) random (channel, delivery, "
        "content type) each; random longer schedules over random chunkings of random bodies with every "
        "disconnect position.  WSGI cases: every access sequence up to length 3 (thorough 4) over 10 accesses (chunk sizes 1, 2, "
        "65536) x 6 piece lists (length 4: 3 in rotation) x 3 content types.  non-trivial = at least two body-derived accesses and the channel is touched.  "
        "WSGI with failing reads: every access sequence up to length 3 over 8 accesses (body, stream 2 / 65536, 1 item of stream(1), 2 items "
        "of stream(65536), json, form, close) x 3 content types x 4 chunkings (length 3, quick: 1 in rotation) x every position of one "
        "failing read (before each piece and at the end) x failing once / for good (lengths 1-2: also no failing read); random bodies "
        "(JSON, urlencoded, malformed, plain) x random cuts x 0-2 failing reads x once / for good x 1-6 accesses with random chunk "
        "sizes; non-trivial there = a read raised during an access and a later access needs the body")
TRUSTED = ["model of asyncio: a task runs atomically between two awaits, a done future schedules its callbacks in registration "
           "order, the ready queue is FIFO (theorems: any order)",
           "json.loads / parse_qsl / bytes.decode as an oracle function of the body bytes: value or exception class, passed per "
           "case (obtained from a fresh single-piece request through the library itself)"]
ASSUMPTIONS = ["the server answers receive() calls in call order (scripted receive)",
               "wsgi.input.read(n) returns between 1 and n bytes until the end of the input, then b'' (PEP 3333), and does not raise "
               "(the w_* theorems; the readfault_* theorems and the 'f' cases drop 'does not raise': any call may raise an OSError)",
               "content types multipart/form-data are outside this property (C01)"]
EXHAUSTIVE = {"quick": True, "thorough": True}
PARTIAL = ("asyncio is modelled, not verified: tasks run atomic segments between awaits; the correspondence fixes the ready queue "
           "to the loop's FIFO order, the safety theorems hold for every order; liveness is proved in the model (no lost wake-up "
           "in every reachable state for every order; completion after delivering all messages and running the queue FIFO with "
           "2*(accesses+3) fuel); that asyncio itself wakes a task when its future is done is part of the modelled, not verified, base")

# access kinds
BODY, STREAM, JSON, FORM, CLOSE, PART = 0, 1, 2, 3, 4, 5
ALPHA = [[BODY, 0], [STREAM, 0], [PART, 1], [PART, 2], [JSON, 0], [FORM, 0], [CLOSE, 0]]

# (class, header value, json charset, form charset)
CTS = [(0, "application/json", "utf8", None), (0, "application/json; charset=utf-8", "utf-8", None),
       (1, "application/x-www-form-urlencoded", None, "latin-1"),
       (1, "application/x-www-form-urlencoded; charset=utf8", None, "utf8"),
       (2, "text/plain", None, None), (2, "", None, None)]
BODIES = {0: [b"[1]", b"7 ", b"[1,", b'{"a":[]}', b"\xff"], 1: [b"a=1", b"a&a", b"\xffb", b"x=%31&y"], 2: [b"abc", b"[1]", b"a=1"]}


def R(b, more, pres=0):
    return [0, b, 1 if more else 0, pres]


DISC = [1, b"", 0, 0]
OTHER = [2, b"", 0, 0]


def body_of(ch):
    out = b""
    for m in ch:
        if m[0] == 0:
            out += m[1]
            if not m[2]:
                return out
        elif m[0] == 1:
            return None
    return None


def first_term(ch):
    """index and kind ('final' / 'disc') of the first terminating message, or None"""
    for i, m in enumerate(ch):
        if m[0] == 0 and not m[2]:
            return i, "final"
        if m[0] == 1:
            return i, "disc"
    return None


_REF = {}


def reference(mode, cti, body):
    """The parse oracle: what request.json / request.form give for these body bytes when the
    whole body arrives in one piece and is accessed once, by the library under test itself
    (C10 is about reading and caching, not about what the parsers accept).  Memoised; runs in
    the forked workers (ENCODE) and, after the workers are done, in the parent (oracle)."""
    key = (mode, cti, bytes(body))
    if key in _REF:
        return _REF[key]
    ctv = CTS[cti][1]
    out = []
    for kind in (JSON, FORM):
        try:
            if mode == "a":
                from baize.asgi import Request
                msgs = [{"type": "http.request", "body": bytes(body), "more_body": False}]

                async def receive():
                    return msgs.pop(0)

                scope = {"type": "http", "method": "POST", "path": "/", "query_string": b"",
                         "headers": [(b"content-type", ctv.encode("latin-1"))] if ctv else []}
                req = Request(scope, receive)

                async def get():
                    return await (req.json if kind == JSON else req.form)

                loop = asyncio.new_event_loop()
                try:
                    v = loop.run_until_complete(get())
                finally:
                    loop.close()
            else:
                import io
                from baize.wsgi import Request
                env = {"REQUEST_METHOD": "POST", "SCRIPT_NAME": "", "PATH_INFO": "/", "QUERY_STRING": "",
                       "SERVER_NAME": "t", "SERVER_PORT": "80", "SERVER_PROTOCOL": "HTTP/1.1", "wsgi.version": (1, 0),
                       "wsgi.url_scheme": "http", "wsgi.input": io.BytesIO(bytes(body)), "CONTENT_LENGTH": str(len(body))}
                if ctv:
                    env["CONTENT_TYPE"] = ctv
                req = Request(env)
                v = req.json if kind == JSON else req.form
            c = _canon(kind, (True, v), {})
            out.append([bytes(body), 1, c[1], 1 if c[2] else 0])
        except Exception as e:  # noqa
            out.append([bytes(body), 0, type(e).__name__, 0])
    _REF[key] = out
    return out


def tables(case):
    mode, _, xs = case[0], case[1], case[2]
    if mode == "f":
        body = fault_body(xs)
    else:
        body = body_of(xs) if mode == "a" else b"".join(xs)
    if body is None:
        return [], []
    j, f = reference(mode, case[6], body)
    return [j], [f]


_PRE = []


def _preimport():
    """import the library outside the per-case watchdog (ENCODE runs before impl, unguarded): an
    import interrupted by the watchdog would leave a half-initialised package behind"""
    if not _PRE:
        import baize.asgi  # noqa
        import baize.wsgi  # noqa
        _PRE.append(1)


def ENCODE(case):
    _preimport()
    jt, ft = tables(case)
    if case[0] == "f":
        return core.enc_line([case[0], case[1], fault_model_script(case), case[3], jt, ft] + list(case[6:7]))
    # case[7] (WSGI only: how the gateway frames the body, see impl_wsgi) is not the model's business
    return core.enc_line(list(case[:4]) + [jt, ft] + list(case[6:7]))


def shapes(x):
    """channel shapes for a body x of at least 3 bytes"""
    a, b, c = x[:1], x[1:2], x[2:]
    return [
        [R(x, False)],
        [R(a, True), R(b + c, False)],
        [R(a + b, True), R(c, True), R(b"", False)],
        [R(b"", True), R(x, False)],
        [R(a, True), OTHER, R(b + c, False), DISC],
        [DISC],
        [R(a + b, True), DISC],
        [R(a + b, True), R(c, True)],
        [R(b"", False)],
        [R(a, True), R(b, True), R(c, False)],
        [R(a, True, 3), R(b"", True, 1), R(b + c, False, 2), R(b"zz", False)],
        [R(b"", False, 3)],
        [R(a + b, True), R(b"", True), DISC, R(c, False)],
    ]


def compositions(n):
    if n == 0:
        yield []
        return
    for first in range(1, n + 1):
        for rest in compositions(n - first):
            yield [first] + rest


def build_steps(accs, groups, pre, buffered, nmsgs):
    steps, i, used = [], 0, 0
    for gi, g in enumerate(groups):
        for _ in range(pre[gi]):
            if used < nmsgs:
                steps.append([1])
                used += 1
                if not buffered:
                    steps.append([2])
        for a in accs[i:i + g]:
            steps.append([0, a[0], a[1]])
        i += g
        steps.append([2])
    for _ in range(nmsgs - used):
        steps.append([1])
        steps.append([2])
    return steps


def mk_asgi(cti, ch, steps):
    return ["a", CTS[cti][0], ch, steps, [], [], cti]


def mode_steps(mode, accs, groups, n):
    if mode == 0:
        return build_steps(accs, groups, [0] * len(groups), False, n)
    if mode == 1:
        return build_steps(accs, groups, [n] + [0] * (len(groups) - 1), True, n)
    return build_steps(accs, groups, [1] * len(groups), False, n)


WALPHA = [[BODY, 0, 0], [STREAM, 0, 1], [STREAM, 0, 2], [STREAM, 0, 65536], [PART, 1, 1], [PART, 2, 2], [PART, 1, 65536],
          [JSON, 0, 0], [FORM, 0, 0], [CLOSE, 0, 0]]


def wpieces(x):
    a, b, c = x[:1], x[1:2], x[2:]
    return [[x], [a, b + c], [a, b, c], [], [a + b, c], [x, x]]


def mk_wsgi(cti, pieces, accs):
    return ["w", CTS[cti][0], pieces, accs, [], [], cti]


def rand_channel(rng, body):
    cuts = sorted(rng.sample(range(len(body) + 1), min(len(body) + 1, rng.randrange(0, 4)))) if body else []
    parts, prev = [], 0
    for c in cuts + [len(body)]:
        parts.append(body[prev:c])
        prev = c
    ch = [R(p, True, rng.randrange(4)) for p in parts]
    if rng.random() < 0.5:
        ch.append(R(b"", False, rng.randrange(4)))
    else:
        ch[-1] = R(parts[-1], False, rng.randrange(4))
    for _ in range(rng.randrange(0, 2)):
        ch.insert(rng.randrange(len(ch) + 1), rng.choice([OTHER, R(b"", True)]))
    r = rng.random()
    if r < 0.3:
        ch.insert(rng.randrange(len(ch) + 1), DISC)
    elif r < 0.4:
        ch = ch[:rng.randrange(len(ch))]
    elif r < 0.6:
        ch.append(DISC)
    return ch


def cases(tier, rng):
    depth = 3 if tier == "quick" else 4
    cti_of = {0: [0, 1], 1: [2, 3], 2: [4, 5]}
    # ---- ASGI exhaustive
    n_ex = 0
    for n in range(1, depth + 1):
        allmodes = n <= 3
        for seq in itertools.product(ALPHA, repeat=n):
            accs = [list(a) for a in seq]
            for groups in compositions(n):
                for cls in (0, 1, 2):
                    n_ex += 1
                    cti = cti_of[cls][n_ex % 2]
                    bodies = BODIES[cls]
                    for si, ch in enumerate(shapes(bodies[0])):
                        if not allmodes and (si + n_ex) % 2:
                            continue
                        for mode in ((0, 1, 2) if allmodes else ((n_ex // 2 + si) % 3,)):
                            if mode == 2 and len(ch) < 2:
                                continue
                            yield "asgi-exhaustive", mk_asgi(cti, ch, mode_steps(mode, accs, groups, len(ch)))
                    # the other bodies (parse results) in two shapes
                    for x in (bodies[1:] if allmodes else [bodies[1 + n_ex % (len(bodies) - 1)]]):
                        x3 = x if len(x) >= 3 else x + b" " * (3 - len(x)) if cls == 0 else x
                        if len(x3) < 3:
                            chs = [[R(x3, False)], [R(x3[:1], True), R(x3[1:], False)]]
                        else:
                            chs = shapes(x3)[1:3]
                        for ch in (chs if allmodes else chs[n_ex % 2:n_ex % 2 + 1]):
                            yield "asgi-bodies", mk_asgi(cti, ch, mode_steps(n_ex % 2, accs, groups, len(ch)))
    # ---- ASGI: one level deeper, sampled channels
    n = depth + 1
    for seq in itertools.product(ALPHA, repeat=n):
        accs = [list(a) for a in seq]
        for groups in compositions(n):
            if (max(groups) > 3 or tier != "quick") and rng.random() < 0.5:
                continue
            for _ in range(2 if tier == "quick" else 1):
                cls = rng.randrange(3)
                cti = rng.choice(cti_of[cls])
                ch = rng.choice(shapes(rng.choice([b for b in BODIES[cls] if len(b) >= 3])))
                yield "asgi-deeper", mk_asgi(cti, ch, mode_steps(rng.randrange(3), accs, groups, len(ch)))
    # ---- ASGI random
    nrand = 20000 if tier == "quick" else 100000
    for _ in range(nrand):
        cls = rng.randrange(3)
        cti = rng.choice(cti_of[cls])
        body = rng.choice(BODIES[cls] + [b"", b"[1, 2, 3, 4]", b"k=v&k=w&z"])
        ch = rand_channel(rng, body)
        na = rng.randrange(1, 7)
        accs = [list(rng.choice(ALPHA + [[PART, 0], [PART, 3], [BODY, 0], [STREAM, 0]])) for _ in range(na)]
        groups = rng.choice(list(compositions(na)))
        pre = [rng.choice([0, 0, 1, 1, 2, len(ch)]) for _ in groups]
        yield "asgi-random", mk_asgi(cti, ch, build_steps(accs, groups, pre, rng.random() < 0.4, len(ch)))
    # ---- WSGI exhaustive
    wdepth = 3 if tier == "quick" else 4
    k = 0
    for n in range(1, wdepth + 1):
        for seq in itertools.product(WALPHA, repeat=n):
            accs = [list(a) for a in seq]
            for cls in (0, 1, 2):
                k += 1
                cti = cti_of[cls][k % 2]
                for pi, pieces in enumerate(wpieces(BODIES[cls][0])):
                    if n > 3 and (pi + k) % 2:
                        continue
                    yield "wsgi-exhaustive", mk_wsgi(cti, pieces, accs)
                    if n <= 2 or (pi + k) % 3 == 0:
                        yield "wsgi-exhaustive-chunked", mk_wsgi(cti, pieces, accs) + [1 + (pi + k) % 2]
    for _ in range(5000 if tier == "quick" else 50000):
        cls = rng.randrange(3)
        cti = rng.choice(cti_of[cls])
        body = rng.choice(BODIES[cls] + [b"", b"[1, 2, 3, 4]", b"k=v&k=w&z"])
        pieces = [p[1] for p in rand_channel(rng, body) if p[0] == 0 and p[1]] if rng.random() < 0.8 else [body] if body else []
        if b"".join(pieces) != body:
            pieces = [body] if body else []
        accs = [[a[0], a[1], rng.choice([1, 2, 3, 5, 65536])] for a in
                (rng.choice(ALPHA + [[PART, 0], [PART, 3]]) for _ in range(rng.randrange(1, 7)))]
        yield "wsgi-random", mk_wsgi(cti, pieces, accs) + ([rng.choice([1, 2])] if rng.random() < 0.3 else [])
    yield from fault_cases(tier, rng, cti_of)


def search_cases(tier, rng, mism):
    yield from itertools.islice(cases("thorough" if tier == "quick" else tier, rng), 300000)


# ---------------------------------------------------------------- implementation drivers

def _canon(kind, res, seen):
    """canonical observation of one access result (a value or an exception)"""
    ok, v = res
    if not ok:
        return ["exc", type(v).__name__]
    if kind == BODY:
        return ["ok", v] if isinstance(v, bytes) else ["ok", "?" + type(v).__name__]
    if kind in (STREAM, PART):
        return ["ok", [c if isinstance(c, bytes) else b"?" for c in v]]
    if kind == CLOSE:
        return ["ok"] if v is None else ["ok", "?" + type(v).__name__]
    if kind == JSON:
        rep = json.dumps(v, sort_keys=True)
        cont = isinstance(v, (list, dict))
    else:
        rep = json.dumps([[k, x] for k, x in v.multi_items()])
        cont = True
    ident = 0
    if cont:
        objs = seen.setdefault(kind, [])
        for i, o in enumerate(objs):
            if o is v:
                ident = i + 1
                break
        else:
            objs.append(v)
            ident = len(objs)
    return ["ok", rep, ident]


def impl_asgi(case):
    from baize.asgi import Request
    _, _, ch, steps, _, _, cti = case[:7]
    ctv = CTS[cti][1]
    msgs = []
    for kind, body, more, pres in ch:
        if kind == 0:
            d = {"type": "http.request"}
            if not (pres & 1 and body == b""):
                d["body"] = body
            if not (pres & 2 and not more):
                d["more_body"] = bool(more)
        elif kind == 1:
            d = {"type": "http.disconnect"}
        else:
            d = {"type": "http.unknown"}
        msgs.append(d)
    loop = asyncio.new_event_loop()
    loop.set_exception_handler(lambda *a: None)
    st = {"rc": 0, "delivered": 0}
    futs = {}

    async def receive():
        n = st["rc"]
        st["rc"] += 1
        if n < st["delivered"]:
            return msgs[n]
        f = loop.create_future()
        futs[n] = f
        return await f

    scope = {"type": "http", "method": "POST", "path": "/", "query_string": b"",
             "headers": [(b"content-type", ctv.encode("latin-1"))] if ctv else []}
    req = Request(scope, receive)
    keep = []

    async def acc(kind, k):
        if kind == BODY:
            return await req.body
        if kind == STREAM:
            return [c async for c in req.stream()]
        if kind == JSON:
            return await req.json
        if kind == FORM:
            return await req.form
        if kind == CLOSE:
            return await req.close()
        g = req.stream()
        keep.append(g)
        out = []
        for _ in range(k):
            try:
                out.append(await g.__anext__())
            except StopAsyncIteration:
                break
        return out

    def runall():
        ready = getattr(loop, "_ready", None)
        for _ in range(200):
            if ready is not None and not ready:
                break
            loop.call_soon(loop.stop)
            loop.run_forever()
            if ready is None and _ > 30:
                break

    tasks, kinds, done_at = [], [], []
    try:
        for i, s in enumerate(steps):
            if s[0] == 0:
                tasks.append(loop.create_task(acc(s[1], s[2])))
                kinds.append(s[1])
                done_at.append(-1)
            elif s[0] == 1:
                n = st["delivered"]
                if n < len(msgs):
                    st["delivered"] += 1
                    f = futs.get(n)
                    if f is not None and not f.done():
                        f.set_result(msgs[n])
            else:
                runall()
                for j, t in enumerate(tasks):
                    if done_at[j] < 0 and t.done():
                        done_at[j] = i
        out, seen = [], {}
        for j, t in enumerate(tasks):
            if not t.done():
                out.append([["pending"], -1])
            elif t.cancelled():
                out.append([["exc", "CancelledError"], done_at[j]])
            elif t.exception() is not None:
                out.append([_canon(kinds[j], (False, t.exception()), seen), done_at[j]])
            else:
                out.append([_canon(kinds[j], (True, t.result()), seen), done_at[j]])
        return [out, st["rc"]]
    finally:
        try:
            for t in asyncio.all_tasks(loop):
                t.cancel()
            runall()
            loop.run_until_complete(loop.shutdown_asyncgens())
        finally:
            loop.close()


class ScriptedInput:
    """wsgi.input: read(n) returns at most n bytes of the current piece, b'' at the end"""

    def __init__(self, pieces):
        self.pieces = [bytes(p) for p in pieces]
        self.reads = []

    def read(self, n=-1):
        self.reads.append(n)
        if not self.pieces:
            return b""
        p = self.pieces[0]
        if n < 0 or len(p) <= n:
            self.pieces.pop(0)
            return p
        self.pieces[0] = p[n:]
        return p[:n]


def impl_wsgi(case):
    from baize.wsgi import Request
    _, _, pieces, accs, _, _, cti = case[:7]
    ctv = CTS[cti][1]
    inp = ScriptedInput(pieces)
    env = {"REQUEST_METHOD": "POST", "SCRIPT_NAME": "", "PATH_INFO": "/", "QUERY_STRING": "", "SERVER_NAME": "t",
           "SERVER_PORT": "80", "SERVER_PROTOCOL": "HTTP/1.1", "wsgi.version": (1, 0), "wsgi.url_scheme": "http",
           "wsgi.input": inp, "CONTENT_LENGTH": str(sum(len(p) for p in pieces))}
    # how the gateway frames the body: 0 Content-Length (the default), 1 chunked transfer coding (no CONTENT_LENGTH;
    # the gateway de-chunks and ends wsgi.input itself: gunicorn, mod_wsgi, waitress), 2 CONTENT_LENGTH present but ""
    # (CGI-style gateways for a request without the header).  The body is what wsgi.input delivers in every case.
    framing = case[7] if len(case) > 7 else 0
    if framing == 1:
        del env["CONTENT_LENGTH"]
        env["HTTP_TRANSFER_ENCODING"] = "chunked"
        env["wsgi.input_terminated"] = True
    elif framing == 2:
        env["CONTENT_LENGTH"] = ""
        env["wsgi.input_terminated"] = True
    if ctv:
        env["CONTENT_TYPE"] = ctv
    req = Request(env)
    out, seen, keep = [], {}, []
    for kind, k, cs in accs:
        try:
            if kind == BODY:
                v = req.body
            elif kind == STREAM:
                v = [c for c in req.stream(cs)]
            elif kind == JSON:
                v = req.json
            elif kind == FORM:
                v = req.form
            elif kind == CLOSE:
                v = req.close()
            else:
                g = req.stream(cs)
                keep.append(g)
                v = []
                for _ in range(k):
                    try:
                        v.append(next(g))
                    except StopIteration:
                        break
            out.append(_canon(kind, (True, v), seen))
        except Exception as e:  # noqa
            out.append(_canon(kind, (False, e), seen))
    return [out, [n for n in inp.reads]]


def impl(case):
    if case[0] == "f":
        return impl_fault(case)
    if case[0] == "a":
        return impl_asgi(case)
    return impl_wsgi(case)


# ---------------------------------------------------------------- the property on observations

def _s2b(s):
    return s.encode("latin-1") if isinstance(s, str) else s


def _derived(kind, k, cls):
    """does this access read the body (given the content type class)?"""
    return kind == BODY or (kind == JSON and cls == 0) or (kind == FORM and cls == 1)


def oracle_asgi(case, obs):
    _, cls, ch, steps, _, _, cti = case[:7]
    jt, ft = tables(case)
    res, rc = obs[0], obs[1]
    starts = [(i, s[1], s[2]) for i, s in enumerate(steps) if s[0] == 0]
    if len(res) != len(starts):
        return ("shape", "observation has %d results for %d accesses" % (len(res), len(starts)))
    body = body_of(ch)
    term = first_term(ch)
    # --- each message consumed at most once, nothing read past the end of the body
    limit = term[0] + 1 if term else len(ch) + 1
    if rc > limit:
        return ("receive-overrun", "receive() was called %d times; the channel %r ends the body with message %d" % (rc, ch, limit))
    delivered_runs = 0
    by_kind = {}
    for (si, kind, k), (r, at) in zip(starts, res):
        if r[0] == "pending":
            continue
        tag = r[0]
        # --- the body is the concatenation of all chunks
        if tag == "ok" and kind == BODY:
            if body is None or _s2b(r[1]) != body:
                return ("body-not-concat", "body access returned %r, the channel %r carries %r" % (r[1], ch, body))
        # (chunk lists are compared without empty items: the b"" end marker is not part of the property)
        if tag == "ok" and kind == STREAM:
            got = [_s2b(c) for c in r[1] if c]
            full = [m[1] for m in ch[:term[0] + 1] if m[0] == 0 and m[1]] if term and term[1] == "final" else None
            if body is None or (got != ([body] if body else []) and got != full):
                return ("stream-not-concat", "stream yielded %r, the channel %r carries %r" % (r[1], ch, body))
        if tag == "ok" and kind == PART and k > 0:
            got = [_s2b(c) for c in r[1] if c]
            fulls = [[m[1] for m in ch[:(term[0] + 1) if term else len(ch)] if m[0] == 0 and m[1]]]
            if body:
                fulls.append([body])
            if len(r[1]) > k or not any(got == f[:len(got)] for f in fulls):
                return ("partial-stream-wrong", "%d items of stream() were %r on channel %r" % (k, r[1], ch))
        if tag == "ok" and kind == JSON:
            exp = jt[0] if jt else None
            if cls != 0 or body is None or not exp or not exp[1] or r[1] != exp[2]:
                return ("json-wrong-value", "json returned %r for body %r" % (r[1], body))
        if tag == "ok" and kind == FORM:
            exp = ft[0] if ft else None
            if cls != 1 or body is None or not exp or not exp[1] or r[1] != exp[2]:
                return ("form-wrong-value", "form returned %r for body %r" % (r[1], body))
        if tag == "exc" and kind in (JSON, FORM) and r[1] not in ("RuntimeError", "ClientDisconnect"):
            exp = (jt if kind == JSON else ft)
            exp = exp[0] if exp else None
            if (kind == JSON and cls != 0) or (kind == FORM and cls != 1):
                if r[1] != "UnsupportedMediaType":
                    return ("wrong-error", "access %d under content type class %d raised %s" % (kind, cls, r[1]))
            elif body is None or not exp or exp[1] or r[1] != exp[2]:
                return ("wrong-error", "access %d raised %s for body %r (a single-piece request gives %r)" % (kind, r[1], body, exp))
        # --- repeated accesses return the identical cached result
        if kind in (BODY, JSON, FORM):
            prev = by_kind.setdefault(kind, r)
            if prev != r:
                return ("cache-unstable", "two accesses of property %d returned %r and %r" % (kind, prev, r))
            if tag == "ok" and kind != BODY and r[2] > 1:
                return ("cache-unstable", "a repeated access of property %d returned an equal but different object" % kind)
        # --- a disconnect before the final chunk is never a value
        if term and term[1] == "disc" and (_derived(kind, k, cls) or kind == STREAM):
            if tag == "ok" or r[1] not in ("ClientDisconnect", "RuntimeError"):
                return ("disconnect-truncated", "channel %r disconnects before the final chunk, access %d gave %r" % (ch, kind, r))
    # --- streaming after the body was read replays it
    for (si, kind, k), (r, at) in zip(starts, res):
        if kind not in (STREAM, PART) or (kind == PART and k == 0) or r[0] == "pending":
            continue
        for (sj, kj, _), (rj, atj) in zip(starts, res):
            if kj == BODY and rj[0] != "pending" and 0 <= atj < si:
                if rj[0] == "ok":
                    want = [_s2b(rj[1])] if rj[1] else []
                    if r[0] != "ok" or [_s2b(c) for c in r[1] if c] != want:
                        return ("stream-no-replay", "body was %r before stream() started, stream gave %r" % (rj, r))
                elif r != rj:
                    return ("stream-no-replay", "body had failed with %r before stream() started, stream gave %r" % (rj, r))
                break
    # --- one reader: the body task or one stream() call, never both
    cur = list(zip(starts, res))
    takers = [(st_, r) for st_, r in cur if st_[1] == STREAM or (st_[1] == PART and st_[2] > 0)]
    bd = [(st_, r) for st_, r in cur if _derived(st_[1], st_[2], cls)]
    b_read = [r for _, (r, at) in bd if r[0] == "ok" or (r[0] == "exc" and r[1] in ("ClientDisconnect", "MalformedJSON", "HTTPException"))]
    s_cand = [r for _, (r, at) in takers if r != ["exc", "RuntimeError"]]
    for (si, kind, k), (r, at) in bd:
        if r == ["exc", "RuntimeError"] and not s_cand:
            return ("body-error-without-stream", "access %d raised RuntimeError although no stream() call took the channel" % kind)
    if b_read:
        for (si, kind, k), (r, at) in takers:
            if r == ["exc", "RuntimeError"]:
                continue
            if body is not None:
                want = ["ok", [body] if body else []]
                got = ["ok", [_s2b(c) for c in r[1] if c]] if r[0] == "ok" else r
            else:
                want, got = ["exc", "ClientDisconnect"], r
            if got != want:
                return ("second-reader", "the body task read the channel %r, yet stream() gave %r" % (ch, r))
    # --- body after the stream was consumed raises the documented error
    for (si, kind, k), (r, at) in takers:
        if at < 0 or r == ["exc", "RuntimeError"] or any(sj < at for (sj, _, _), _ in bd):
            continue
        for (sj, kj, _), (rj, atj) in bd:
            if rj[0] != "pending" and rj != ["exc", "RuntimeError"]:
                return ("body-after-stream", "stream() had been consumed (%r) before access %d started, which gave %r" % (r, kj, rj))
    # --- the disconnect error surfaces
    if term and term[1] == "disc" and not any(st_[1] == PART for st_, _ in cur):
        rd = [r for st_, (r, at) in cur if _derived(st_[1], st_[2], cls) or st_[1] == STREAM]
        if rd and all(r[0] != "pending" for r in rd) and ["exc", "ClientDisconnect"] not in rd:
            return ("disconnect-not-surfaced", "channel %r disconnects before the final chunk; results %r" % (ch, rd))
    # --- every access finishes once the terminating message is delivered (all are, by the end)
    ndel = sum(1 for s in steps if s[0] == 1)
    if term and ndel > term[0] and steps and steps[-1][0] == 2:
        for (si, kind, k), (r, at) in zip(starts, res):
            if r[0] == "pending":
                return ("access-never-completes", "access %d is still pending after the channel %r was fully delivered" % (kind, ch))
    return None


def oracle_wsgi(case, obs):
    _, cls, pieces, accs, _, _, cti = case[:7]
    jt, ft = tables(case)
    res, reads = obs[0], obs[1]
    body = b"".join(pieces)
    # every byte is read at most once and nothing is read after the end
    left = [bytes(p) for p in pieces]
    eof = False
    for n in reads:
        if eof:
            return ("input-read-after-end", "wsgi.input.read called again after it returned b'' (reads %r)" % (reads,))
        if not left or n == 0:
            eof = True
        elif len(left[0]) <= n:
            left.pop(0)
        else:
            left[0] = left[0][n:]
    by_kind = {}
    reader, cached = None, False
    for (kind, k, cs), r in zip(accs, res):
        if kind in (BODY, JSON, FORM):
            prev = by_kind.setdefault(kind, r)
            if prev != r:
                return ("cache-unstable", "two accesses of property %d returned %r and %r" % (kind, prev, r))
            if r[0] == "ok" and kind != BODY and r[2] > 1:
                return ("cache-unstable", "a repeated access of property %d returned an equal but different object" % kind)
        got = ["ok", [_s2b(c) for c in r[1]]] if r[0] == "ok" and kind in (STREAM, PART) else r
        if kind == CLOSE or (kind == PART and k == 0):
            want = ["ok"] if kind == CLOSE else ["ok", []]
            if got != want:
                return ("wrong-result", "access %r gave %r" % ((kind, k), r))
        elif kind in (STREAM, PART):
            if cached:
                if got != ["ok", [body]]:
                    return ("stream-no-replay", "the body %r was cached, stream() gave %r" % (body, r))
            elif reader is not None:
                if r != ["exc", "RuntimeError"]:
                    return ("stream-twice", "the stream was taken before, a second stream() gave %r" % (r,))
            else:
                reader = "stream"
                if r[0] != "ok":
                    return ("stream-failed", "first stream() gave %r" % (r,))
                items = got[1]
                cat = b"".join(items)
                if any(len(c) > cs or not c for c in items) or not body.startswith(cat) \
                        or (kind == STREAM and cat != body) or (kind == PART and (len(items) > k or (len(items) < k and cat != body))):
                    return ("stream-not-concat", "stream(%d) items %r of input pieces %r" % (cs, items, pieces))
        elif (kind == JSON and cls != 0) or (kind == FORM and cls != 1):
            if r != ["exc", "UnsupportedMediaType"]:
                return ("wrong-result", "access %d under content type class %d gave %r" % (kind, cls, r))
        else:
            if reader == "stream" and not cached:
                if r != ["exc", "RuntimeError"]:
                    return ("body-after-stream", "stream() took the input first, access %d gave %r" % (kind, r))
                continue
            reader, cached = reader or "body", True
            if kind == BODY:
                if r[0] != "ok" or _s2b(r[1]) != body:
                    return ("body-not-concat", "body %r, input pieces %r" % (r, pieces))
            else:
                t = (jt if kind == JSON else ft)[0]
                want = ["ok", t[2], t[3]] if t[1] else ["exc", t[2]]
                if r != want:
                    return ("json-wrong-value" if kind == JSON else "form-wrong-value", "access %d gave %r for body %r" % (kind, r, body))
    return None


def oracle(case, obs):
    if obs and obs[0] == "driver-exception":
        return ("raises-" + str(obs[1]), "driver raised %s: %s" % (obs[1], obs[2]))
    if case[0] == "f":
        return oracle_fault(case, obs)
    if case[0] == "a":
        return oracle_asgi(case, obs)
    return oracle_wsgi(case, obs)


def nontrivial(case, obs):
    cls = case[1]
    if case[0] == "f":
        return nontrivial_fault(case, obs)
    if case[0] == "a":
        n = sum(1 for s in case[3] if s[0] == 0 and (_derived(s[1], s[2], cls) or s[1] == STREAM or (s[1] == PART and s[2] > 0)))
        return n >= 2 and obs[1] > 0
    n = sum(1 for a in case[3] if _derived(a[0], a[1], cls) or a[0] == STREAM or (a[0] == PART and a[1] > 0))
    return n >= 2 and len(obs[1]) > 0


def shrink(case):
    mode, cls, xs, steps, jt, ft, cti = case[:7]
    if mode == "f":
        yield from shrink_fault(case)
        return
    if mode == "a":
        for i in range(len(steps)):
            if steps[i][0] == 0 or (steps[i][0] == 2 and i + 1 < len(steps)):
                yield mk_asgi(cti, xs, steps[:i] + steps[i + 1:])
        for i in range(len(xs)):
            ch = xs[:i] + xs[i + 1:]
            st, seen = [], 0
            for s in steps:   # drop one deliver step (and the run that follows it)
                st.append(s)
            dl = [j for j, s in enumerate(st) if s[0] == 1]
            if dl:
                j = dl[-1]
                st = st[:j] + st[j + 2:] if j + 1 < len(st) and st[j + 1][0] == 2 else st[:j] + st[j + 1:]
            if st and st[-1][0] != 2:
                st.append([2])
            yield mk_asgi(cti, ch, st)
        for i, m in enumerate(xs):
            if m[3]:
                yield mk_asgi(cti, xs[:i] + [[m[0], m[1], m[2], 0]] + xs[i + 1:], steps)
    else:
        for i in range(len(steps)):
            yield mk_wsgi(cti, xs, steps[:i] + steps[i + 1:]) + list(case[7:])
        for i in range(len(xs)):
            yield mk_wsgi(cti, xs[:i] + xs[i + 1:], steps) + list(case[7:])


# ---------------------------------------------------------------- WSGI with failing reads (C10/ReadFault.v)
#
# A case is ["f", class, script, accesses, [], [], content type index, for_good]: the script lists the calls of
# wsgi.input.read: [0, piece] = the call returns (at most chunk_size bytes of) the piece, [1] = the call raises
# TimeoutError (an OSError: the WSGI counterpart of a disconnect); for_good = 1: once a call has raised, every later
# call raises too (for the model: the rest of the script is replaced by failing calls, see fault_model_script).

FAIL = [1]
FALPHA = [[BODY, 0, 0], [STREAM, 0, 2], [STREAM, 0, 65536], [PART, 1, 1], [PART, 2, 65536], [JSON, 0, 0], [FORM, 0, 0],
          [CLOSE, 0, 0]]
READ_ERRORS = ("TimeoutError",)


def fault_body(script):
    """what the client sent: all pieces of the script (up to an empty piece, which is the end of the input)"""
    out = b""
    for it in script:
        if it[0] == 0:
            if not it[1]:
                break
            out += bytes(it[1])
    return out


def fault_has(script):
    return any(it[0] != 0 for it in script)


def fault_model_script(case):
    script = [list(it) for it in case[2]]
    if len(case) > 7 and case[7]:
        for i, it in enumerate(script):
            if it[0] != 0:
                return script[:i + 1] + [list(FAIL) for _ in range(len(case[3]) + 1)]
    return script


def mk_fault(cti, script, accs, forgood):
    return ["f", CTS[cti][0], script, accs, [], [], cti, 1 if forgood else 0]


def fault_scripts(pieces, with_clean):
    """(script, for_good) for every position of one failing read, failing once / for good"""
    if with_clean:
        yield [[0, p] for p in pieces], 0
    for i in range(len(pieces) + 1):
        head = [[0, p] for p in pieces[:i]]
        yield head + [list(FAIL)] + [[0, p] for p in pieces[i:]], 0
        yield head + [list(FAIL)], 1


def fpieces(x):
    a, b, c = x[:1], x[1:2], x[2:]
    return [[x], [a, b + c], [a, b, c], [a + b, c]]


def fault_cases(tier, rng, cti_of):
    depth = 3
    k = 0
    for n in range(1, depth + 1):
        for seq in itertools.product(FALPHA, repeat=n):
            accs = [list(a) for a in seq]
            for cls in (0, 1, 2):
                k += 1
                cti = cti_of[cls][k % 2]
                chunkings = fpieces(BODIES[cls][0])
                if n == 3 and tier == "quick":
                    chunkings = [chunkings[k % len(chunkings)]]
                for pieces in chunkings:
                    for script, forgood in fault_scripts(pieces, n <= 2):
                        yield "fault-exhaustive", mk_fault(cti, script, accs, forgood)
    extra = {0: [b"[1, 2, 3, 4]", b'{"k": "v"}'], 1: [b"k=v&k=w&z", b"a=%41&b="], 2: [b"plain text"]}
    for _ in range(4000 if tier == "quick" else 40000):
        cls = rng.randrange(3)
        cti = rng.choice(cti_of[cls])
        body = rng.choice(BODIES[cls] + extra[cls])
        cuts = sorted(set(rng.randrange(1, len(body)) for _ in range(rng.randrange(0, 4)))) if len(body) > 1 else []
        pieces, prev = [], 0
        for c in cuts + [len(body)]:
            pieces.append(body[prev:c])
            prev = c
        script = [[0, p] for p in pieces if p]
        for _ in range(rng.choice([0, 1, 1, 1, 2])):
            script.insert(rng.randrange(len(script) + 1), list(FAIL))
        accs = [[a[0], a[1], rng.choice([1, 2, 3, 5, 65536])] for a in
                (rng.choice(ALPHA + [[PART, 0], [PART, 3]]) for _ in range(rng.randrange(1, 7)))]
        yield "fault-random", mk_fault(cti, script, accs, rng.random() < 0.4)


class ScriptedFaultInput:
    """wsgi.input whose read() follows a script: return (at most n bytes of) a piece, or raise TimeoutError"""

    def __init__(self, script, forgood):
        self.script = [[it[0], bytes(it[1])] if it[0] == 0 else [1] for it in script]
        self.forgood = forgood
        self.dead = False
        self.reads = []

    def read(self, n=-1):
        self.reads.append(n)
        if self.dead:
            raise TimeoutError("timed out")
        if not self.script:
            return b""
        it = self.script[0]
        if it[0] != 0:
            self.script.pop(0)
            if self.forgood:
                self.dead = True
            raise TimeoutError("timed out")
        p = it[1]
        if n < 0 or len(p) <= n:
            self.script.pop(0)
            return p
        it[1] = p[n:]
        return p[:n]


def impl_fault(case):
    from baize.wsgi import Request
    _, _, script, accs, _, _, cti = case[:7]
    ctv = CTS[cti][1]
    inp = ScriptedFaultInput(script, len(case) > 7 and case[7])
    env = {"REQUEST_METHOD": "POST", "SCRIPT_NAME": "", "PATH_INFO": "/", "QUERY_STRING": "", "SERVER_NAME": "t",
           "SERVER_PORT": "80", "SERVER_PROTOCOL": "HTTP/1.1", "wsgi.version": (1, 0), "wsgi.url_scheme": "http",
           "wsgi.input": inp, "CONTENT_LENGTH": str(len(fault_body(script)))}
    if ctv:
        env["CONTENT_TYPE"] = ctv
    req = Request(env)
    out, seen, keep = [], {}, []
    for kind, k, cs in accs:
        try:
            if kind == BODY:
                v = req.body
            elif kind == STREAM:
                v = [c for c in req.stream(cs)]
            elif kind == JSON:
                v = req.json
            elif kind == FORM:
                v = req.form
            elif kind == CLOSE:
                v = req.close()
            else:
                g = req.stream(cs)
                keep.append(g)
                v = []
                for _ in range(k):
                    try:
                        v.append(next(g))
                    except StopIteration:
                        break
            out.append(_canon(kind, (True, v), seen))
        except Exception as e:  # noqa
            out.append(_canon(kind, (False, e), seen))
    return [out, [n for n in inp.reads]]


def _needs_body(kind, k, cls):
    return _derived(kind, k, cls) or kind == STREAM or (kind == PART and k > 0)


def oracle_fault(case, obs):
    _, cls, script, accs, _, _, cti = case[:7]
    forgood = len(case) > 7 and case[7]
    res, reads = obs[0], obs[1]
    if len(res) != len(accs):
        return ("shape", "observation has %d results for %d accesses" % (len(res), len(accs)))
    full = fault_body(script)
    jt, ft = tables(case)
    # --- no piece is handed out twice, nothing is read after the end or after a failed read
    left = [[it[0], bytes(it[1])] if it[0] == 0 else [1] for it in script]
    eof = raised = False
    for n in reads:
        if raised:
            return ("read-after-read-error", "wsgi.input.read was called again after a call had raised (reads %r, script %r)"
                    % (reads, script))
        if eof:
            return ("input-read-after-end", "wsgi.input.read called again after it returned b'' (reads %r)" % (reads,))
        if not left:
            eof = True
        elif left[0][0] != 0:
            left.pop(0)
            raised = True
        elif n == 0 or not left[0][1]:
            eof = True
        elif len(left[0][1]) <= n:
            left.pop(0)
        else:
            left[0][1] = left[0][1][n:]
    failed = False
    for (kind, k, cs), r in zip(accs, res):
        needs = _needs_body(kind, k, cls)
        if r[0] == "ok" and needs:
            # --- a returned value is derived from ALL pieces, never from a proper part
            if kind == BODY and _s2b(r[1]) != full:
                return ("truncated-body", "body returned %r, the script %r carries %r" % (r[1], script, full))
            if kind == STREAM and cs > 0 and b"".join(_s2b(c) for c in r[1]) != full:
                return ("truncated-body", "stream() to the end yielded %r, the script %r carries %r" % (r[1], script, full))
            if kind == PART and not full.startswith(b"".join(_s2b(c) for c in r[1])):
                return ("stream-not-prefix", "%d items of stream() were %r, the script %r carries %r" % (k, r[1], script, full))
            if kind in (JSON, FORM):
                t = (jt if kind == JSON else ft)[0]
                if not t[1] or r != ["ok", t[2], t[3]]:
                    return ("truncated-body", "access %d returned %r, which is not what the whole body %r gives (%r)"
                            % (kind, r, full, t))
            # --- after a failed read nothing returns a value
            if failed:
                return ("value-after-read-error", "a read had raised before, yet access %r returned %r (script %r)"
                        % ((kind, k, cs), r, script))
            if fault_has(script) and (kind in (BODY, JSON, FORM) or (kind == STREAM and cs > 0)):
                return ("value-despite-read-error", "access %r returned %r although a read of the script %r raises"
                        % ((kind, k, cs), r, script))
        elif r[0] == "exc" and r[1] in READ_ERRORS:
            if failed:
                return ("read-error-twice", "a read had raised before, access %r read the input again and raised %s"
                        % ((kind, k, cs), r[1]))
            if not needs:
                return ("wrong-result", "access %r does not read the body, it gave %r" % ((kind, k, cs), r))
            failed = True
        elif r[0] == "exc" and failed and needs and r != ["exc", "RuntimeError"]:
            return ("not-consumed-after-read-error", "a read had raised before, access %r gave %r instead of the documented "
                    "RuntimeError" % ((kind, k, cs), r))
        elif not needs:
            want = ["ok"] if kind == CLOSE else ["ok", []] if kind == PART else ["exc", "UnsupportedMediaType"]
            got = ["ok", [_s2b(c) for c in r[1]]] if r[0] == "ok" and kind == PART else r
            if got != want:
                return ("wrong-result", "access %r gave %r" % ((kind, k, cs), r))
    return None


def nontrivial_fault(case, obs):
    """a read raised during an access and a later access needs the body"""
    cls = case[1]
    hit = [i for i, r in enumerate(obs[0]) if r[0] == "exc" and r[1] in READ_ERRORS]
    if not hit:
        return False
    return any(_needs_body(a[0], a[1], cls) for a in case[3][hit[0] + 1:])


def shrink_fault(case):
    mode, cls, script, accs, jt, ft, cti = case[:7]
    forgood = case[7] if len(case) > 7 else 0
    for i in range(len(accs)):
        yield mk_fault(cti, script, accs[:i] + accs[i + 1:], forgood)
    for i in range(len(script)):
        yield mk_fault(cti, script[:i] + script[i + 1:], accs, forgood)
    if forgood:
        yield mk_fault(cti, script, accs, 0)


if __name__ == "__main__":
    import sys
    core.main(sys.modules[__name__])
