"""C07 — static-file applications: confinement and exact lexical resolution (C07/Model.v, Lib/Path.v)."""
import itertools
import os
import random
import shutil
import stat as statmod
import sys
import tempfile
from urllib.parse import unquote, urlsplit

from . import core, util

PID = "C07"
MANIFEST = dict(
    text="Theorems confined / serves_resolved / complete / not_found_otherwise / redirect_then_index (and the WSGI, ASGI "
         "instances) about the Gallina model of baize's Files and Pages applications: for EVERY request path text, every "
         "normalised absolute directory other than the root and every file-system function, each path handed to the file "
         "system is the directory or lexically below it, a 200 body is the regular file at the lexical resolution of the path "
         "(Pages: also + '.html', index.html for a directory URL ending in '/'), every regular file below the directory is "
         "served at its own path, everything else is 404 or (Pages) the slash redirect whose target serves the index page. "
         "The model (CPython's posixpath join/normpath/abspath/relpath on text, ensure_absolute_path, check_path_is_file, the "
         "two decision procedures) is compared with the live classes on generated directory trees with parent and sibling "
         "secrets, recording every os.stat / open, and Lib/Path.v is compared with os.path directly.",
    note="Modelled, not verified: os.stat/open as a function from absolute path text to a node that does not change during a "
         "request; posixpath as transcribed in Lib/Path.v (validated by the path stream); find_spec's origin is an input; the "
         "Location header is compared modulo percent-coding (how the URL is rebuilt and quoted is C18); symlinks leaving the "
         "directory and concurrent changes of the tree are outside the property.",
    technique="Coq proof (normal forms of segment lists, stack invariant of normpath, prefix characterisation of the relpath test) "
              "+ executable model/implementation correspondence with file-system access recording",
    ref="5/C07")
RULE = ("cases: (a) every request path of depth <= d (quick 3, thorough 4) over the segment alphabet '', '.', '..', a.txt, sub, "
        "..name, %2e%2e, index.html, x.html, e-acute, with and without trailing slash (exhaustive) x Files/Pages x WSGI/ASGI x "
        "directory given absolute / relative to the working directory / package-relative, on a tree with parent and sibling "
        "secrets (rootx beside root, root.html, ghost.html); (b) targeted paths naming the served directory, its sibling and the "
        "secrets after '..'; (c) other layouts (directory called '..srv', names with spaces, seeded random trees, a served "
        "directory that does not exist) and directory spellings; (d) malformed paths (NUL, over-long names, no leading slash, "
        "random text); (e) Lib/Path.v against os.path: normpath/split on all texts up to length 7 over '/.a', join, abspath, "
        "relpath on generated texts. non-trivial = a request path with a dot segment, an empty segment, a trailing slash, a "
        "percent sign or a name starting with two dots")
TRUSTED = ["Lib/Path.v as a transcription of CPython 3.12 posixpath (validated against os.path on every run)",
           "the recording of file-system accesses (os.stat/os.lstat wrappers + the 'open', 'os.listdir', 'os.scandir' audit events)",
           "the file system as a function of the absolute path text, constant during one request",
           "source-level tie for BaseFiles.ensure_absolute_path: tools/py2coq_c07.py (Python ast -> Gallina, fail-closed; "
           "os.path.join / abspath / relpath are mapped to Lib/Path.v with os.getcwd() an argument, guarded by the check that "
           "`os` is the module of the one plain `import os` and os.path is posixpath; self.directory is an argument of type "
           "str) and C07/PyLib.v + the PyStr functions as the meaning of os.path.join(*l), os.pardir, os.sep, split, ==, "
           "startswith (compared with the interpreter inside coqc on every run)"]
ASSUMPTIONS = ["the directory handed to the decision procedure is a normalised absolute path other than '/' or '//' "
               "(what normalize_dir_path returns; proved for every working directory that is absolute)",
               "request paths contain no '?' or '#' (the rebuilt URL re-splits them: known finding of C18) and script name / root path are empty (C09)",
               "no symbolic link leads out of the directory; the tree does not change during a request",
               "Pages: <directory>/index.html is not itself a directory (premise of serves_resolved_pages / not_found_otherwise_pages)",
               "WSGI: PATH_INFO is the PEP 3333 form (UTF-8 bytes of the URL path decoded as Latin-1)"]
EXHAUSTIVE = {"quick": True, "thorough": True}

# ------------------------------------------------------------------ tree layouts

F, P = "F", "P"


def dtree(depth, idx=True):
    t = {"a.txt": F, "x.html": F, "..name": F, "%2e%2e": F}
    if idx:
        t["index.html"] = F
    if depth > 0:
        t["sub"] = dtree(depth - 1, True)
        t["é"] = dtree(depth - 1, False)
    return t


def layout_main():
    root = dtree(2)
    root.update({".hidden": F, "é.txt": F, "only.html": F, "sub.html": F, "a.txt.html": F, "nope.html.html": F,
                 "x": {"y.txt": F}, "noidx": {"a.txt": F}, "d.html": {"index.html": F},
                 "idxdir": {"index.html": {"index.html": F}},
                 "fifo": P, "loop": ("L", "loop"), "link.txt": ("L", "a.txt"), "deep": {"d1": {"d2": {"f.txt": F}}}})
    t = dtree(1)
    t.update({"secret.txt": F, "root": root, "rootx": dict(dtree(0), **{"secret.txt": F}), "root.html": F,
              "ghost.html": F, "ghost.html.html": F})
    return "root", "rootx", t


def layout_tiny():
    return "r", "rx", {"secret.txt": F, "r": {"f": F, "index.html": F, "s": {"g.html": F}}, "rx": {"secret.txt": F, "f": F}, "r.html": F}


def layout_dots():
    srv = {"a.txt": F, "..name": F, "index.html": F, "sub": {"index.html": F, "...": F}, "...": {"a.txt": F}, "..x": {"index.html": F}}
    return "..srv", "..srvx", {"secret.txt": F, "a.txt": F, "..srv": srv, "..srvx": {"secret.txt": F, "a.txt": F}, "..srv.html": F,
                               "..name": F, "index.html": F}


def layout_names():
    d = {"sp ace.txt": F, "back\\slash": F, "中文": {"index.html": F, "\U0001f600.html": F},
         "a.txt": F, "A.TXT": F, "index.html": F, "ti~de": {"x": F}, "~": F, "a.txt ": F, " ": F}
    return "ro ot é", "ro ot éx", {"secret.txt": F, "ro ot é": d, "ro ot éx": {"secret.txt": F, "a.txt": F}, "ro ot": {"secret.txt": F}}


NAMES = ["a.txt", "sub", "..name", "%2e%2e", "index.html", "x.html", "é", "x", "sub.html", "index.html.html", ".x", "..."]


def random_tree(rng, depth):
    t = {}
    for n in NAMES:
        r = rng.random()
        if r < 0.35:
            t[n] = F
        elif r < 0.6 and depth > 0:
            t[n] = random_tree(rng, depth - 1)
        elif r < 0.63:
            t[n] = P
        elif r < 0.66:
            t[n] = ("L", "loop-" + n)
    return t


def layout_random(k):
    rng = random.Random(7000 + k)
    t = random_tree(rng, 1)
    t["root"] = random_tree(rng, 3)
    t["rootx"] = random_tree(rng, 1)
    t["root.html"] = F
    t["secret.txt"] = F
    return "root", "rootx", t


N_RANDOM_LAYOUTS = 6


class Layout:
    def __init__(self, idx, spec):
        self.idx = idx
        self.name = "c07_l%d" % idx
        self.d, self.dx, self.tree = spec
        self.tree = dict(self.tree)
        self.tree.setdefault("__init__.py", F)
        self.tree.setdefault("cwd", {})
        self.nodes = None      # [(path relative to base, kind, id)]

    # (working directory, directory argument, package) — all relative to the base directory "B"
    def dmode(self, dm, base):
        t = base + "/" + self.name
        d = {
            "abs": (t + "/cwd", t + "/" + self.d, None),
            "abs-slash": (t + "/cwd", t + "/" + self.d + "/", None),
            "abs-dots": (t + "/cwd", t + "/" + self.dx + "/../" + self.d + "/.", None),
            "rel": (t + "/cwd", "../" + self.d, None),
            "rel-dot": (t + "/" + self.d, ".", None),
            "rel-empty": (t + "/" + self.d, "", None),
            "rel-name": (t, self.d, None),
            "rel-dots": (t + "/cwd", "./..//" + self.dx + "/../" + self.d + "/", None),
            "pkg": (t + "/cwd", self.d, self.name),
            "pkg-dots": (t + "/cwd", "./" + self.d + "/", self.name),
            "pkg-up": (t + "/cwd", "cwd/../" + self.d, self.name),
            "pkg-missing": (t + "/cwd", "nonexistent", self.name),
            "pkg-file": (t + "/cwd", "secret.txt", self.name),
            "ghost": (t + "/cwd", t + "/ghost", None),
            "sub": (t + "/cwd", t + "/" + self.d + "/sub", None),
        }
        return d[dm]

    # the directory the application must end up with (relative to base), None = constructor refuses
    def expected_dir(self, dm):
        if dm in ("pkg-missing", "pkg-file"):
            return None
        if dm == "ghost":
            return self.name + "/ghost"
        if dm == "sub":
            return self.name + "/" + self.d + "/sub"
        return self.name + "/" + self.d


def layout_specs():
    return [layout_main(), layout_tiny(), layout_dots(), layout_names()] + [layout_random(k) for k in range(N_RANDOM_LAYOUTS)]


_BASE = None
_LAYOUTS = None
_CONTENT_ID = None


def content_of(rel):
    return ("content of " + rel + "\n").encode("utf-8", "surrogateescape")


def _make(path, rel, tree):
    os.mkdir(path)
    for name, v in tree.items():
        p = path + "/" + name
        r = rel + "/" + name
        if isinstance(v, dict):
            _make(p, r, v)
        elif v == F:
            with open(p, "wb") as f:
                f.write(content_of(r))
            os.utime(p, (1600000000, 1600000000))     # a tree unpacked from an archive: every file carries the same time stamp
        elif v == P:
            os.mkfifo(p)
        else:
            os.symlink(v[1], p)


def _scan(base, rel, out, contents):
    p = base + "/" + rel
    try:
        st = os.stat(p)
    except OSError:
        out.append((rel, 3, None))
        return
    if statmod.S_ISDIR(st.st_mode):
        out.append((rel, 1, None))
        if not os.path.islink(p):
            for n in sorted(os.listdir(p)):
                _scan(base, rel + "/" + n, out, contents)
    elif statmod.S_ISREG(st.st_mode):
        with open(p, "rb") as f:
            c = f.read()
        contents.add(c)
        out.append((rel, 0, c))
    else:
        out.append((rel, 2, None))


def _cleanup(base, pid):
    if os.getpid() == pid:
        shutil.rmtree(base, True)


def setup():
    """Create the trees once (in the parent before the workers are forked, so that all of them share
    one read-only copy); a process that finds none builds its own.  Outside /repo and /verif."""
    global _BASE, _LAYOUTS, _CONTENT_ID
    if _BASE is not None and os.path.isdir(_BASE):
        return
    tmp = os.path.realpath(tempfile.gettempdir())
    for n in os.listdir(tmp):      # sweep trees left by killed processes
        if n.startswith("baize-c07-"):
            try:
                owner = int(n.split("-")[2])
                os.kill(owner, 0)
            except (ValueError, IndexError, PermissionError):
                pass
            except ProcessLookupError:
                shutil.rmtree(os.path.join(tmp, n), True)
    base = os.path.realpath(tempfile.mkdtemp(prefix="baize-c07-%d-" % os.getpid()))
    import atexit
    import multiprocessing.util as mpu
    atexit.register(_cleanup, base, os.getpid())
    mpu.Finalize(None, _cleanup, args=(base, os.getpid()), exitpriority=1)
    if core.mp.current_process().name != "MainProcess":
        import signal

        def bye(signum, frame):
            _cleanup(base, os.getpid())
            os._exit(0)
        signal.signal(signal.SIGTERM, bye)
    layouts = [Layout(i, s) for i, s in enumerate(layout_specs())]
    contents = set()
    for L in layouts:
        _make(base + "/" + L.name, L.name, L.tree)
        out = []
        _scan(base, L.name, out, contents)
        L.nodes = out
    ids = {c: i for i, c in enumerate(sorted(contents))}
    for L in layouts:
        L.nodes = [(rel, k, ids[c] if c is not None else 0) for rel, k, c in L.nodes]
        L.index = {rel: (k, i) for rel, k, i in L.nodes}
    if base not in sys.path:
        sys.path.insert(0, base)
    import importlib
    importlib.invalidate_caches()
    _BASE, _LAYOUTS, _CONTENT_ID = base, layouts, ids


def layouts():
    setup()
    return _LAYOUTS


# ------------------------------------------------------------------ cases

ALPHA = ["", ".", "..", "a.txt", "sub", "..name", "%2e%2e", "index.html", "x.html", "é"]
BATCH = 24


def paths_over(alpha, depth):
    seen = set()
    out = [""]
    seen.add("")
    for n in range(1, depth + 1):
        for t in itertools.product(alpha, repeat=n):
            for tail in ("", "/"):
                p = "/" + "/".join(t) + tail
                if p not in seen:
                    seen.add(p)
                    out.append(p)
    return out


def batches(paths, size=BATCH):
    for i in range(0, len(paths), size):
        yield paths[i:i + size]


def req(kind, iface, li, dm, paths):
    return ["req", kind, iface, li, dm, list(paths)]


def targeted_paths(L):
    names = ["..", L.d, L.dx, L.name, "secret.txt", "a.txt", "index", "x", "only", "sub", "d", "d.html", "idxdir", "noidx", "fifo",
             "loop", "link.txt", ".hidden", "é.txt", "a.txt.html", "", "ghost", "cwd", "index.html", "deep", "d1", "d2", "f.txt"]
    out = []
    for n in (1, 2):
        for t in itertools.product(names, repeat=n):
            out.append("/" + "/".join(t))
    for t in itertools.product(["..", ""], names, names):
        out.append("/" + "/".join(t))
    for t in itertools.product(names[:8], repeat=2):
        out.append("/../../" + "/".join(t))
        out.append("/sub/../../" + "/".join(t))
    out += ["/deep/d1/d2/f.txt", "/deep/d1/d2/f.txt/", "/deep/d1/d2", "/deep/d1/d2/", "/deep/d1/d2/../d2/./f.txt", "/idxdir/index.html/",
            "/idxdir/index.html", "/idxdir/index.html/index.html", "/d/", "/d//", "/a.txt/x", "/a.txt/..", "/a.txt/../a.txt", "/a.txt/.",
            "/fifo/", "/loop/x", "/nope.html/", "/nope.html", "/nope", "/nope.html.html", "/nope.html/.", "/link.txt/", "/a.txt.html", "/a.txt.", "/sub.html", "/sub.html/", "/x/y.txt", "/x/", "/x"]
    seen, res = set(), []
    for p in out:
        for q in (p, p + "/"):
            if q not in seen:
                seen.add(q)
                res.append(q)
    return res


def malformed_paths(rng, n):
    out = ["/a\0.txt", "/\0", "/a.txt\0", "/sub/\0/../a.txt", "/" + "n" * 255, "/" + "n" * 256, "/" + "n" * 300 + "/../a.txt",
           "/" + "/".join(["sub"] * 3) + "/" + "p" * 5000, "/" + "é" * 128, "a.txt", "sub/a.txt", "../secret.txt", "..", ".", "sub/",
           "\\..\\secret.txt", "/..\\secret.txt", "/sub\\..\\..\\secret.txt", "/..;/secret.txt", "/.%2e/secret.txt", "/%2e%2e/secret.txt",
           "/..%2fsecret.txt", "/..%00/secret.txt", "/‥/secret.txt", "/．．/secret.txt", "/..∕secret.txt",
           "/.. /secret.txt", "/ ../secret.txt", "/...", "/.../", "/..../secret.txt", "/sub/...", "/a.txt/../../secret.txt",
           "//..//..//secret.txt", "/./../secret.txt", "/sub/../../rootx/secret.txt", "/../rootx", "/../rootx/", "/../root", "/../root/",
           "/../root.html", "/../root/a.txt", "/../root/../root/a.txt", "/..a.txt", "/..name.html", "/index.html.html", "/index",
           "/sub/index", "/sub/index.html/", "/sub//", "/sub///", "//sub", "///", "//", "/", "", "/.", "/./", "/sub/..", "/sub/../"]
    alpha = ["/", "/", "/", ".", ".", "..", "a", "sub", "a.txt", "%", "\0", "é", "index.html", ".html", "..name", "root", "rootx", "x"]
    for _ in range(n):
        k = rng.randrange(1, 12)
        out.append(("/" if rng.random() < 0.85 else "") + "".join(rng.choice(alpha) for _ in range(k)))
    return out


def path_cases(tier, rng):
    L = 7 if tier == "quick" else 8
    for n in range(0, L + 1):
        for t in itertools.product("/.a", repeat=n):
            s = "".join(t)
            yield "path-normpath", ["path", "normpath", s]
            if n <= 5:
                yield "path-split", ["path", "split", s]
    texts = ["".join(t) for n in range(0, 4) for t in itertools.product("/.a", repeat=n)]
    for a in texts:
        for b in texts:
            yield "path-join", ["path", "join", a, [b]]
    short = ["".join(t) for n in range(0, 3) for t in itertools.product("/.a", repeat=n)]
    for a in short:
        for b in short:
            for c in short:
                yield "path-join", ["path", "join", a, [b, c]]
    segs = ["", ".", "..", "a", "b", "..a", "a.", "é", "a\0b", "c07_l0", "cwd", "root"]
    nr = 1500 if tier == "quick" else 20000

    def rtext():
        k = rng.randrange(0, 7)
        s = "/".join(rng.choice(segs) for _ in range(k))
        return rng.choice(["", "", "/", "/", "//", "///"]) + s + rng.choice(["", "", "/"])
    for _ in range(nr):
        yield "path-normpath", ["path", "normpath", rtext()]
        yield "path-join", ["path", "join", rtext(), [rtext() for _ in range(rng.randrange(0, 4))]]
        yield "path-abspath", ["path", "abspath", rng.randrange(0, 3), rtext()]
        yield "path-relpath", ["path", "relpath", rng.randrange(0, 3), rtext(), rtext()]
    for a in short + ["../..", "/a/b", "a/b", "/a/../b", "//a", "///a"]:
        for b in short + ["../..", "/a/b", "a/b", "/a/b/c", "//a", "/a/"]:
            for ck in (0, 2):
                yield "path-relpath", ["path", "relpath", ck, a, b]
                yield "path-abspath", ["path", "abspath", ck, a]


def cases(tier, rng):
    setup()
    depth = 3 if tier == "quick" else 4
    ls = layouts()
    main = ls[0]
    # (a) exhaustive alphabet paths on the main layout
    ex = paths_over(ALPHA, depth)
    for dm in ("abs", "rel", "pkg"):
        for kind in (0, 1):
            for iface in (0, 1):
                for b in batches(ex):
                    yield "exhaustive-" + dm, req(kind, iface, 0, dm, b)
    # (b) targeted: names of the directory, its sibling, the secrets
    tp = targeted_paths(main)
    for kind in (0, 1):
        for iface in (0, 1):
            for b in batches(tp):
                yield "targeted", req(kind, iface, 0, "abs", b)
    # (b') the same apps with handle_404 configured (iface 2 / 3): the not-found path hands the request to it,
    # every other path leaves it alone
    for kind in (0, 1):
        for iface in (2, 3):
            for b in batches(tp + paths_over(ALPHA, 2)):
                yield "handle-404", req(kind, iface, 0, "abs", b)
            for b in batches(paths_over(ALPHA, 2)):
                yield "handle-404", req(kind, iface, 0, "ghost", b)
    # (b'') the same apps mounted with baize's own Subpaths at MOUNT, a prefix that is also the name of a directory
    # inside the served tree (iface 4 / 5; seed C07-13): the request path below the mount point is what is resolved —
    # "/sub/sub/a.txt" is <dir>/sub/a.txt —, the redirect of Pages keeps the prefix
    mounted = [p for p in tp + paths_over(ALPHA, 3 if tier == "quick" else 4) if p == "" or p.startswith("/")]
    for kind in (0, 1):
        for iface in (4, 5):
            for b in batches(mounted):
                yield "mounted", req(kind, iface, 0, "abs", b)
    # (c) other spellings of the directory, other layouts
    ex2 = paths_over(ALPHA, 2)
    for dm in ("abs-slash", "abs-dots", "rel-dot", "rel-empty", "rel-name", "rel-dots", "pkg-dots", "pkg-up", "ghost", "sub",
               "pkg-missing", "pkg-file"):
        for kind in (0, 1):
            for iface in (0, 1):
                for b in batches(ex2 + ["/../ghost.html", "/../ghost", "/x/..", "//", "/."]):
                    yield "dir-" + dm, req(kind, iface, 0, dm, b)
    for L in ls[1:]:
        names = sorted({seg for rel, _, _ in L.nodes for seg in rel.split("/")} - {L.name}) + ["", ".", ".."]
        if len(names) > 14:
            names = ["", ".", "..", L.d, L.dx] + rng.sample(names, 9)
        ps = paths_over(names, 2 if tier == "quick" else 3)
        ps += ["/../%s/%s" % (L.dx, n) for n in names] + ["/../" + n for n in names]
        for dm in ("abs", "rel", "pkg"):
            for kind in (0, 1):
                for iface in (0, 1):
                    for b in batches(ps):
                        yield "layout-%d" % L.idx, req(kind, iface, L.idx, dm, b)
        # a few single-path cases with short lines (kernel cross-check)
        if L.idx == 1:
            for p in ps[:400]:
                yield "tiny-single", req(rng.randrange(2), rng.randrange(2), 1, "abs", [p])
    # (d) malformed
    mp = malformed_paths(rng, 600 if tier == "quick" else 8000)
    for kind in (0, 1):
        # Pages builds the redirect from host + path: a path that is neither empty nor starts with "/" is nothing a
        # gateway or a mount can deliver and has no URL to redirect to
        mpk = mp if kind == 0 else [p for p in mp if p == "" or p.startswith("/")]
        for iface in (0, 1):
            for b in batches(mpk, 12):
                yield "malformed", req(kind, iface, 0, rng.choice(["abs", "abs", "rel", "pkg"]), b)
    # (e) Lib/Path.v against os.path
    yield from path_cases(tier, rng)


def search_cases(tier, rng, mism):
    yield from cases("thorough", rng)


# ------------------------------------------------------------------ encoding for the model


def gateway_text(iface, url_path):
    """what a gateway hands to the application for a (decoded) URL path"""
    if iface == 0:   # PEP 3333: the bytes of the path as Latin-1 text
        return url_path.encode("utf-8", "surrogateescape").decode("latin-1")
    return url_path


CWDS = ["c07_l0/cwd", "", None]


def cwd_of(key):
    setup()
    c = CWDS[key]
    return "/" if c is None else (_BASE + ("/" + c if c else ""))


def ENCODE(case):
    setup()
    if case[0] == "path":
        fn = case[1]
        if fn in ("abspath", "relpath"):
            return core.enc_line([fn, cwd_of(case[2])] + list(case[3:]))
        return core.enc_line(case[1:])
    _, kind, iface, li, dm, paths = case
    L = _LAYOUTS[li]
    cwd, directory, pkg = L.dmode(dm, _BASE)
    origin = []
    if pkg is not None:
        import importlib.util
        spec = importlib.util.find_spec(pkg)
        origin = [spec.origin]
    nodes = [[os.fsdecode(rel), k, i] for rel, k, i in L.nodes]
    return core.enc_line(["req", kind, iface % 2, _BASE, cwd, directory, origin, [gateway_text(iface % 2, p) for p in paths], nodes])


# ------------------------------------------------------------------ implementation driver

_REC = [None]
_HOOKED = [False]


def _install_recorders():
    if _HOOKED[0]:
        return
    _HOOKED[0] = True
    import mimetypes
    mimetypes.init()          # reads the system's mime.types now, not during a request
    real_stat, real_lstat = os.stat, os.lstat

    def rec_stat(path, *a, **k):
        if _REC[0] is not None:
            _REC[0].append(("stat", path))
        return real_stat(path, *a, **k)

    def rec_lstat(path, *a, **k):
        if _REC[0] is not None:
            _REC[0].append(("stat", path))
        return real_lstat(path, *a, **k)
    os.stat, os.lstat = rec_stat, rec_lstat

    def hook(event, args):
        if _REC[0] is not None and event in ("open", "os.listdir", "os.scandir"):
            _REC[0].append(("open" if event == "open" else "list", args[0]))
    sys.addaudithook(hook)


def canon(p):
    if isinstance(p, bytes):
        p = os.fsdecode(p)
    if not isinstance(p, str):
        return "<%s>" % type(p).__name__
    pre = _BASE + "/"
    return p[len(pre):] if p.startswith(pre) else p


class Fallback:
    """handle_404: an application of the app's interface that records how it was called and answers 404 itself"""

    def __init__(self, iface):
        self.calls = []
        if iface == 0:
            def app(environ, start_response):
                self.calls.append(environ)
                start_response("404 Not Found", [("x-fallback", "1")])
                return [b"fallback"]
        else:
            async def app(scope, receive, send):
                self.calls.append(scope)
                await send({"type": "http.response.start", "status": 404, "headers": [(b"x-fallback", b"1")]})
                await send({"type": "http.response.body", "body": b"fallback"})
        self.app = app


MOUNT = "/sub"


def one_call(app, iface, url_path, mount=""):
    """-> (outcome, sorted distinct canonical accessed paths)"""
    from baize.exceptions import HTTPException
    fb = getattr(app, "_c07_fallback", None)
    if fb is not None:
        del fb.calls[:]
    raw = gateway_text(iface, url_path)
    rec = []
    _REC[0] = rec
    try:
        if iface == 0:
            starts, items, exc = util.call_wsgi(app, util.wsgi_environ(path=mount + raw))
            status = int(starts[-1][0].split()[0]) if starts else None
            headers = {k.lower(): v for k, v in starts[-1][1]} if starts else {}
            body = b"".join(x for _, x in items)
        else:
            sent, exc = util.call_asgi(app, util.http_scope(path=mount + raw))
            status, headers, body = None, {}, b""
            for m in sent:
                if m["type"] == "http.response.start":
                    status = m["status"]
                    headers = {k.decode("latin-1").lower(): v.decode("latin-1") for k, v in m.get("headers", [])}
                elif m["type"] == "http.response.body":
                    body += m.get("body", b"")
    finally:
        _REC[0] = None
    acc = sorted({canon(p) for _, p in rec if isinstance(p, (str, bytes))})
    opened = [canon(p) for kind, p in rec if kind == "open" and isinstance(p, (str, bytes))]
    if fb is not None:
        # with handle_404 configured the not-found path is: hand the very request to that application, once, and
        # return what it answers; every other path must leave it alone
        if exc is not None and isinstance(exc, HTTPException) and exc.status_code == 404:
            return ["404-raised-although-handle_404-is-set"], acc
        if fb.calls:
            if len(fb.calls) == 1 and status == 404 and headers.get("x-fallback") == "1" and body == b"fallback" and exc is None:
                return ["404"], acc
            return ["handle_404-misused", len(fb.calls), status if status is not None else -1], acc
    if exc is not None:
        if isinstance(exc, HTTPException) and exc.status_code == 404 and status is None:
            return ["404"], acc
        return ["exc", type(exc).__name__], acc
    if status == 200:
        cid = _CONTENT_ID.get(body)
        if cid is None:
            return ["200-unknown-content", body[:60]], acc
        return ["200", opened[-1] if opened else "", cid], acc
    if status == 307:
        loc = headers.get("location", "")
        sp = urlsplit(loc)
        want = unquote(mount + url_path + "/", errors="surrogateescape")
        if (sp.scheme == "" and sp.netloc == "testserver" and sp.query == "" and sp.fragment == ""
                and unquote(sp.path, errors="surrogateescape") == want and body == b""):
            return ["307", raw + "/"], acc
        return ["307-bad-location", loc], acc
    if status == 404:
        return ["404-response"], acc
    return ["status", status if status is not None else -1], acc


def impl(case):
    setup()
    _install_recorders()
    if case[0] == "path":
        return impl_path(case)
    _, kind, iface, li, dm, paths = case
    # iface 2 / 3: WSGI / ASGI with handle_404 configured; 4 / 5: mounted with Subpaths at MOUNT
    with_fallback, mount, iface = iface in (2, 3), (MOUNT if iface >= 4 else ""), iface % 2
    L = _LAYOUTS[li]
    cwd, directory, pkg = L.dmode(dm, _BASE)
    os.chdir(cwd)
    if iface == 0:
        from baize.wsgi import Files, Pages
    else:
        from baize.asgi import Files, Pages
    cls = Pages if kind else Files
    fb = Fallback(iface) if with_fallback else None
    kw = {"handle_404": fb.app} if fb else {}
    try:
        app = cls(directory, pkg, **kw) if pkg is not None else cls(directory, **kw)
    except AssertionError:
        return [[]]
    if fb:
        app._c07_fallback = fb
    out = [[canon(app.directory)]]
    target = app
    if mount:
        if iface == 0:
            from baize.wsgi import Subpaths
        else:
            from baize.asgi import Subpaths
        target = Subpaths((mount, app))
        target._c07_fallback = None
    for p in paths:
        o, acc = one_call(target, iface, p, mount)
        follow = []
        if o[0] == "307":
            o2, acc2 = one_call(target, iface, p + "/", mount)
            follow = [o2, acc2]
        out.append([o, acc, follow])
    return out


def impl_path(case):
    fn = case[1]
    if fn == "normpath":
        return [os.path.normpath(case[2])]
    if fn == "split":
        return [case[2].split("/")]
    if fn == "join":
        return [os.path.join(case[2], *case[3])]
    os.chdir(cwd_of(case[2]))
    if fn == "abspath":
        return [os.path.abspath(case[3])]
    if fn == "relpath":
        try:
            return [["ok", os.path.relpath(case[3], case[4])]]
        except ValueError:
            return [["ValueError"]]
    return ["badcase"]


# ------------------------------------------------------------------ the property, evaluated on the observation


def resolve(dsegs, url_path):
    """lexical resolution below the directory: (segments relative to base, escaped above base?)"""
    stack = list(dsegs)
    escaped = False
    for s in url_path.split("/"):
        if s in ("", "."):
            continue
        if s == "..":
            if stack:
                stack.pop()
            else:
                escaped = True      # above the tree: the names up there are not ours, it never comes back inside
        else:
            stack.append(s)
    return stack, escaped


def expected(kind, index, d, url_path):
    """what the property demands for one request: ('200', path, id) | ('307',) | ('404',)"""
    dsegs = d.split("/")
    stack, escaped = resolve(dsegs, url_path)
    if escaped or stack[:len(dsegs)] != dsegs:
        return ("404",)
    t = "/".join(stack)

    def node(p):
        return index.get(p, (4, 0))     # 0 file 1 dir 2 other 3 error 4 absent
    k, i = node(t)
    if k == 0:
        return ("200", t, i)
    if kind == 0:
        return ("404",)
    if k == 1:
        if url_path.endswith("/"):
            kk, ii = node(t + "/index.html")
            return ("200", t + "/index.html", ii) if kk == 0 else ("404",)
        return ("307",)
    if k in (3, 4) and not t.endswith(".html") and t != d:
        kk, ii = node(t + ".html")
        if kk == 0:
            return ("200", t + ".html", ii)
    return ("404",)


def inside(d, p):
    return (p == d or p.startswith(d + "/")) and ".." not in p.split("/")


def check_one(kind, iface, L, dm, d, url_path, o, acc, follow):
    index = L.index
    for p in acc:
        if not inside(d, p):
            return ("outside-access", "request %r (directory %r): the file system was asked about %r, which is not inside the directory"
                    % (url_path, d, p))
    exp = expected(kind, index, d, url_path)
    got = o[0]
    if got == "exc":
        return ("escapes-as-" + o[1], "request %r: %s escapes instead of an HTTP answer (expected %s)" % (url_path, o[1], exp[0]))
    if got == "200":
        if exp[0] != "200":
            sig = "served-outside" if not inside(d, o[1]) else "served-unexpected"
            return (sig, "request %r (directory %r) serves %r, expected %s" % (url_path, d, o[1], exp[0]))
        if (o[1], o[2]) != (exp[1], exp[2]):
            return ("served-wrong-file", "request %r serves %r (content %d), expected %r (content %d)" % (url_path, o[1], o[2], exp[1], exp[2]))
        return None
    if got == "404":
        if exp[0] == "200":
            last = exp[1].split("/")[-1]
            rel = exp[1][len(d) + 1:]
            if iface == 0 and not url_path.isascii():
                sig = "wsgi-non-ascii-not-found"
            elif any(s.startswith("..") for s in rel.split("/")):
                sig = "dotdot-name-not-found"
            else:
                sig = "file-not-served"
            return (sig, "request %r: 404, but %r is a regular file inside the directory %r" % (url_path, exp[1], d))
        if exp[0] == "307":
            if iface == 0 and not url_path.isascii():
                return ("wsgi-non-ascii-not-found", "request %r: 404, expected the redirect to %r" % (url_path, url_path + "/"))
            return ("directory-not-redirected", "request %r: 404, expected the redirect to %r" % (url_path, url_path + "/"))
        return None
    if got == "307":
        if exp[0] != "307":
            sig = "dir-slash-redirects" if url_path.endswith("/") else "redirect-unexpected"
            return (sig, "request %r is redirected to %r, expected %s%s" % (url_path, o[1], exp[0], " " + exp[1] if exp[0] == "200" else ""))
        # the redirect target, requested next, serves the directory's index page
        if not follow:
            return ("redirect-not-followed", "driver did not follow the redirect of %r" % url_path)
        o2, acc2 = follow
        for p in acc2:
            if not inside(d, p):
                return ("outside-access", "request %r: the file system was asked about %r" % (url_path + "/", p))
        exp2 = expected(kind, index, d, url_path + "/")
        if o2[0] == "exc":
            return ("escapes-as-" + o2[1], "request %r: %s escapes" % (url_path + "/", o2[1]))
        if tuple(o2) != exp2:
            sig = "redirect-loop" if o2[0] == "307" else "redirect-target-wrong"
            return (sig, "request %r is redirected to %r, which then gives %r, expected %r" % (url_path, o[1], o2, exp2))
        return None
    if got == "307-bad-location":
        return ("redirect-location-wrong", "request %r: Location %r is not the request URL plus '/'" % (url_path, o[1]))
    return ("unexpected-answer", "request %r: %r (expected %s)" % (url_path, o, exp[0]))


def oracle(case, obs):
    if case[0] == "path":
        return None
    if obs and obs[0] == "driver-exception":
        return ("driver-exception-" + obs[1], str(obs[2:]))
    _, kind, iface, li, dm, paths = case
    iface = iface % 2
    L = layouts()[li]
    d = L.expected_dir(dm)
    if d is None:
        if obs != [[]]:
            return ("directory-not-refused", "constructor accepted a package directory that does not exist: %r" % (obs[:1],))
        return None
    if obs == [[]] or obs[0] != [d]:
        return ("directory-wrong", "application directory is %r, expected %r" % (obs[:1], d))
    found = []
    for p, r in zip(paths, obs[1:]):
        v = check_one(kind, iface, L, dm, d, p, r[0], r[1], r[2])
        if v is not None:
            found.append(v)
    if len(obs) - 1 != len(paths):
        found.append(("driver-short", "observation has %d entries for %d paths" % (len(obs) - 1, len(paths))))
    if not found:
        return None
    pref = os.environ.get("VERIF_PREFER_SIG")
    for v in found:
        if pref and pref in v[0]:
            return v
    # a known finding must not hide another failure of the same batch
    known = {e.get("signature") for e in core.load_known(PID)}
    for v in found:
        if v[0] not in known:
            return v
    return found[0]


def odd(p):
    segs = p.split("/")[1:] if p.startswith("/") else p.split("/")
    return (p.endswith("/") or "%" in p or any(s in ("", ".", "..") or s.startswith("..") for s in segs[:-1] + segs[-1:]))


def nontrivial(case, obs):
    if case[0] == "path":
        return True
    return any(odd(p) for p in case[5])


def shrink(case):
    if case[0] != "req":
        return
    _, kind, iface, li, dm, paths = case
    if len(paths) > 1:
        for p in paths:
            yield ["req", kind, iface, li, dm, [p]]
        return
    p = paths[0]
    segs = p.split("/")
    for i in range(1 if p.startswith("/") else 0, len(segs)):      # keep the leading slash
        q = "/".join(segs[:i] + segs[i + 1:])
        if q != p and (q.startswith("/") or not p.startswith("/")):
            yield ["req", kind, iface, li, dm, [q]]
    if dm != "abs":
        yield ["req", kind, iface, li, "abs", [p]]
    if len(p) > 40:
        for i in range(len(segs)):
            if len(segs[i]) > 8:
                yield ["req", kind, iface, li, dm, ["/".join(segs[:i] + [segs[i][:len(segs[i]) // 2]] + segs[i + 1:])]]


# ---------------------------------------------------------------- the source-level tie (tools/py2coq_c07.py)


def extra_obligations(tier):
    """BaseFiles.ensure_absolute_path is translated to Gallina from the source in BAIZE_REPO as it is now (os.path.* =
    Lib/Path.v, the working directory and self.directory arguments), and coqc re-checks C07/Translated.v (translated
    method = C07.Model.ensure_files, for every working directory, directory and request path) against the fresh definition;
    C07/PyLib.v and the PyStr functions the translation is made of are compared with the interpreter's own os.path / str.
    A source the translator refuses is not applicable (None)."""
    import importlib.util
    spec = importlib.util.spec_from_file_location("py2coq_c07", os.path.join(core.VERIF, "tools", "py2coq_c07.py"))
    tr = importlib.util.module_from_spec(spec)
    spec.loader.exec_module(tr)
    return list(tr.obligations(core.REPO, core.VERIF))


if __name__ == "__main__":
    setup()
    core.main(sys.modules[__name__])
