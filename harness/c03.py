"""C03 — Range header resolution: correspondence with C03/Model.v + property oracle."""
import itertools
import os
import re

from . import core, util

PID = "C03"
MANIFEST = dict(text="Theorems range_canonical / range_denotation / range_classification / number_meaning about the Gallina model of parse_range "
             "(regex scan, spec arithmetic, sort+coalesce) hold for every header text and every size; the model is compared with "
             "the live parse_range on an exhaustive small domain, random range sets, arbitrary text and the \\d table.",
        note="Modelled, not verified: re.findall's scan (transcribed as a two-phase scanner), int() incl. its 4300-digit limit (a longer number, leading zeros apart, stands for a position beyond the file), "
             "sorted(); size >= 0.",
        technique="Coq proof (fold invariant, sortedness, interval-union extensionality) + executable model/implementation correspondence",
        ref="5/C03")

RULE = ("cases: (a) every ordered range set of <=3 specs (first-last, first-, -suffix) over a small number "
        "domain x every size of that domain (exhaustive), (b) random sets of up to 12 specs over numbers up to 1e30 "
        "with varied separators, (c) arbitrary text over 'bytes=0123456789-, x' plus non-ASCII digits, (d) numbers "
        "around CPython's 4300-digit int() limit, (e) the \\d code-point table over all of Unicode. "
        "non-trivial = the header has >=2 specs, or is rejected for a reason other than a missing 'bytes=' prefix")
TRUSTED = ["model of re.findall(r'(\\d*)-(\\d*)') as a two-phase scanner (Lib of C03/Model.v), validated by this correspondence",
           "Unicode Nd table (Lib/Unicode.v), compared with the interpreter's re/int over all 0x110000 code points on every run"]
ASSUMPTIONS = ["file size >= 0 (a size comes from os.stat)",
               "lenient extraction is intended (the pinned test accepts 'bytes=0-10,hello'): the specs of a header are the "
               "non-empty matches of (\\d*)-(\\d*) after 'bytes='"]
EXHAUSTIVE = {"quick": True, "thorough": True}


def specs_over(nums):
    out = []
    for a in nums:
        for b in nums:
            out.append("%d-%d" % (a, b))
    for a in nums:
        out.append("%d-" % a)
        out.append("-%d" % a)
    return out


def cases(tier, rng):
    dom = range(0, 4) if tier == "quick" else range(0, 5)
    sp = specs_over(dom)
    sizes = list(dom) + [max(dom) + 1]
    for k in (1, 2, 3):
        for combo in itertools.product(sp, repeat=k):
            h = "bytes=" + ",".join(combo)
            for size in sizes:
                yield "exhaustive", ["range", h, size]
    # the two counter-examples of the property text and friends
    for h, size in [("bytes=5-4", 10), ("bytes=0-9,20-29,5-24", 100), ("bytes=20-29,0-9,10-19", 100),
                    ("bytes=0-10,hello", 100), ("bytes=0-10,-", 100), ("bytes=", 10), ("", 10), ("bytes", 3),
                    ("items=0-1", 10), ("bytes=0-0", 0), ("bytes=-0", 5), ("bytes=-7", 5), ("bytes==1-2", 5)]:
        yield "literal", ["range", h, size]
    n_rand = 4000 if tier == "quick" else 60000
    for _ in range(n_rand):
        size = rng.choice([0, 1, 10, 100, 1000, 10 ** 6, 10 ** 30, rng.randrange(0, 5000)])
        top = max(size, 4) * 2 if rng.random() < 0.8 else 10 ** 31
        k = rng.randrange(1, 13)
        parts = []
        for _ in range(k):
            a = rng.randrange(0, top) if rng.random() < 0.9 else rng.randrange(0, 12)
            b = a + rng.randrange(0, max(2, top // 4)) if rng.random() < 0.85 else rng.randrange(0, top)
            form = rng.random()
            if form < 0.7:
                parts.append("%d-%d" % (a, b))
            elif form < 0.85:
                parts.append("%d-" % a)
            else:
                parts.append("-%d" % rng.randrange(0, max(2, min(top, size * 2 + 2))))
        sep = rng.choice([",", ", ", " , ", ",\t"])
        yield "random-sets", ["range", "bytes=" + sep.join(parts), size]
    alphabet = "bytes=0123456789-, x٣१"
    n_txt = 6000 if tier == "quick" else 80000
    for _ in range(n_txt):
        n = rng.randrange(0, 14)
        body = "".join(rng.choice("0123456789--,, x=٣१") for _ in range(n))
        pre = rng.choice(["bytes=", "bytes=", "bytes=", "bytes", "byte=", "Bytes=", "", "=", "bytes =", " bytes="])
        yield "text", ["range", pre + body, rng.choice([0, 1, 5, 10, 40, 400])]
    for nd in (4299, 4300, 4301, 5000):
        for tmpl in ("bytes=%s-", "bytes=-%s", "bytes=0-%s", "bytes=0-1,%s-", "bytes=9-1,0-%s"):
            yield "huge-number", ["range", tmpl % ("1" * nd), 10]
            yield "huge-number", ["range", tmpl % ("0" * nd), 10]
    # volume: range sets of hundreds and thousands of specs (every one of them counts)
    n_vol = 24 if tier == "quick" else 120
    for i in range(n_vol):
        k = rng.choice([200, 255, 256, 257, 300, 512, 1000, 3000])
        size = rng.choice([100, 5000, 10 ** 6])
        parts = []
        for j in range(k):
            a = rng.randrange(0, size)
            w = rng.choice([0, 1, 3, size // 50 + 1])
            parts.append("%d-%d" % (a, a + w))
        tail = rng.choice(["", "", ",%d-" % (size - 1), ",-1", ",%d-" % size, ",5-4", ",%d-%d" % (size - 2, size + 5), ",-", ",x"])
        yield "volume", ["range", "bytes=" + ",".join(parts) + tail, size]
    # the same resolution observed where a client sees it: status, Content-Range and part list of a FileResponse, both
    # interfaces; the header as the octets a server hands over (Latin-1 text in WSGI, bytes in ASGI)
    octets = ["0", "1", "2", "3", "9", "-", "-", ",", ", ", " ", "x", "=", "\xe9", "\xd9\xa3", "\xd9\xa5", "\xef\xbc\x91", "\xb2", "\xa0", "\x85", "\xff"]
    n_resp = 1500 if tier == "quick" else 12000
    for i in range(n_resp):
        size = rng.choice([0, 1, 5, 10, 40, 400, 5000])
        form = rng.random()
        if form < 0.5:
            k = rng.randrange(1, 6)
            parts = []
            for _ in range(k):
                a = rng.randrange(0, max(2, size + 3))
                f2 = rng.random()
                parts.append("%d-%d" % (a, a + rng.randrange(0, max(2, size // 3))) if f2 < 0.6 else ("%d-" % a if f2 < 0.8 else "-%d" % rng.randrange(0, size + 3)))
            h = "bytes=" + rng.choice([",", ", "]).join(parts)
            if rng.random() < 0.3:
                j = rng.randrange(6, len(h) + 1)
                h = h[:j] + rng.choice(octets[12:]) + h[j:]
        elif form < 0.9:
            h = rng.choice(["bytes=", "bytes=", "bytes=", "bytes", "Bytes=", ""]) + "".join(rng.choice(octets) for _ in range(rng.randrange(0, 10)))
        else:
            d = rng.choice(["\xd9\xa3", "\xef\xbc\x91", "\xe0\xa5\xa7", "\xb2", "\xb9"])
            h = rng.choice(["bytes=%s-", "bytes=%s-%s", "bytes=-%s", "bytes=0-%s", "bytes=0-1,%s-"]).replace("%s", d)
        yield "through-response", ["resp", ("wsgi", "asgi")[i % 2], h, size]
    step = 0x1000
    for lo in range(0, 0x110000, step):
        yield "digit-table", ["digits", lo, step]


def search_cases(tier, rng, mism):
    yield from cases("thorough", rng)


_digit = re.compile(r"\d")
_cr = re.compile(r"^bytes (\d+)-(\d+)/(\d+)$")
_files = {}


def ENCODE(case):
    # a FileResponse resolves the header it is handed with parse_range: the model's answer is that of the plain call
    if case[0] == "resp":
        return core.enc_line(["range", case[2], case[3]])
    return core.enc_line(case)


def _file(size):
    p = _files.get(size)
    if p is None:
        p = os.path.join(util.tmpdir(), "c03-%d.bin" % size)
        with open(p, "wb") as f:
            f.write(bytes(i % 251 for i in range(size)))
        _files[size] = p
    return p


def _ranges_of(status, headers, body, size):
    """what a client learns from the answer: the outcome in parse_range's vocabulary"""
    hd = {}
    for k, v in headers:
        hd.setdefault(k.lower(), []).append(v)
    if status == 400:
        return ["400"]
    if status == 416:
        if hd.get("content-range") != ["*/%d" % size]:
            return ["416-bad-headers", str(sorted(hd.items()))]
        return ["416"]
    if status != 206:
        return ["status", status]
    ctype = (hd.get("content-type") or [""])[0]
    if ctype.startswith("multipart/byteranges"):
        out = []
        for line in body.split(b"\n"):
            if line.lower().startswith(b"content-range:"):
                m = _cr.match(line.split(b":", 1)[1].strip().decode("latin-1"))
                if not m or int(m.group(3)) != size:
                    return ["bad-part-header", line.decode("latin-1")]
                out.append([int(m.group(1)), int(m.group(2)) + 1])
        return ["ok"] + out
    crs = hd.get("content-range") or []
    m = _cr.match(crs[0]) if len(crs) == 1 else None
    if not m or int(m.group(3)) != size:
        return ["bad-content-range", str(crs)]
    a, b = int(m.group(1)), int(m.group(2)) + 1
    if body != bytes(i % 251 for i in range(a, b)):
        return ["bad-body", a, b]
    return ["ok", [a, b]]


def impl_resp(case):
    _, iface, header, size = case
    path = _file(size)
    if iface == "wsgi":
        import baize.wsgi.responses as W
        env = util.wsgi_environ("GET")
        env["HTTP_RANGE"] = header
        starts, items, exc = util.call_wsgi(W.FileResponse(path, content_type="application/x-c03"), env)
        if exc is not None:
            return [["exc", type(exc).__name__]]
        if len(starts) != 1:
            return [["protocol", len(starts)]]
        status, headers = starts[0]
        return [_ranges_of(int(status.split(" ")[0]), [(k, v) for k, v in headers], b"".join(x for _, x in items), size)]
    import baize.asgi.responses as A
    scope = util.http_scope("GET", headers=[(b"range", header.encode("latin-1"))])
    sent, exc = util.call_asgi(A.FileResponse(path, content_type="application/x-c03"), scope)
    if exc is not None:
        return [["exc", type(exc).__name__]]
    if not sent or sent[0]["type"] != "http.response.start":
        return [["nostart"]]
    body = b"".join(m.get("body", b"") for m in sent[1:])
    headers = [(k.decode("latin-1"), v.decode("latin-1")) for k, v in sent[0].get("headers", [])]
    return [_ranges_of(int(sent[0]["status"]), headers, body, size)]


def impl(case):
    from baize.responses import FileResponseMixin
    from baize.exceptions import HTTPException
    op = case[0]
    if op == "resp":
        return impl_resp(case)
    if op == "digits":
        lo, n = case[1], case[2]
        out = []
        for c in range(lo, lo + n):
            ch = chr(c)
            if _digit.fullmatch(ch):
                out.append([c, int(ch)])
        return [out]
    try:
        r = FileResponseMixin.parse_range(case[1], case[2])
    except HTTPException as e:
        if e.status_code == 416:
            # the 416 must carry Content-Range: */size
            if dict(e.headers or {}) != {"Content-Range": "*/%d" % case[2]}:
                return [["416-bad-headers", str(e.headers)]]
        return [[str(e.status_code)]]
    except Exception as e:
        return [["exc", type(e).__name__]]
    return [["ok"] + [[int(a), int(b)] for a, b in r]]


# ---- the property, evaluated on the implementation's answer ------------------

_spec = re.compile(r"^(?:([0-9]+)-([0-9]+)|([0-9]+)-|-([0-9]+))$")


def _int(digits):
    """the number a digit string denotes, whatever its length (int() itself refuses more than 4300 digits)"""
    n = 0
    for i in range(0, len(digits), 4000):
        piece = digits[i:i + 4000]
        n = n * 10 ** len(piece) + int(piece)
    return n


def strict_specs(header):
    """The spec list if the header is a comma/OWS separated list of specs, else None."""
    if not header.startswith("bytes="):
        return None
    out = []
    for item in header[len("bytes="):].split(","):
        m = _spec.match(item.strip(" \t"))
        if not m:
            return None
        if m.group(1) is not None:
            out.append(("fl", _int(m.group(1)), _int(m.group(2))))
        elif m.group(3) is not None:
            out.append(("f", _int(m.group(3))))
        else:
            out.append(("s", _int(m.group(4))))
    return out


def denote(spec, size):
    """half-open clipped interval denoted by a spec, or '416' / '400'"""
    if spec[0] == "fl":
        f, l = spec[1], spec[2]
        if f >= size:
            return "416"
        if f > l:
            return "400"
        return (f, min(l + 1, size))
    if spec[0] == "f":
        return "416" if spec[1] >= size else (spec[1], size)
    n = spec[1]
    if n == 0 or n > size:
        return "416"
    return (size - n, size)


def union(intervals):
    out = []
    for s, e in sorted(intervals):
        if out and s <= out[-1][1]:
            out[-1][1] = max(out[-1][1], e)
        else:
            out.append([s, e])
    return out


def oracle(case, obs):
    if case[0] == "resp":
        r = oracle(["range", case[2], case[3]], obs)
        return r and (r[0] + "-through-" + case[1], case[1] + " FileResponse: " + r[1])
    if case[0] != "range":
        return None
    header, size = case[1], case[2]
    o = obs[0]
    kind = o[0]
    if kind == "exc":
        return ("parse_range-raises-" + o[1], "parse_range(%r, %d) raised %s" % (header[:80], size, o[1]))
    if kind not in ("ok", "400", "416"):
        return ("bad-outcome-" + kind, str(o))
    if kind == "ok":
        rs = o[1:]
        if not rs:
            return ("empty-result", "returned no range")
        prev_end = None
        for s, e in rs:
            if not (0 <= s < e <= size):
                return ("non-canonical", "range (%d,%d) is empty or outside [0,%d) for %r" % (s, e, size, header[:80]))
            if prev_end is not None and not (s > prev_end):
                return ("non-canonical", "ranges %r not strictly ascending / disjoint / non-adjacent for %r" % (rs, header[:80]))
            prev_end = e
    specs = strict_specs(header)
    if specs is not None:
        den = [denote(s, size) for s in specs]
        if "416" in den:
            exp = "416"
        elif "400" in den:
            exp = "400"
        else:
            exp = "ok"
        if kind != exp:
            return ("misclassified", "header %r size %d: expected %s, got %s" % (header[:80], size, exp, kind))
        if kind == "ok" and union(den) != [list(x) for x in o[1:]]:
            return ("wrong-union", "header %r size %d: expected %r, got %r" % (header[:80], size, union(den), o[1:]))
    return None


def nontrivial(case, obs):
    if case[0] == "resp":
        return nontrivial(["range", case[2], case[3]], obs)
    if case[0] != "range":
        return True
    h = case[1]
    return h.startswith("bytes=") and (h.count("-") >= 2 or obs[0][0] != "ok")


def shrink(case):
    if case[0] == "resp":
        for c in shrink(["range", case[2], case[3]]):
            if c[2] <= 5000:
                yield ["resp", case[1], c[1], c[2]]
        return
    if case[0] != "range":
        return
    h, size = case[1], case[2]
    if h.startswith("bytes="):
        items = h[6:].split(",")
        for i in range(len(items)):
            yield ["range", "bytes=" + ",".join(items[:i] + items[i + 1:]), size]
    for s in (size // 2, size - 1):
        if 0 <= s < size:
            yield ["range", h, s]
    for i in range(len(h)):
        yield ["range", h[:i] + h[i + 1:], size]


def extra_obligations(tier):
    """FileResponseMixin.parse_range is translated to Gallina from the source in BAIZE_REPO as it is now (tools/py2coq_c03.py;
    re.findall with the model's pattern is the model's scan_pairs, int() on a run of digits the model's digits_val / too_long),
    and coqc re-checks C03/Translated.v (translated function = C03.Model.parse_range for every header and every size: same
    list, MalformedRangeHeader / RangeNotSatisfiable exactly when the model says Malformed / Unsatisfiable) against the fresh
    definition.  A source shape the translator refuses is not applicable (no alarm).  With it: C03/PyLib.v, Lib/PyStr.v and
    Lib/PyList.v compared with the interpreter by evaluation."""
    import importlib.util
    import os
    spec = importlib.util.spec_from_file_location("py2coq_c03", os.path.join(core.VERIF, "tools", "py2coq_c03.py"))
    tr = importlib.util.module_from_spec(spec)
    spec.loader.exec_module(tr)
    return tr.obligations(core.REPO, core.VERIF)


if __name__ == "__main__":
    import sys
    core.main(sys.modules[__name__])
