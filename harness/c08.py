"""C08 — the router: first match, typed parameters.  Correspondence with C08/Model.v and the
property evaluated on the live Router (WSGI and ASGI), Route.matches and CONVERTOR_TYPES.

A case is one of
  ["rx", type, [text, ...]]          the convertor's live regex on every text        (pattern stream)
  ["conv", type, text]               Route("{x:type}").matches(text), to_string, and back  (round trip)
  ["route", [route text, ...], path?]   path? := [] (PATH_INFO absent) | [text]
The line for the model additionally carries sys.get_int_max_str_digits() and, for route cases,
the Unicode classes of the non-ASCII code points of the route texts (ENCODE).
"""
import itertools
import re
import sys

from . import core

PID = "C08"
MANIFEST = dict(
    text="Theorems accepts_language / match_sound_complete / match_greedy / first_match / router_dispatch / typed_value / "
         "roundtrip / compile_literal / compile_names_distinct about the Gallina model of the six path convertors (pattern "
         "automata, to_python, to_string), the compiled route pattern (literal | placeholder list) with its backtracking "
         "matcher, BaseRouter.search and the WSGI / ASGI Router fallback, for every route table, path, text and int-digit "
         "limit; the model is compared with the live Router on both gateway interfaces (leaf endpoints record which ran and "
         "request.path_params), with Route.matches of every route, with CONVERTOR_TYPES round trips and with each "
         "convertor's compiled regex on all short strings of its alphabet.",
    note="Modelled, not verified: the re engine (each convertor regex is transcribed as an automaton and the group split as "
         "longest-first backtracking, both validated against re.fullmatch and its groups), PARAM_REGEX / re.escape / re.sub "
         "in Route.__init__ as two scanners, Decimal / UUID / date constructors and format(Decimal, 'f'), str(int) and "
         "int() incl. the interpreter's digit limit (a parameter of the model), the Unicode classes \\d \\w and "
         "str.isidentifier (handed to the model per case).",
    technique="Coq proof (automaton/language equivalence, induction over pattern and path, positional-notation lemmas) + "
              "executable model/implementation correspondence on both gateway interfaces",
    ref="5/C08")

RULE = ("cases: (a) every string up to length 4-6 over each convertor's own alphabet and all one-character edits of valid "
        "uuid / date texts against the live regex, (b) round trips of listed and enumerated texts per convertor (all short "
        "decimals, every month x day x year class, digit counts around the int() limit), (c) every route of <=2 "
        "literal/placeholder pairs over 9 literals (with regex metacharacters) and the six types x matching and near-miss "
        "paths, (d) every ordered table of <=3 routes of an overlapping family x 16 paths, (e) random tables of 1-5 routes "
        "with paths assembled from accepted / rejected texts, (f) route texts with stray braces, digits, duplicate and "
        "non-ASCII names, unknown types, and random brace soup.  non-trivial = a route case with a placeholder or >=2 "
        "routes, a conversion of an accepted text, every pattern case")
TRUSTED = ["transcription of the six convertor regexes as automata and of group capture as longest-first backtracking "
           "(C08/Model.v step/acc/mparam), validated against the live compiled patterns on every run",
           "Decimal/UUID/date/int constructors and printers as modelled in C08/Model.v (to_python, to_string)",
           "Unicode classes (\\d, \\w, identifier start/continue) of non-ASCII code points: computed by the interpreter per case",
           "leaf applications and gateway drivers of harness/c08.py"]
ASSUMPTIONS = ["the interpreter's int digit limit is a parameter (sys.get_int_max_str_digits(), 0 = none); a digit string "
               "longer than it is 'no match' for an int placeholder",
               "when the greedy split of a path yields a text that denotes no value (invalid date, over-long int) the route "
               "does not match, even if another split of the same path would (re does not backtrack into to_python)",
               "route tables are configuration: a Route that cannot be constructed raises at construction time "
               "(ValueError / KeyError / re.error), which is outside the property"]
EXHAUSTIVE = {"quick": True, "thorough": True}

TYPES = ["str", "int", "decimal", "uuid", "date", "any"]
U1 = "123e4567-e89b-12d3-a456-426614174000"
U0 = "00000000-0000-0000-0000-000000000000"
UF = "ffffffff-ffff-ffff-ffff-ffffffffffff"

GOOD = {
    "str": ["a", "ab", "1", "a.b", "\u0663", "a\n", "x+", "%20", "\xe9"],
    "int": ["0", "7", "12", "007", "123456789012345678901234567890"],
    "decimal": ["1", "1.5", "100", "0.0000001", "1.50", "00.10", "12.345", "100.0", "12345678901234567890123456789.123456789"],
    "uuid": [U1, U0, UF],
    "date": ["2021-03-04", "2020-02-29", "0001-01-01", "9999-12-31"],
    "any": ["", "a", "a/b", "a\nb", "/", "1.5", "\n"],
}
BAD = {
    "str": ["", "/", "a/b"],
    "int": ["", "\u0663", "1a", "-1", "1\n", "1.5", "\uff11", "1" * 5000],
    "decimal": ["1.", ".5", "1x2", "1e5", "1.5.6", "1..5", "\u0663.1", "1.5\n", "1/5", "1,5"],
    "uuid": [U1.upper(), U1.replace("-", ""), U1[:-1], U1[:3] + "g" + U1[4:], U1 + "\n", "{" + U1 + "}", "urn:uuid:" + U1],
    "date": ["2021-13-45", "0000-01-01", "2021-02-29", "2021-3-04", "20210304", "2021-03-04\n", "2021/03/04", "1900-02-29",
             "2021-04-31", "2021-00-10", "2021-01-00"],
    "any": [],
}
LITERALS = ["/", "/a", "/a.b", "/x+", "/(", "/[a]", "/$", "-", "/a*"]


def int_limit():
    f = getattr(sys, "get_int_max_str_digits", None)
    return f() if f else 0


# ------------------------------------------------------------------ generators


def rx_batches(label, ty, texts, size=150):
    texts = list(texts)
    for i in range(0, len(texts), size):
        yield label, ["rx", ty, texts[i:i + size]]


def all_strings(alphabet, maxlen):
    for n in range(maxlen + 1):
        for t in itertools.product(alphabet, repeat=n):
            yield "".join(t)


def edits(base, alphabet):
    out = [base]
    for i in range(len(base) + 1):
        for a in alphabet:
            out.append(base[:i] + a + base[i:])
            if i < len(base):
                out.append(base[:i] + a + base[i + 1:])
        if i < len(base):
            out.append(base[:i] + base[i + 1:])
    return out


def rx_cases(tier):
    q = tier == "quick"
    yield from rx_batches("rx-str", "str", all_strings("a/\n0", 5 if q else 7))
    yield from rx_batches("rx-int", "int", all_strings("09\u0663a\n\xb2", 4 if q else 6))
    yield from rx_batches("rx-decimal", "decimal", all_strings("05.x\ne", 5 if q else 7))
    yield from rx_batches("rx-any", "any", all_strings("a\n/\r\x85\u2028", 3 if q else 5))
    yield from rx_batches("rx-date", "date", all_strings("01-", 7 if q else 10))
    for base in GOOD["date"]:
        yield from rx_batches("rx-date", "date", edits(base, "09-a\n\u0663/."))
    yield from rx_batches("rx-uuid", "uuid", all_strings("0f-", 5))
    for base in GOOD["uuid"]:
        yield from rx_batches("rx-uuid", "uuid", edits(base, "09afgAF-\n\u0663"))
    for ty in TYPES:
        yield from rx_batches("rx-listed", ty, [t for k in TYPES for t in GOOD[k] + BAD[k] if len(t) < 100])


def conv_cases(tier, rng):
    q = tier == "quick"
    for ty in TYPES:
        for k in TYPES:
            for t in GOOD[k] + BAD[k]:
                yield "conv-listed", ["conv", ty, t]
    for s in all_strings("015.", 5 if q else 6):
        yield "conv-decimal", ["conv", "decimal", s]
    for s in all_strings("019", 4):
        yield "conv-int", ["conv", "int", s]
    for nd in (4299, 4300, 4301, 5000):
        for d in "10":
            yield "conv-int-limit", ["conv", "int", d * nd]
            yield "conv-int-limit", ["conv", "str", d * nd]
            if nd > 4300 and (d == "1" or nd == 4301):
                yield "conv-int-limit", ["conv", "decimal", d * nd]
                yield "conv-int-limit", ["conv", "decimal", "1." + d * nd]
    for y in (0, 1, 4, 100, 400, 1900, 2000, 2020, 2021, 2024, 2100, 9999):
        for m in range(0, 14):
            for d in (0, 1, 28, 29, 30, 31, 32):
                yield "conv-date", ["conv", "date", "%04d-%02d-%02d" % (y, m, d)]
    n = 1500 if q else 30000
    for _ in range(n):
        k = rng.random()
        if k < 0.3:
            ip = "".join(rng.choice("0123456789") for _ in range(rng.randrange(1, 8)))
            fp = "".join(rng.choice("0000123456789") for _ in range(rng.randrange(1, 10)))
            if rng.random() < 0.3:
                ip = "0" * rng.randrange(1, 4) + ip
            if rng.random() < 0.3:
                fp = fp + "0" * rng.randrange(1, 4)
            if rng.random() < 0.2:
                fp = "0" * rng.randrange(1, 9) + fp
            yield "conv-random", ["conv", "decimal", rng.choice([ip + "." + fp, ip, ip + "0" * rng.randrange(0, 5)])]
        elif k < 0.5:
            u = "".join(rng.choice("0123456789abcdef") for _ in range(32))
            u = "-".join([u[:8], u[8:12], u[12:16], u[16:20], u[20:]])
            if rng.random() < 0.15:
                i = rng.randrange(36)
                u = u[:i] + rng.choice("AFg-0\n") + u[i + 1:]
            yield "conv-random", ["conv", "uuid", u]
        elif k < 0.7:
            yield "conv-random", ["conv", "date", "%04d-%02d-%02d" % (rng.randrange(0, 10000), rng.randrange(0, 14),
                                                                      rng.randrange(0, 33))]
        elif k < 0.85:
            yield "conv-random", ["conv", "int", "".join(rng.choice("0123456789") for _ in range(rng.randrange(1, 60)))]
        else:
            ty = rng.choice(["str", "any"])
            yield "conv-random", ["conv", ty, "".join(rng.choice("ab/\n .\xe9\u0663") for _ in range(rng.randrange(0, 6)))]


def ph(name, ty, rng=None):
    if ty == "str" and rng is not None and rng.random() < 0.5:
        return "{%s}" % name
    return "{%s:%s}" % (name, ty)


def mutate_literal(l):
    out = []
    for i, c in enumerate(l):
        if c != "/":
            out.append(l[:i] + "x" + l[i + 1:])
            out.append(l[:i] + l[i + 1:])
            out.append(l[:i] + c + c + l[i + 1:])
    return out


def paths_for(parts, rng, k_good=3, k_bad=3):
    """parts: list of ('lit', text) | ('par', type).  Paths built from accepted / rejected texts."""
    def build(choice):
        return "".join(choice(p) for p in parts)
    out = []
    for _ in range(k_good):
        out.append(build(lambda p: p[1] if p[0] == "lit" else rng.choice(GOOD[p[1]])))
    pars = [i for i, p in enumerate(parts) if p[0] == "par" and BAD[p[1]]]
    lits = [i for i, p in enumerate(parts) if p[0] == "lit" and mutate_literal(p[1])]
    for _ in range(k_bad):
        if pars and (not lits or rng.random() < 0.6):
            j = rng.choice(pars)
            bad = rng.choice([b for b in BAD[parts[j][1]] if len(b) < 100] or [""])
            out.append("".join((p[1] if p[0] == "lit" else (bad if i == j else rng.choice(GOOD[p[1]])))
                               for i, p in enumerate(parts)))
        elif lits:
            j = rng.choice(lits)
            mut = rng.choice(mutate_literal(parts[j][1]))
            out.append("".join(((mut if i == j else p[1]) if p[0] == "lit" else rng.choice(GOOD[p[1]]))
                               for i, p in enumerate(parts)))
    base = out[0]
    out += [base + "\n", base + "/", base[:-1], "/" + base]
    return out


def route_text(parts, names="abcdefgh", rng=None):
    out, k = [], 0
    for p in parts:
        if p[0] == "lit":
            out.append(p[1])
        else:
            out.append(ph(names[k], p[1], rng))
            k += 1
    return "".join(out)


FAMILY = ["/{a:int}", "/{a:decimal}", "/{a}", "/{a:any}", "/{a:date}", "/{a:uuid}", "/x", "/{a}/{b}", "/{a:int}/x", "/1.5"]
FAMILY_PATHS = ["/12", "/1.5", "/x", "/2021-03-04", "/2021-13-45", "/" + U1, "/a/b", "/12/x", "/", "", "/12\n", "/\u0663",
                "/1x5", "/" + U1.upper(), "/0000-01-01", "/x/", "/" + "1" * 5000, "/1e5", "/2020-02-29", "/2021-02-29", "/1.", "/.5", "/100"]

WEIRD_ROUTES = ["/{1abc}", "/{a}/{a}", "/{:int}", "/{{a}", "/{a:foo}", "/{a\xb2}", "/{\xe9}", "/{a:int}{b", "/{\xb7a}",
                "/{a\xb7}", "{}", "{}}", "/{a:}", "/{a:int:str}", "/{a b}", "/{a}}", "/{{a}}", "\\{a}", "/{a:int}/{a:str}",
                "/{_}", "/{a1:int}", "/{\u0663a}", "/{a\u0663}", "/{a\u0670}", "/{\xb2a}", "/{a:Int}", "/{a: int}", "/{A}",
                "/{a:int}}", "/{{a:int}", "/{{a}/{a:int}", "/{a:\u0663}", "/{a:str1}", "{a:any}", "", "{", "}", "{:}",
                "/{a:int}{b:any}", "/{a:decimal}{b:any}", "/{a:any}{b:any}", "/{a:any}/{b:int}", "/{a}{b}", "/{a:int}{b:int}",
                "/{a:date}{b:any}", "/{a:uuid}{b}", "/{a:any}.{b:any}", "/{a:decimal}.{b:decimal}", "/{\u212a}", "/{x\u0301}",
                "/{a\n}", "/{\n}", "/{a}\n", "/{a:int}/{b:int}/{c:int}", "/\xe9/{a}", "/\u0663/{a:int}"]
WEIRD_PATHS = ["", "/", "/1", "/12", "/a", "/1.5", "/1.5.6", "/1.", "/12/34", "/a/b", "/{a}", "/{1abc}", "/{:int}", "/{a b}",
               "/a}", "\\7", "/12}", "/a\n", "/1.5x", "/123", "/12.5.25", "/2021-03-04x", "/2021-13-45x", "/" + U1 + "z",
               "/a.b", "/1/2/3", "/\xe9/q", "/\u0663/5", "/" + "1" * 5000, "/" + "1" * 5000 + "x", "/1\n2", "/{\n}",
               "/{a\n}", "{", "}", "{}", "{}}", "{:}", "/{a\xb7}", "/{\xb7a}", "/{{a}"]


def route_cases(tier, rng):
    q = tier == "quick"
    # (c) every route L1 P1 [L2 P2] x derived paths
    pars = [None] + TYPES
    for l1 in LITERALS:
        for p1 in pars:
            for l2 in ([None] if p1 is None else [None] + LITERALS[:5] + [""]):
                for p2 in ([None] if l2 is None else pars):
                    parts = [("lit", l1)]
                    if p1:
                        parts.append(("par", p1))
                    if l2 is not None:
                        if l2:
                            parts.append(("lit", l2))
                        if p2:
                            parts.append(("par", p2))
                    rt = route_text(parts)
                    for path in paths_for(parts, rng, 2 if q else 4, 2 if q else 5):
                        yield "route-single", ["route", [rt], [path]]
    # (d) overlapping family, every ordered table of <= 3 (quick: <= 2 plus a sample of triples)
    for k in (1, 2, 3):
        for tb in itertools.product(FAMILY, repeat=k):
            if k == 3 and q and rng.random() > 0.15:
                continue
            for path in FAMILY_PATHS:
                if k == 3 and (len(path) > 100 or rng.random() > (0.25 if q else 0.6)):
                    continue
                if k == 2 and len(path) > 100 and q and rng.random() > 0.3:
                    continue
                yield "route-family", ["route", list(tb), [path]]
                if len(tb) >= 2 and rng.random() < 0.25:
                    yield "route-history", ["route", list(tb), [path], [rng.choice(FAMILY_PATHS) for _ in range(rng.randrange(1, 4))]]
    yield "route-nopath", ["route", ["", "/"], []]
    yield "route-nopath", ["route", ["/", "{a:any}"], []]
    yield "route-nopath", ["route", ["/{a}"], []]
    # (e) random tables
    n = 4000 if q else 60000
    for _ in range(n):
        routes, allparts = [], []
        for _ in range(rng.randrange(1, 6)):
            parts = []
            for _ in range(rng.randrange(1, 4)):
                parts.append(("lit", rng.choice(LITERALS + ["/", "/", "/api"])))
                if rng.random() < 0.8:
                    parts.append(("par", rng.choice(TYPES)))
            if routes and rng.random() < 0.2:
                routes.append(rng.choice(routes))
                continue
            routes.append(route_text(parts, rng=rng))
            allparts.append(parts)
        path = rng.choice(paths_for(rng.choice(allparts), rng))
        yield "route-random", ["route", routes, [path]]
    # (f) route texts outside the documented form
    for rt in WEIRD_ROUTES:
        for path in WEIRD_PATHS:
            yield "route-weird", ["route", [rt], [path]]
    for a, b in itertools.product(WEIRD_ROUTES[:20], repeat=2):
        yield "route-weird", ["route", [a, b], ["/1"]]
    n = 3000 if q else 40000
    soup = "{}{}::/a1_\\.\xe9\u0663\xb2" + "int" + "str"
    for _ in range(n):
        rt = "".join(rng.choice(soup) for _ in range(rng.randrange(0, 12)))
        if rng.random() < 0.5:
            rt = "/{" + rt
        path = rng.choice([rt, "/1", "/a", rt.replace("{", "").replace("}", ""), "/" + rt, ""])
        yield "route-soup", ["route", [rt], [path]]


def cases(tier, rng):
    yield from rx_cases(tier)
    yield from conv_cases(tier, rng)
    yield from route_cases(tier, rng)


def search_cases(tier, rng, mism):
    yield from cases("thorough", rng)


# ------------------------------------------------------------------ the line for the model


def char_class(ch):
    c = 0
    if re.fullmatch(r"\d", ch):
        c |= 1
    if re.fullmatch(r"\w", ch):
        c |= 2
    if ch.isidentifier():
        c |= 4
    if ("a" + ch).isidentifier():
        c |= 8
    return c


def ENCODE(case):
    if case[0] == "conv":
        return core.enc_line(["conv", int_limit(), case[1], case[2]])
    if case[0] == "route":
        chars = sorted({ch for r in case[1] for ch in r if ord(ch) >= 128})
        return core.enc_line(["route", int_limit(), [[ord(ch), char_class(ch)] for ch in chars], case[1], case[2]])
    return core.enc_line(case)


# ------------------------------------------------------------------ implementation driver


def canon_value(v):
    import datetime
    import decimal
    import uuid
    if type(v) is str:
        return ["s", v]
    if type(v) is int:
        try:
            return ["i", str(v)]
        except ValueError:
            return ["?", "int-too-long-to-print"]
    if type(v) is decimal.Decimal:
        sign, digits, exp = v.as_tuple()
        if not isinstance(exp, int):
            return ["?", "Decimal-" + str(exp)]
        c = "".join(map(str, digits)).lstrip("0") or "0"
        if 0 < exp <= 10000:                    # 1E+1 and 10 are the same number
            c, exp = (c + "0" * exp if c != "0" else "0"), 0
        while exp < 0 and c.endswith("0"):      # trailing zeros into the exponent; zero ends as ("0", 0)
            c = c[:-1] or "0"
            exp += 1
        return ["d-" if sign else "d", c, exp]
    if type(v) is uuid.UUID:
        return ["u", v.hex]
    if type(v) is datetime.date:
        return ["t", v.year, v.month, v.day]
    return ["?", type(v).__name__]


def canon_params(ps):
    if not isinstance(ps, dict):
        return ["?", type(ps).__name__]
    return [[k, canon_value(ps[k])] for k in sorted(ps)]


def canon_match(route, text):
    try:
        ok, ps = route.matches(text)
    except Exception as e:  # noqa
        return ["exc", type(e).__name__]
    if not ok:
        return [0]
    return [1, canon_params(ps)]


def impl_rx(case):
    from baize.routing import CONVERTOR_TYPES
    pat = re.compile(CONVERTOR_TYPES[case[1]].regex)
    return [[1 if pat.fullmatch(t) else 0 for t in case[2]]]


def impl_conv(case):
    from baize.routing import CONVERTOR_TYPES, Route
    _, ty, text = case
    conv = CONVERTOR_TYPES[ty]
    route = Route("{x:%s}" % ty, None)
    m = canon_match(route, text)
    if m[0] != 1:
        return [m]
    v = route.matches(text)[1]["x"]
    try:
        t2 = conv.to_string(v)
    except Exception as e:  # noqa
        return [m, ["exc", type(e).__name__]]
    if not isinstance(t2, str):
        return [m, ["exc", "not-str"]]
    m2 = canon_match(route, t2)
    eq = 0
    if m2[0] == 1:
        eq = 1 if route.matches(t2)[1]["x"] == v else 0
    return [m, [t2], m2, eq]


def call_wsgi(app, environ):
    st = []

    def start_response(status, headers, exc_info=None):
        st.append(status)

    try:
        body = b"".join(app(environ, start_response))
    except Exception as e:  # noqa
        return ("exc", type(e).__name__)
    if len(st) != 1:
        return ("weird", "start_response called %d times" % len(st))
    return (int(st[0].split(" ")[0]), body)


def call_asgi(app, scope):
    sent = []

    async def receive():
        return {"type": "http.request", "body": b"", "more_body": False}

    async def send(message):
        sent.append(message)

    coro = app(scope, receive, send)
    try:
        coro.send(None)
    except StopIteration:
        pass
    except Exception as e:  # noqa
        return ("exc", type(e).__name__)
    else:
        coro.close()
        return ("weird", "coroutine suspended")
    starts = [m for m in sent if m.get("type") == "http.response.start"]
    if len(starts) != 1:
        return ("weird", "%d response starts" % len(starts))
    body = b"".join(m.get("body", b"") for m in sent if m.get("type") == "http.response.body")
    return (int(starts[0]["status"]), body)


def wsgi_leaf(i, seen):
    def app(environ, start_response):
        from baize.wsgi import Request
        pp = Request(environ).path_params
        seen.append((i, pp, environ, canon_params(pp)))
        start_response("200 OK", [("Content-Type", "text/plain")])
        return [b"leaf %d" % i]
    return app


def asgi_leaf(i, seen):
    async def app(scope, receive, send):
        from baize.asgi import Request
        pp = Request(scope, receive, send).path_params
        seen.append((i, pp, scope, canon_params(pp)))
        await send({"type": "http.response.start", "status": 200, "headers": [(b"content-type", b"text/plain")]})
        await send({"type": "http.response.body", "body": b"leaf %d" % i})
    return app


def observe(res, seen):
    if res[0] in ("exc", "weird"):
        return [res[0], res[1]]
    status, body = res
    if len(seen) == 1 and status == 200 and body == b"leaf %d" % seen[0][0]:
        return ["ran", seen[0][0], canon_params(seen[0][1])]
    if not seen and status == 404:
        return ["404"]
    return ["weird", "status %s, %d leaf calls" % (status, len(seen))]


def impl_route(case):
    from baize.asgi.routing import Router as ARouter
    from baize.wsgi.routing import Router as WRouter
    _, routes, pa = case[:3]
    prelude = case[3] if len(case) > 3 else []      # paths the same Router objects serve first (results discarded)
    seen_w, seen_a = [], []
    errs = []
    apps = []
    for cls, leaf, seen in ((WRouter, wsgi_leaf, seen_w), (ARouter, asgi_leaf, seen_a)):
        try:
            apps.append(cls(*[(r, leaf(i, seen)) for i, r in enumerate(routes)]))
            errs.append(None)
        except Exception as e:  # noqa
            apps.append(None)
            errs.append(type(e).__name__)
    if errs[0] is not None or errs[1] is not None:
        if errs[0] is not None and errs[1] is not None:
            return [["cfg"]]          # which exception class is raised is not compared
        return [["weird", "only one of the two Router classes can be constructed: %s / %s" % (errs[0], errs[1])]]
    environ = {"REQUEST_METHOD": "GET", "QUERY_STRING": "", "SERVER_NAME": "testserver", "SERVER_PORT": "80",
               "SERVER_PROTOCOL": "HTTP/1.1", "SCRIPT_NAME": "", "wsgi.version": (1, 0), "wsgi.url_scheme": "http"}
    if pa:
        environ["PATH_INFO"] = pa[0]
    path = pa[0] if pa else ""
    scope = {"type": "http", "asgi": {"version": "3.0"}, "http_version": "1.1", "method": "GET", "scheme": "http",
             "path": path, "root_path": "", "query_string": b"", "server": ("testserver", 80),
             "headers": [(b"host", b"testserver")]}
    for pp in prelude:          # dispatch must not depend on what the router was asked before
        call_wsgi(apps[0], dict(environ, PATH_INFO=pp))
        call_asgi(apps[1], dict(scope, path=pp))
    # an endpoint may look at its path parameters late (an ASGI endpoint that awaits first, a WSGI body produced lazily):
    # what the earlier requests were handed is kept and read again after the last request
    earlier = [[(i, snap, rq) for i, _, rq, snap in seen] for seen in (seen_w, seen_a)]
    del seen_w[:]
    del seen_a[:]
    out = [observe(call_wsgi(apps[0], environ), seen_w), observe(call_asgi(apps[1], scope), seen_a)]
    for k, recs in enumerate(earlier):
        for i, snap, rq in recs:
            if k == 0:
                from baize.wsgi import Request as WReq
                now = canon_params(WReq(rq).path_params)
            else:
                from baize.asgi import Request as AReq
                now = canon_params(AReq(rq).path_params)
            if now != snap and out[k][0] != "weird":
                out[k] = ["weird", "the path parameters of an earlier request of the same Router (endpoint %d) read %s when it was "
                                   "dispatched and %s after a later request" % (i, rs(snap), rs(now))]
    out.append([canon_match(r, path) for r in apps[0]._route_array])
    return out


def impl(case):
    if case[0] == "rx":
        return impl_rx(case)
    if case[0] == "conv":
        return impl_conv(case)
    if case[0] == "route":
        return impl_route(case)
    return ["badcase"]


# ------------------------------------------------------------------ the property, on the observations
# Reference definitions written from the property text; nothing below imports baize or the model.

def rs(x):
    try:
        return repr(x)[:300]
    except ValueError:
        return "<a number too long to print>"


DIGITS = "0123456789"
LHEX = "0123456789abcdef"


def ref_lang(ty, s):
    if ty == "str":
        return len(s) >= 1 and "/" not in s
    if ty == "int":
        return len(s) >= 1 and all(c in DIGITS for c in s)
    if ty == "decimal":
        parts = s.split(".")
        return len(parts) in (1, 2) and all(ref_lang("int", p) for p in parts)
    if ty == "uuid":
        return len(s) == 36 and all((c == "-") if i in (8, 13, 18, 23) else (c in LHEX) for i, c in enumerate(s))
    if ty == "date":
        return len(s) == 10 and all((c == "-") if i in (4, 7) else (c in DIGITS) for i, c in enumerate(s))
    if ty == "any":
        return True
    raise KeyError(ty)


def digits_value(s, base=10):
    v = 0
    for c in s:
        v = v * base + LHEX.index(c)
    return v


def ref_denote(ty, s):
    """canonical value a text of the language denotes, or None (no value)"""
    if ty in ("str", "any"):
        return ["s", s]
    if ty == "int":
        lim = int_limit()
        if lim and len(s) > lim:
            return None
        return ["i", s.lstrip("0") or "0"]
    if ty == "decimal":
        ip, _, fp = s.partition(".")
        fp = fp.rstrip("0")
        return ["d", (ip + fp).lstrip("0") or "0", -len(fp)]
    if ty == "uuid":
        return ["u", s.replace("-", "")]
    if ty == "date":
        y, m, d = digits_value(s[0:4]), digits_value(s[5:7]), digits_value(s[8:10])
        leap = (y % 4 == 0 and y % 100 != 0) or y % 400 == 0
        dim = [31, 29 if leap else 28, 31, 30, 31, 30, 31, 31, 30, 31, 30, 31]
        if not (1 <= y <= 9999 and 1 <= m <= 12 and 1 <= d <= dim[m - 1]):
            return None
        return ["t", y, m, d]
    raise KeyError(ty)


_SANE = re.compile(r"\{([A-Za-z_][A-Za-z0-9_]*)(?::([a-z]+))?\}")


def sane_parse(route):
    """[('lit', text) | ('par', name, type)] for a route in the documented form, else None"""
    parts, idx, names = [], 0, set()
    for m in _SANE.finditer(route):
        lit = route[idx:m.start()]
        if lit:
            parts.append(("lit", lit))
        ty = m.group(2) or "str"
        if ty not in TYPES or m.group(1) in names:
            return None
        names.add(m.group(1))
        parts.append(("par", m.group(1), ty))
        idx = m.end()
    if route[idx:]:
        parts.append(("lit", route[idx:]))
    for p in parts:
        if p[0] == "lit" and ("{" in p[1] or "}" in p[1]):
            return None
    return parts


def prefix_lens(ty, s, pos):
    """lengths k (descending) with s[pos:pos+k] in the language of ty"""
    n = len(s)

    def run(chars, start):
        e = start
        while e < n and s[e] in chars:
            e += 1
        return e - start
    if ty == "any":
        return list(range(n - pos, -1, -1))
    if ty == "str":
        e = s.find("/", pos)
        e = n if e < 0 else e
        return list(range(e - pos, 0, -1))
    if ty == "int":
        return list(range(run(DIGITS, pos), 0, -1))
    if ty == "decimal":
        d1 = run(DIGITS, pos)
        out = []
        if d1 and pos + d1 < n and s[pos + d1] == ".":
            d2 = run(DIGITS, pos + d1 + 1)
            out += [d1 + 1 + k for k in range(d2, 0, -1)]
        return out + list(range(d1, 0, -1))
    k = 36 if ty == "uuid" else 10
    return [k] if ref_lang(ty, s[pos:pos + k]) else []


class Splits:
    def __init__(self, parts, path):
        self.parts, self.path, self.memo = parts, path, {}

    def finish(self, i, pos):
        key = (i, pos)
        if key in self.memo:
            return self.memo[key]
        if i == len(self.parts):
            r = pos == len(self.path)
        else:
            p = self.parts[i]
            if p[0] == "lit":
                r = self.path.startswith(p[1], pos) and self.finish(i + 1, pos + len(p[1]))
            else:
                r = any(self.finish(i + 1, pos + k) for k in prefix_lens(p[2], self.path, pos))
        self.memo[key] = r
        return r

    def greedy(self):
        """the split that prefers longer texts for earlier placeholders: {name: (type, text)} or None"""
        if not self.finish(0, 0):
            return None
        out, pos = {}, 0
        for i, p in enumerate(self.parts):
            if p[0] == "lit":
                pos += len(p[1])
            else:
                k = next(k for k in prefix_lens(p[2], self.path, pos) if self.finish(i + 1, pos + k))
                out[p[1]] = (p[2], self.path[pos:pos + k])
                pos += k
        return out

    def with_values(self, want, i=0, pos=0):
        """is there a split whose texts denote the observed values?"""
        if i == len(self.parts):
            return pos == len(self.path)
        p = self.parts[i]
        if p[0] == "lit":
            return self.path.startswith(p[1], pos) and self.with_values(want, i + 1, pos + len(p[1]))
        for k in prefix_lens(p[2], self.path, pos):
            if self.finish(i + 1, pos + k) and ref_denote(p[2], self.path[pos:pos + k]) == want.get(p[1]):
                if self.with_values(want, i + 1, pos + k):
                    return True
        return False


def route_kind(parts):
    tys = sorted({p[2] for p in parts if p[0] == "par"})
    return "+".join(tys) if tys else "literal"


def check_match(parts, route, path, m):
    """one Route.matches observation against the property"""
    kind = route_kind(parts)
    what = "route %r path %r" % (route[:80], path[:80])
    if m[0] == "exc":
        return ("raises:" + m[1], "%s: matching raised %s instead of answering match / no match" % (what, m[1]))
    sp = Splits(parts, path)
    if m[0] == 1:
        got = {k: v for k, v in m[1]}
        names = {p[1] for p in parts if p[0] == "par"}
        if set(got) != names:
            return ("wrong-parameter-names:" + kind, "%s: parameters %r, placeholders %r" % (what, sorted(got), sorted(names)))
        if not sp.finish(0, 0):
            return ("accepted-outside-language:" + kind, "%s: matched although the path is not in the pattern's language; "
                    "parameters %s" % (what, rs(m[1])))
        if not sp.with_values(got):
            return ("wrong-value:" + kind, "%s: no split of the path into texts of the placeholder types denotes %s"
                    % (what, rs(m[1])))
        return None
    if m[0] == 0:
        g = sp.greedy()
        if g is not None and all(ref_denote(ty, t) is not None for ty, t in g.values()):
            return ("missed-match:" + kind, "%s: no match although the path is in the language with texts %r"
                    % (what, {k: v[1][:40] for k, v in g.items()}))
        return None
    return ("bad-observation", "%s: %s" % (what, rs(m)))


def oracle_route(case, obs):
    _, routes, pa = case[:3]
    path = pa[0] if pa else ""
    parsed = [sane_parse(r) for r in routes]
    if any(p is None for p in parsed):
        return None
    if obs and obs[0] and obs[0][0] == "cfg":
        return ("construct-error", "routes %r in the documented form cannot be constructed"
                % ([r[:60] for r in routes],))
    if obs and obs[0] and obs[0][0] == "weird" and len(obs) == 1:
        return ("weird", str(obs[0][1]))
    if len(obs) != 3:
        return ("bad-observation", repr(obs)[:200])
    wsgi, asgi, direct = obs
    for name, o in (("wsgi", wsgi), ("asgi", asgi)):
        if o[0] == "exc":
            return ("raises:" + o[1], "%s Router(%r) on path %r raised %s" % (name, [r[:60] for r in routes], path[:80], o[1]))
        if o[0] == "weird":
            return ("weird", "%s: %s" % (name, o[1]))
    for i, m in enumerate(direct):
        v = check_match(parsed[i], routes[i], path, m)
        if v is not None:
            return v
    first = next((i for i, m in enumerate(direct) if m[0] == 1), None)
    exp = ["404"] if first is None else ["ran", first, direct[first][1]]
    for name, o in (("wsgi", wsgi), ("asgi", asgi)):
        if o != exp:
            return ("dispatch-not-first-match", "%s Router(%r) path %r answered %s; first matching route gives %s"
                    % (name, [r[:60] for r in routes], path[:80], rs(o), rs(exp)))
    return None


def oracle_conv(case, obs):
    _, ty, text = case
    m = obs[0]
    what = "%s convertor, text %r" % (ty, text[:80])
    if m[0] == "exc":
        return ("raises:" + m[1], "%s: matching raised %s" % (what, m[1]))
    inl = ref_lang(ty, text)
    den = ref_denote(ty, text) if inl else None
    if m[0] == 1:
        if not inl:
            return ("accepted-outside-language:" + ty, "%s: accepted, value %s" % (what, rs(m[1])))
        if den is None or m[1] != [["x", den]]:
            return ("wrong-value:" + ty, "%s: value %s, denoted %s" % (what, rs(m[1]), rs(den)))
    else:
        if inl and den is not None:
            return ("missed-match:" + ty, "%s: rejected although it denotes %s" % (what, rs(den)))
        return None
    if len(obs) < 2 or obs[1][0] == "exc":
        return ("roundtrip-raises:" + ty, "%s: to_string(%s) raised" % (what, rs(den)))
    t2 = obs[1][0]
    if not ref_lang(ty, t2) or obs[2][0] != 1:
        return ("roundtrip:" + ty, "%s: to_string gives %r, which the convertor does not accept" % (what, t2[:80]))
    if obs[2][1] != [["x", den]] or ref_denote(ty, t2) != den or obs[3] != 1:
        return ("roundtrip:" + ty, "%s: to_string gives %r, which converts to %s, not to %s" % (what, t2[:80], rs(obs[2][1]), rs(den)))
    return None


def oracle_rx(case, obs):
    _, ty, texts = case
    for t, b in zip(texts, obs[0]):
        if bool(b) != ref_lang(ty, t):
            return ("regex-language:" + ty, "%s pattern %s %r" % (ty, "accepts" if b else "rejects", t[:80]))
    return None


def oracle(case, obs):
    if obs and obs[0] == "driver-exception":
        return ("driver-exception:" + str(obs[1]), "case %s: %s" % (rs(case)[:200], rs(obs[2:])))
    if case[0] == "rx":
        return oracle_rx(case, obs)
    if case[0] == "conv":
        return oracle_conv(case, obs)
    if case[0] == "route":
        return oracle_route(case, obs)
    return None


def nontrivial(case, obs):
    if obs and obs[0] == "driver-exception":
        return False
    if case[0] == "rx":
        return True
    if case[0] == "conv":
        return obs[0][0] == 1
    return len(case[1]) >= 2 or any("{" in r for r in case[1])


def shrink(case):
    if case[0] == "rx":
        for t in case[2]:
            yield ["rx", case[1], [t]]
        if len(case[2]) == 1:
            t = case[2][0]
            for i in range(len(t)):
                yield ["rx", case[1], [t[:i] + t[i + 1:]]]
    elif case[0] == "conv":
        t = case[2]
        if len(t) > 40:
            yield ["conv", case[1], t[:len(t) // 2]]
        for i in range(min(len(t), 60)):
            yield ["conv", case[1], t[:i] + t[i + 1:]]
    elif case[0] == "route":
        _, routes, pa = case[:3]
        for i in range(len(routes)):
            if len(routes) > 1:
                yield ["route", routes[:i] + routes[i + 1:], pa] + case[3:]
        if pa:
            p = pa[0]
            if len(p) > 40:
                yield ["route", routes, [p[:len(p) // 2]]] + case[3:]
            for i in range(min(len(p), 60)):
                yield ["route", routes, [p[:i] + p[i + 1:]]] + case[3:]


def extra_obligations(tier):
    """BaseRouter.search, Route.matches and compile_path of baize/routing.py and Router.__call__ of baize/wsgi/routing.py and
    baize/asgi/routing.py are translated to Gallina from the source in BAIZE_REPO as it is now (tools/py2coq_c08.py), and coqc
    re-checks C08/Translated.v against the fresh definitions: the translated loop is the first-match scan for EVERY
    route.matches (search_translated_any) and, with the model's route_match for route.matches, the model's search
    (search_translated); the translated Route.matches, with the model's match_segs / placeholder types / to_python for
    fullmatch / path_convertors[..] / to_python, is the model's route_match (matches_translated); the translated compile_path,
    with the matches the model's try_param finds for PARAM_REGEX.finditer and the model's ty_of_name for CONVERTOR_TYPES, is the
    model's scan1 (compile_path_translated); the two __call__ bodies, with the model's search for self.search, are the model's
    wsgi_router / asgi_router (and KeyError / RuntimeError where the model does not speak).  C08/PyLib.v (dict, dict
    comprehension, try/except, lstrip, slices) and the finditer instance are compared with the interpreter by evaluation.
    A source the translator refuses is not applicable (None)."""
    import importlib.util
    import os
    spec = importlib.util.spec_from_file_location("py2coq_c08", os.path.join(core.VERIF, "tools", "py2coq_c08.py"))
    tr = importlib.util.module_from_spec(spec)
    spec.loader.exec_module(tr)
    return tr.obligations(core.REPO, core.VERIF)


if __name__ == "__main__":
    core.main(sys.modules[__name__])
