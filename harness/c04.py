"""C04 — the WSGI and ASGI stacks are observationally equivalent (C04/Model.v, Resp/Model.v)."""
import io
import json
import os

from email.utils import formatdate

from . import core, util, resp, c02, c05

PID = "C04"
MANIFEST = dict(
    text="Theorems request_view_equiv (headers mapping, client, body of the WSGI view of the CGI rendering = those of the ASGI view "
         "of the scope rendering of one abstract request, for distinct header names), response_equiv (every response recipe yields "
         "the same status, the same header list and the same body bytes on both interfaces; the event-stream response differs only "
         "by the Connection header) about the Gallina models of both request classes and all response classes. The models are "
         "compared with both live stacks; compositions that have no separate model here (derived accessors, JSON/forms/uploads, "
         "router, mounts, hosts, Files/Pages incl. 304, view shortcuts, decorators) are run differentially on both stacks.",
    note="Modelled, not verified: the gateway's rendering of the abstract request (CGI naming, lower-cased scope names); header names "
         "are distinct ASCII tokens without '_' (how a gateway joins repeated request headers is not baize's behaviour); the "
         "differential cases are decided by direct comparison of the two implementations, the theorem for them being the models of "
         "C07/C08/C09, which cover both interfaces.",
    technique="Coq proof (equality of two models on the rendered request; per-recipe equality of two renderings) + executable model/implementation correspondence + differential runs",
    ref="5/C04")
RULE = ("cases: abstract requests (methods, 0-4 headers with mixed case incl. content-type/length, cookies, accept, queries, clients, "
        "bodies split into 0-3 chunks incl. empty ones) rendered as environ and as scope+messages; every response recipe of C05's "
        "generator; differential programs (derived accessors, json/form/multipart incl. malformed, close() after a failed form, "
        "Router/Subpaths/Hosts tables, Files/Pages on a directory tree incl. conditional and range requests, request_response and "
        "decorator shortcuts); non-trivial = every case (each compares two implementations)")
TRUSTED = ["the harness's rendering of an abstract request into an environ (CGI naming) and into a scope + messages"]
ASSUMPTIONS = ["request header names are distinct ASCII tokens without underscore", "the peer address, when present, has a non-empty host"]
EXHAUSTIVE = {"quick": False, "thorough": False}

HEADER_POOL = [["Host", "example.org"], ["content-type", "application/json; charset=utf-8"], ["Content-Length", "12"],
               ["X-Custom-Header", "v1"], ["accept", "text/html, application/json;q=0.9, */*;q=0.1"],
               ["Cookie", "a=1; b=\"x\\\"y\"; c"], ["USER-AGENT", "t/1 (é)"], ["Date", "Tue, 14 Nov 2023 22:13:20 GMT"],
               ["Referer", "http://example.com/x?y=1"], ["X-Empty", ""], ["Transfer-Encoding", "chunked"], ["x-a", "1, 2"]]


def req_cases(tier, rng):
    n = 400 if tier == "quick" else 6000
    for _ in range(n):
        hs = rng.sample(HEADER_POOL, rng.randrange(0, 5))
        hs = [[rng.choice([k, k.lower(), k.upper()]), v] for k, v in hs]
        body = [bytes(rng.randrange(256) for _ in range(rng.randrange(0, 6))) for _ in range(rng.randrange(0, 4))]
        client = rng.choice([[], ["10.0.0.%d" % rng.randrange(256), rng.randrange(0, 65536)], ["::1", 80]])
        yield "request-view", ["req", rng.choice(["GET", "POST", "PUT", "DELETE", "HEAD"]),
                               rng.choice([b"", b"a=1&b=2&a=3", b"x=%E4%B8%AD&y=+z", b"\xff=1", b"&&=&k"]), hs, client, body]


# ---------------------------------------------------------------- rendering an abstract request

def cgi_key(name):
    k = name.upper().replace("-", "_")
    return k if k in ("CONTENT_TYPE", "CONTENT_LENGTH") else "HTTP_" + k


def render(method, query, headers, client, body_chunks, path="/", root=""):
    body = b"".join(body_chunks)
    env = util.wsgi_environ(method, path=path, script_name=root, query=query.decode("latin-1"), body=body)
    env.pop("REMOTE_ADDR", None)
    env.pop("REMOTE_PORT", None)
    if client:
        env["REMOTE_ADDR"], env["REMOTE_PORT"] = client[0], str(client[1])
    for k, v in headers:
        env[cgi_key(k)] = v
    scope = util.http_scope(method, path=path, root_path=root, query=query,
                            headers=[(k.lower().encode("latin-1"), v.encode("latin-1")) for k, v in headers],
                            client=tuple(client) if client else None)
    chunks = list(body_chunks)
    msgs = [{"type": "http.request", "body": c, "more_body": i < len(chunks) - 1} for i, c in enumerate(chunks)] or \
        [{"type": "http.request", "body": b"", "more_body": False}]
    return env, scope, msgs


def mk_receive(msgs):
    msgs = list(msgs)

    async def receive():
        if msgs:
            return msgs.pop(0)
        return {"type": "http.disconnect"}
    return receive


# ---------------------------------------------------------------- differential programs

def exc_tag(e):
    from baize.exceptions import HTTPException
    if isinstance(e, HTTPException):
        return ["http", e.status_code, sorted((e.headers or {}).items()), e.content]
    return ["exc", type(e).__name__]


def canon(v):
    """JSON / form values -> comparable plain data"""
    from baize.datastructures import UploadFile
    if isinstance(v, UploadFile):
        v.seek(0)
        return ["file", v.filename, v.content_type, sorted(v.headers.items()), v.read()]
    if isinstance(v, dict):
        return ["dict", sorted((k, canon(x)) for k, x in v.items())]
    if isinstance(v, (list, tuple)):
        return [canon(x) for x in v]
    if isinstance(v, float):
        return ["float", repr(v)]
    return v


def derived_wsgi(env):
    from baize.wsgi.requests import Request
    r = Request(env)
    out = {}
    for name, f in ACCESSORS.items():
        try:
            out[name] = f(r)
        except Exception as e:  # noqa
            out[name] = exc_tag(e)
    try:
        r.close()
        out["close"] = "ok"
    except Exception as e:  # noqa
        out["close"] = exc_tag(e)
    return out


def derived_asgi(scope, msgs):
    from baize.asgi.requests import Request
    r = Request(scope, mk_receive(msgs))

    async def main():
        out = {}
        for name, f in ACCESSORS.items():
            try:
                v = f(r)
                while hasattr(v, "__await__"):
                    v = await v
                out[name] = v
            except Exception as e:  # noqa
                out[name] = exc_tag(e)
        try:
            await r.close()
            out["close"] = "ok"
        except Exception as e:  # noqa
            out["close"] = exc_tag(e)
        return out
    return util.run(main())


async def _await_canon_form(r):
    f = await r.form
    return [[k, canon(v)] for k, v in f.multi_items()]


def _form(r):
    f = r.form
    if hasattr(f, "__await__"):
        return _await_canon_form(r)
    return [[k, canon(v)] for k, v in f.multi_items()]


async def _await_json(r):
    return canon(await r.json)


def _json(r):
    j = r.json
    if hasattr(j, "__await__"):
        return _await_json(r)
    return canon(j)


ACCESSORS = {
    "method": lambda r: r.method,
    "headers": lambda r: sorted(r.headers.items()),
    "query": lambda r: r.query_params.multi_items(),
    "cookies": lambda r: sorted(r.cookies.items()),
    "content_type": lambda r: [str(r.content_type.type), sorted(r.content_type.options.items())],
    "content_length": lambda r: r.content_length,
    "accepted": lambda r: [str(t) for t in r.accepted_types],
    "accepts": lambda r: [r.accepts(t) for t in ("text/html", "application/json", "image/png")],
    "client": lambda r: [r.client.host, r.client.port],
    "date": lambda r: str(r.date),
    "referrer": lambda r: str(r.referrer),
    "url": lambda r: str(r.url),
    "json": _json,
    "form": _form,
}

MULTIPART = (b"--BOUND\r\nContent-Disposition: form-data; name=\"f\"\r\n\r\nv1\r\n"
             b"--BOUND\r\nContent-Disposition: form-data; name=\"up\"; filename=\"a.txt\"\r\nContent-Type: text/plain\r\n\r\n\x00\xffdata\r\n"
             b"--BOUND--\r\n")


def derived_cases(tier, rng):
    bodies = [
        ([["Content-Type", "application/json"]], [b'{"a": [1, 2.5, null, "\xc3\xa9"]}']),
        ([["Content-Type", "application/json; charset=latin-1"]], [b'"\xe9"']),
        ([["Content-Type", "application/json"]], [b'{"a": ', b'1}']),
        ([["Content-Type", "application/json"]], [b"{bad"]),
        # encodings json.loads would sniff from bytes: the accessor decodes with the declared (default utf-8) charset first
        ([["Content-Type", "application/json"]], [b'\xef\xbb\xbf{"a": 1}']),
        ([["Content-Type", "application/json"]], ['{"a": "\u00e9"}'.encode("utf-16")]),
        ([["Content-Type", "application/json"]], ['[1, 2]'.encode("utf-32-le")]),
        ([["Content-Type", "application/json; charset=utf-16"]], ['{"a": "\u00e9"}'.encode("utf-16")]),
        ([["Content-Type", "application/json; charset=nonsense"]], [b'{}']),
        ([["Content-Type", "application/json"]], [b'"\xff"']),
        ([["Content-Type", "application/json"]], [b'']),
        ([["Content-Type", "application/x-www-form-urlencoded; charset=latin-1"]], [b"a=%E9&b=\xe9"]),
        ([["Content-Type", "application/x-www-form-urlencoded"]], [b"a=\xff"]),
        ([["Content-Type", "text/plain"]], [b"x"]),
        ([["Content-Type", "application/x-www-form-urlencoded"]], [b"a=1&b=%C3%A9&a=2", b"&c="]),
        ([["Content-Type", "application/x-www-form-urlencoded; charset=utf-8"]], [b"a=%C3%A9"]),
        ([["Content-Type", "multipart/form-data; boundary=BOUND"]], [MULTIPART]),
        ([["Content-Type", "multipart/form-data; boundary=BOUND"]], [MULTIPART[:20], MULTIPART[20:61], MULTIPART[61:]]),
        ([["Content-Type", "multipart/form-data"]], [MULTIPART]),
        ([["Content-Type", "multipart/form-data; boundary=BOUND"]], [b"--BOUND\r\nContent-Disposition: form-data\r\n\r\nx\r\n--BOUND--\r\n"]),
        ([["Content-Type", "multipart/form-data; boundary=BOUND"], ["Content-Length", "5"], ["Cookie", "k=v; k2=\"q\\073\""]], [MULTIPART]),
        ([], []),
        ([["Accept", "text/*;q=0.5, */*"], ["Date", "garbage"], ["Referer", "/rel?x"], ["Host", "h.example:8080"]], [b""]),
    ]
    for hs, chunks in bodies:
        for q in (b"", b"a=1&a=2&b=%20"):
            yield "derived", ["diff", "derived", "POST", q, hs, ["127.0.0.1", 1234], chunks]


def tree():
    root = os.path.join(util.tmpdir(), "c04site")
    if not os.path.isdir(root):
        os.makedirs(os.path.join(root, "sub"))
        for name, data in (("index.html", b"<h1>i</h1>"), ("a.txt", b"0123456789" * 3), ("page.html", b"<p>p</p>"), ("sub/index.html", b"sub"),
                           ("bin.dat", bytes(range(40))),
                           ("big.dat", bytes(i * 7 % 251 for i in range(300000)) + b"tail" * 75000)):
            with open(os.path.join(root, name), "wb") as f:
                f.write(data)
            os.utime(os.path.join(root, name), (c02.MTIME, c02.MTIME))
    return root


def program_cases(tier, rng):
    routes = [["/", "home"], ["/u/{id:int}", "user"], ["/u/{name}", "uname"], ["/f/{p:any}", "any"], ["/d/{d:date}/{x:decimal}", "dd"],
              ["/k/{u:uuid}", "uuid"]]
    for path in ("/", "/u/12", "/u/bob", "/u/", "/f/a/b", "/d/2021-03-07/1.50", "/d/2021-3-7/1", "/k/90478484-0988-45fc-91fe-757d90136892", "/nope", "", "/u/12/"):
        yield "router", ["diff", "router", routes, path]
    tables = [[["/api", "A"], ["/apix", "B"], ["", "D"]], [["", "D"], ["/api", "A"]], [["/a/b", "AB"], ["/a", "A"]]]
    for t in tables:
        for path in ("/api", "/api/", "/api/x", "/apix", "/apixy", "/a/b/c", "/a/bc", "/", "", "/other"):
            for rootp in ("", "/root"):
                yield "subpaths", ["diff", "subpaths", t, rootp, path]
    for host in (None, "example.com", "api.example.com", "x.example.com:80", "EXAMPLE.com", "evil.com"):
        yield "hosts", ["diff", "hosts", [["example\\.com", "root"], [".*\\.example\\.com(:\\d+)?", "sub"]], host]
    etag, lm = None, None
    for kind in ("files", "pages"):
        for path in ("/a.txt", "/", "/index.html", "/page", "/page.html", "/sub", "/sub/", "/missing", "/../c04site/a.txt", "/bin.dat", "/sub/index.html"):
            for hs in ([], [["Range", "bytes=0-4"]], [["Range", "bytes=0-1,5-6"]], [["If-None-Match", "*"]], [["If-Modified-Since", "Tue, 14 Nov 2030 22:13:20 GMT"]],
                       [["If-None-Match", "\"nomatch\""]], [["Range", "bytes=99-"]], [["Range", "bytes=2-1"]],
                       # the files' modification time is set into the past (os.utime), their change time is "now":
                       # dates between the two tell a comparison with st_mtime from one with st_ctime
                       [["If-Modified-Since", formatdate(c02.MTIME + 10, usegmt=True)]],
                       [["If-Modified-Since", formatdate(c02.MTIME, usegmt=True)]],
                       [["If-Modified-Since", formatdate(c02.MTIME - 10, usegmt=True)]]):
                for method in ("GET", "HEAD"):
                    yield kind, ["diff", kind, path, hs, method]
    # a file larger than the default chunk size (256 KiB): ranges longer than a chunk, aligned and not, ending before EOF
    for hs in ([], [["Range", "bytes=0-262144"]], [["Range", "bytes=0-262143"]], [["Range", "bytes=5-300000"]], [["Range", "bytes=10-280000,290000-590000"]],
               [["Range", "bytes=262144-"]], [["Range", "bytes=-270000"]]):
        yield "files", ["diff", "files", "/big.dat", hs, "GET"]
    for r in c05.recipes(tier, rng):
        if r[0] in ("stream", "sse") and any(isinstance(i, str) and i == "RAISE" for i in r[1]):
            continue  # the producer's exception propagates on both stacks (C05/C06); no response to compare
        yield "view-" + r[0], ["diff", "view", r]
        yield "resp-" + r[0], ["resp", r]


def cases(tier, rng):
    yield from req_cases(tier, rng)
    yield from derived_cases(tier, rng)
    yield from program_cases(tier, rng)


def search_cases(tier, rng, mism):
    yield from cases("thorough", rng)


def enc_case(case):
    if case[0] == "resp":
        return ["resp", resp.encode(case[1])]
    if case[0] == "diff":
        return ["diff", repr(case[1:])]     # the model ignores the program: its answer is "same"
    return case


def ENCODE(case):
    return core.enc_line(enc_case(case))


# ---------------------------------------------------------------- running

def response_of_wsgi(app, env):
    starts, items, exc = util.call_wsgi(app, env)
    if exc is not None:
        return ["exc", type(exc).__name__, str(exc)[:80]]
    if len(starts) != 1:
        return ["starts", len(starts)]
    status, headers = starts[0]
    return [int(status.split(" ")[0]), sorted([k.lower(), v] for k, v in headers), b"".join(x for _, x in items)]


def response_of_asgi(app, scope, msgs=None):
    sent, exc = util.call_asgi(app, scope, msgs)
    if exc is not None:
        return ["exc", type(exc).__name__, str(exc)[:80]]
    if not sent or sent[0]["type"] != "http.response.start":
        return ["nostart"]
    body = b"".join(m.get("body", b"") for m in sent[1:])
    return [int(sent[0]["status"]), sorted([k.decode("latin-1").lower(), v.decode("latin-1")] for k, v in sent[0].get("headers", [])), body]


def build_program(case, iface):
    kind = case[1]
    if iface == "wsgi":
        import baize.wsgi as B
    else:
        import baize.asgi as B
    if kind == "router":
        def ep(name):
            if iface == "wsgi":
                def view(request):
                    return B.PlainTextResponse("%s:%r" % (name, sorted((k, str(v), type(v).__name__) for k, v in request.path_params.items())))
            else:
                async def view(request):
                    return B.PlainTextResponse("%s:%r" % (name, sorted((k, str(v), type(v).__name__) for k, v in request.path_params.items())))
            return B.request_response(view)
        return B.Router(*[(p, ep(n)) for p, n in case[2]])
    if kind in ("subpaths", "hosts"):
        def leaf(name):
            if iface == "wsgi":
                def view(request):
                    return B.PlainTextResponse("%s|%s|%s" % (name, request.get("SCRIPT_NAME", ""), request.get("PATH_INFO", "")))
            else:
                async def view(request):
                    return B.PlainTextResponse("%s|%s|%s" % (name, request.get("root_path", ""), request.get("path", "")))
            return B.request_response(view)
        cls = B.Subpaths if kind == "subpaths" else B.Hosts
        return cls(*[(p, leaf(n)) for p, n in case[2]])
    if kind in ("files", "pages"):
        import baize.wsgi.responses as W
        import baize.asgi.responses as A
        W.random_choices = A.random_choices = lambda pop, k: list(c02.BOUNDARY[:k])
        cls = B.Files if kind == "files" else B.Pages
        return cls(tree(), cacheability="public", max_age=600)
    if kind == "view":
        recipe = case[2]
        if iface == "wsgi":
            def view(request):
                return resp.build(recipe, "wsgi")
        else:
            async def view(request):
                return resp.build(recipe, "asgi")

        @B.decorator
        def deco_w(request, next_call):
            return next_call(request)

        @B.decorator
        async def deco_a(request, next_call):
            return await next_call(request)
        return B.request_response((deco_w if iface == "wsgi" else deco_a)(view))
    raise ValueError(kind)


def request_of(case):
    """(method, path, root, headers) for a differential program"""
    kind = case[1]
    if kind == "router":
        return "GET", case[3], "", []
    if kind == "subpaths":
        return "GET", case[4], case[3], []
    if kind == "hosts":
        return "GET", "/", "", ([["Host", case[3]]] if case[3] is not None else [])
    if kind in ("files", "pages"):
        return case[4], case[2], "", case[3]
    if kind == "view":
        r = case[2]
        return resp.method_of(r), "/", "", [[k, v] for k, v in resp.req_headers(r)]
    raise ValueError(kind)


def strip_sanctioned(case, a):
    """the one sanctioned difference: the Connection header of the ASGI event stream"""
    if case[1] == "view" and case[2][0] == "sse" and isinstance(a[0], int):
        a = [a[0], [h for h in a[1] if h[0] != "connection"], a[2]]
    return a


def impl(case):
    if case[0] == "req":
        _, method, query, headers, client, chunks = case
        env, scope, msgs = render(method, query, headers, client, chunks)
        from baize.wsgi.requests import Request as WR
        from baize.asgi.requests import Request as AR
        w = WR(env)
        wv = [w.method, sorted([k, v] for k, v in w.headers.items()), [w.client.host, w.client.port] if w.client.host is not None else [],
              b"".join(w.stream(chunk_size=3))]
        a = AR(scope, mk_receive(msgs))

        async def abody():
            return await a.body
        av = [a.method, sorted([k, v] for k, v in a.headers.items()), [a.client.host, a.client.port] if a.client.host is not None else [],
              util.run(abody())]
        return [wv, av]
    if case[0] == "resp":
        r = case[1]
        env = util.wsgi_environ(resp.method_of(r), headers=resp.req_headers(r))
        scope = util.http_scope(resp.method_of(r), headers=[(k.encode(), v.encode("latin-1")) for k, v in resp.req_headers(r)])
        return [response_of_wsgi(resp.build(r, "wsgi"), env), response_of_asgi(resp.build(r, "asgi"), scope)]
    # differential
    if case[1] == "derived":
        _, _, method, query, headers, client, chunks = case
        env, scope, msgs = render(method, query, headers, client, chunks)
        w, a = derived_wsgi(env), derived_asgi(scope, msgs)
        bad = sorted(k for k in w if w[k] != a.get(k))
        return ["same"] if not bad else ["differ", bad[0], repr(w[bad[0]])[:200], repr(a.get(bad[0]))[:200]]
    method, path, root, headers = request_of(case)
    env, scope, msgs = render(method, b"", headers, ["127.0.0.1", 9], [], path=path, root=root)
    w = response_of_wsgi(build_program(case, "wsgi"), env)
    a = strip_sanctioned(case, response_of_asgi(build_program(case, "asgi"), scope, msgs))
    if w == a:
        return ["same"]
    what = "status" if w[0] != a[0] else ("headers" if w[1:2] != a[1:2] else "body")
    return ["differ", what, repr(w)[:300], repr(a)[:300]]


def oracle(case, obs):
    if obs and obs[0] == "driver-exception":
        return ("driver-exception-" + str(obs[1]), str(obs))
    if case[0] == "req":
        if obs[0] != obs[1]:
            i = [x != y for x, y in zip(obs[0], obs[1])].index(True)
            return ("request-view-differs-" + ("method", "headers", "client", "body")[i], "wsgi %r / asgi %r" % (obs[0][i], obs[1][i]))
        return None
    if case[0] == "resp":
        w, a = obs
        if case[1][0] == "sse" and isinstance(a[0], int):
            a = [a[0], [h for h in a[1] if h[0] != "connection"], a[2]]
        if w != a:
            what = "status" if w[0] != a[0] else ("headers" if w[1:2] != a[1:2] else "body")
            return ("response-differs-%s-%s" % (case[1][0], what), "wsgi %r / asgi %r" % (w, a))
        return None
    if obs[0] != "same":
        return ("differ-%s-%s" % (case[1], obs[1]), "%s program: %s differs: wsgi %s / asgi %s (case %r)" % (case[1], obs[1], obs[2], obs[3], case[2:5]))
    return None


def nontrivial(case, obs):
    return True


def shrink(case):
    return []


if __name__ == "__main__":
    import sys
    core.main(sys.modules[__name__])
