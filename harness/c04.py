"""C04 — the WSGI and ASGI stacks are observationally equivalent (C04/Model.v, C04/Apps.v, Resp/Model.v)."""
import io
import json
import os

from email.utils import formatdate

import re

from . import core, util, resp, c02, c05, c08, c14

PID = "C04"
MANIFEST = dict(
    text="Theorems request_view_equiv (headers mapping, client, body of the WSGI view of the CGI rendering = those of the ASGI view "
         "of the scope rendering of one abstract request, for distinct header names; host_view_equiv: HTTP_HOST of the environ = the "
         "value the ASGI Hosts' header loop ends with), response_equiv (every response recipe yields the same status, the same "
         "header list and the same body bytes on both interfaces; the event-stream response differs only by the Connection header), "
         "static_equiv (for EVERY file system, configuration, path and header value the complete answer of baize.wsgi.Files / Pages "
         "equals that of baize.asgi.Files / Pages: same status, same header list in the same order, same body bytes, or the same "
         "HTTPException 404 / 400; nothing else happens), static_serves_file (on either interface a 200 / 206 body is exactly the "
         "content, resp. the requested slices, of the regular file C07's lexical resolution names inside the directory; 304 has "
         "Cache-Control, Vary, Content-Length: 0 and no body and is given exactly when C14's decision says so; a rejected Range "
         "carries no file byte; everything else is HTTPException(404) or the slash redirect of Pages / HTTPException(400)), "
         "static_redirect_location (for a request of C18's grammar the redirect is 307 with Location = iri_to_uri('//' + authority "
         "+ root path + path + '/' + ['?' + query]), never 400) "
         "and app_equiv / app_equiv_below (by induction on an application tree of any depth: views that answer with response recipes, "
         "Router, Subpaths, Hosts over any fullmatch oracle, Files / Pages on any file system; for every abstract request the run "
         "built from the WSGI model functions of C08/C09/C07/C14/C02/C18/C04 and the run built from the ASGI ones both answer with a "
         "response of the same status, body and header list, modulo the event stream's Connection header — or, only where Files / "
         "Pages take part, both raise the same HTTPException; the 404 fallbacks included) about the Gallina models of both request "
         "classes, all response classes, the three dispatchers and the two static-file applications. The models are compared with "
         "both live stacks, trees and static files included; compositions that have no model here (derived accessors, JSON/forms/"
         "uploads, decorators) are run differentially on both stacks.",
    note="Modelled, not verified: the gateway's rendering of the abstract request (CGI naming, lower-cased scope names, the same text "
         "for the root path and the path on both interfaces: ASCII — a WSGI gateway presents a non-ASCII path as different text, "
         "C07's known finding wsgi-non-ascii-not-found); header names are distinct ASCII tokens without '_' (how a gateway "
         "joins repeated request headers is not baize's behaviour; URL(scope=) reads the first Host header, the environ holds the "
         "last); app_equiv assumes of every view that it answers with recipes response_equiv speaks about (no raising producer, no "
         "developer headers on an event stream, file chunk size >= 1) and of every Files / Pages that its directory is what "
         "normalize_dir_path returns (absolute, normalised, not '/'), handle_404 = None, the scheme one of http/https/ws/wss. "
         "Static files: the file system is a function of the path text, constant during a request, st_size = length of the content; "
         "inputs as in C02/C14: float st_mtime, SHA-1, int(float), formatdate, parsedate_to_datetime, guess_type, the quoted "
         "download name, the random boundary; urlsplit / urlunsplit as transcribed in C18/Model.v, strict UTF-8 decoding and "
         "iri_to_uri's quote as transcribed in C04/Static.v (validated by the redirect cases); zero-copy send is C02's.",
    technique="Coq proof (equality of two models on the rendered request; per-recipe equality of two renderings; induction on the "
              "application tree over the dispatch theorems of C08/C09; static leaves composed from the models of C07/C14/C02/C18 "
              "and proved from their theorems) + executable model/implementation correspondence + differential runs",
    ref="5/C04")
RULE = ("cases: abstract requests (methods, 0-4 headers with mixed case incl. content-type/length, cookies, accept, queries, clients, "
        "bodies split into 0-3 chunks incl. empty ones) rendered as environ and as scope+messages; every response recipe of C05's "
        "generator; application trees against the model on both interfaces (the router / mount / host tables of the differential "
        "programs with views that write method, root path, path, typed path parameters and header mapping into the body; a 4-level "
        "nesting of Hosts, Subpaths and Router in both orders x 12 paths x 2 root paths x 3 hosts; every recipe below Hosts > "
        "Subpaths > Router; random trees of depth 1-3 and width 1-3 over pools of route texts, prefixes and host patterns with paths "
        "and Host values aimed down the tree and perturbed); static leaves against the model on both interfaces, header order "
        "included: the real Files / Pages as root application and below Router / Subpaths / Hosts / nested dispatchers on generated "
        "directory trees with fixed nanosecond mtime / ctime (39 paths: files, directories with and without slash and index page, "
        "x.html fallback, a directory called d.html, fifo, '..', empty and relative paths; If-None-Match plain / weak / list / '*' / "
        "malformed, If-Modified-Since before / at / after mtime and ctime and garbage, both headers in both orders; Range single / "
        "several / unsatisfiable / malformed, If-Range ETag / weak / date / stale; GET / HEAD / POST; the Pages redirect over 9 "
        "query strings incl. non-ASCII and invalid UTF-8, 12 Host forms incl. IPv6 and unclosed bracket, schemes, server addresses, "
        "root paths with a space; four cacheability / max_age settings; files of 0 bytes, one chunk, one chunk + 1, two chunks); "
        "differential programs (derived accessors, json/form/multipart incl. "
        "malformed, close() after a failed form, Router/Subpaths/Hosts tables, Files/Pages on a directory tree incl. conditional "
        "and range requests, request_response and decorator shortcuts); non-trivial = every case (each compares two implementations)")
TRUSTED = ["the harness's rendering of an abstract request into an environ (CGI naming) and into a scope + messages",
           "Python's re.fullmatch as the oracle the Hosts model is parameterised by (answers computed by the harness)",
           "the Unicode classes of non-ASCII characters in route texts, as the interpreter reports them (C08)",
           "static leaves: the description of the generated directory tree handed to the model (os.stat kinds, contents, the fixed "
           "timestamps of c14's virtual os.stat) and the standard-library values computed by the harness for it (SHA-1 of "
           "'<float mtime>-<size>', int(float), formatdate, parsedate_to_datetime, guess_type, quote of the download name)"]
ASSUMPTIONS = ["request header names are distinct ASCII tokens without underscore", "the peer address, when present, has a non-empty host",
               "application trees: every Route / Subpaths / Hosts of the tree can be constructed; root path and path are ASCII (a view "
               "writes them into a body, Files / Pages look them up), the same text on both interfaces",
               "static leaves: the directory is a normalised absolute path other than '/'; handle_404 is None; the scheme is http, "
               "https, ws or wss; cacheability without CR / LF / NUL; no symbolic links; the tree does not change during a request"]
EXHAUSTIVE = {"quick": False, "thorough": False}

HEADER_POOL = [["Host", "example.org"], ["content-type", "application/json; charset=utf-8"], ["Content-Length", "12"],
               ["X-Custom-Header", "v1"], ["accept", "text/html, application/json;q=0.9, */*;q=0.1"],
               ["Cookie", "a=1; b=\"x\\\"y\"; c"], ["USER-AGENT", "t/1 (é)"], ["Date", "Tue, 14 Nov 2023 22:13:20 GMT"],
               ["Referer", "http://example.com/x?y=1"], ["X-Empty", ""], ["Transfer-Encoding", "chunked"], ["x-a", "1, 2"]]


def req_cases(tier, rng):
    n = 400 if tier == "quick" else 6000
    for _ in range(n):
        hs = rng.sample(HEADER_POOL, rng.randrange(0, 5))
        hs = [[rng.choice([k, k.lower(), k.upper()]), v] for k, v in hs]
        body = [bytes(rng.randrange(256) for _ in range(rng.randrange(0, 6))) for _ in range(rng.randrange(0, 4))]
        client = rng.choice([[], ["10.0.0.%d" % rng.randrange(256), rng.randrange(0, 65536)], ["::1", 80]])
        yield "request-view", ["req", rng.choice(["GET", "POST", "PUT", "DELETE", "HEAD"]),
                               rng.choice([b"", b"a=1&b=2&a=3", b"x=%E4%B8%AD&y=+z", b"\xff=1", b"&&=&k"]), hs, client, body]


# ---------------------------------------------------------------- rendering an abstract request

def cgi_key(name):
    k = name.upper().replace("-", "_")
    return k if k in ("CONTENT_TYPE", "CONTENT_LENGTH") else "HTTP_" + k


def render(method, query, headers, client, body_chunks, path="/", root="", scheme="http", server=("testserver", 80)):
    body = b"".join(body_chunks)
    env = util.wsgi_environ(method, path=path, script_name=root, query=query.decode("latin-1"), body=body, scheme=scheme,
                            server=(server[0], str(server[1])))
    env.pop("REMOTE_ADDR", None)
    env.pop("REMOTE_PORT", None)
    if client:
        env["REMOTE_ADDR"], env["REMOTE_PORT"] = client[0], str(client[1])
    for k, v in headers:
        env[cgi_key(k)] = v
    scope = util.http_scope(method, path=path, root_path=root, query=query,
                            headers=[(k.lower().encode("latin-1"), v.encode("latin-1")) for k, v in headers],
                            client=tuple(client) if client else None, scheme=scheme, server=(server[0], server[1]))
    chunks = list(body_chunks)
    msgs = [{"type": "http.request", "body": c, "more_body": i < len(chunks) - 1} for i, c in enumerate(chunks)] or \
        [{"type": "http.request", "body": b"", "more_body": False}]
    return env, scope, msgs


def mk_receive(msgs):
    msgs = list(msgs)

    async def receive():
        if msgs:
            return msgs.pop(0)
        return {"type": "http.disconnect"}
    return receive


# ---------------------------------------------------------------- differential programs

def exc_tag(e):
    from baize.exceptions import HTTPException
    if isinstance(e, HTTPException):
        return ["http", e.status_code, sorted((e.headers or {}).items()), e.content]
    return ["exc", type(e).__name__]


def canon(v):
    """JSON / form values -> comparable plain data"""
    from baize.datastructures import UploadFile
    if isinstance(v, UploadFile):
        v.seek(0)
        return ["file", v.filename, v.content_type, sorted(v.headers.items()), v.read()]
    if isinstance(v, dict):
        return ["dict", sorted((k, canon(x)) for k, x in v.items())]
    if isinstance(v, (list, tuple)):
        return [canon(x) for x in v]
    if isinstance(v, float):
        return ["float", repr(v)]
    return v


def derived_wsgi(env):
    from baize.wsgi.requests import Request
    r = Request(env)
    out = {}
    for name, f in ACCESSORS.items():
        try:
            out[name] = f(r)
        except Exception as e:  # noqa
            out[name] = exc_tag(e)
    try:
        r.close()
        out["close"] = "ok"
    except Exception as e:  # noqa
        out["close"] = exc_tag(e)
    return out


def derived_asgi(scope, msgs):
    from baize.asgi.requests import Request
    r = Request(scope, mk_receive(msgs))

    async def main():
        out = {}
        for name, f in ACCESSORS.items():
            try:
                v = f(r)
                while hasattr(v, "__await__"):
                    v = await v
                out[name] = v
            except Exception as e:  # noqa
                out[name] = exc_tag(e)
        try:
            await r.close()
            out["close"] = "ok"
        except Exception as e:  # noqa
            out["close"] = exc_tag(e)
        return out
    return util.run(main())


async def _await_canon_form(r):
    f = await r.form
    return [[k, canon(v)] for k, v in f.multi_items()]


def _form(r):
    f = r.form
    if hasattr(f, "__await__"):
        return _await_canon_form(r)
    return [[k, canon(v)] for k, v in f.multi_items()]


async def _await_json(r):
    return canon(await r.json)


def _json(r):
    j = r.json
    if hasattr(j, "__await__"):
        return _await_json(r)
    return canon(j)


ACCESSORS = {
    "method": lambda r: r.method,
    "headers": lambda r: sorted(r.headers.items()),
    "query": lambda r: r.query_params.multi_items(),
    "cookies": lambda r: sorted(r.cookies.items()),
    "content_type": lambda r: [str(r.content_type.type), sorted(r.content_type.options.items())],
    "content_length": lambda r: r.content_length,
    "accepted": lambda r: [str(t) for t in r.accepted_types],
    "accepts": lambda r: [r.accepts(t) for t in ("text/html", "application/json", "image/png")],
    "client": lambda r: [r.client.host, r.client.port],
    "date": lambda r: str(r.date),
    "referrer": lambda r: str(r.referrer),
    "url": lambda r: str(r.url),
    "json": _json,
    "form": _form,
}

MULTIPART = (b"--BOUND\r\nContent-Disposition: form-data; name=\"f\"\r\n\r\nv1\r\n"
             b"--BOUND\r\nContent-Disposition: form-data; name=\"up\"; filename=\"a.txt\"\r\nContent-Type: text/plain\r\n\r\n\x00\xffdata\r\n"
             b"--BOUND--\r\n")


def derived_cases(tier, rng):
    bodies = [
        ([["Content-Type", "application/json"]], [b'{"a": [1, 2.5, null, "\xc3\xa9"]}']),
        ([["Content-Type", "application/json; charset=latin-1"]], [b'"\xe9"']),
        ([["Content-Type", "application/json"]], [b'{"a": ', b'1}']),
        ([["Content-Type", "application/json"]], [b"{bad"]),
        # encodings json.loads would sniff from bytes: the accessor decodes with the declared (default utf-8) charset first
        ([["Content-Type", "application/json"]], [b'\xef\xbb\xbf{"a": 1}']),
        ([["Content-Type", "application/json"]], ['{"a": "\u00e9"}'.encode("utf-16")]),
        ([["Content-Type", "application/json"]], ['[1, 2]'.encode("utf-32-le")]),
        ([["Content-Type", "application/json; charset=utf-16"]], ['{"a": "\u00e9"}'.encode("utf-16")]),
        ([["Content-Type", "application/json; charset=nonsense"]], [b'{}']),
        ([["Content-Type", "application/json"]], [b'"\xff"']),
        ([["Content-Type", "application/json"]], [b'']),
        # what json.loads refuses with something else than a decode error (seed C04-13): an integer literal beyond the
        # interpreter's digit limit (a plain ValueError), nesting deeper than the interpreter follows (RecursionError)
        ([["Content-Type", "application/json"]], [b"1" * 4301]),
        ([["Content-Type", "application/json"]], [b'{"n": ', b"9" * 6000, b"}"]),
        ([["Content-Type", "application/json"]], [b"-" + b"7" * 4300]),
        ([["Content-Type", "application/json"]], [b"[" * 200000]),
        ([["Content-Type", "application/json"]], [b'{"a":' * 100000]),
        ([["Content-Type", "application/json"]], [b"[" * 50 + b"]" * 50]),
        ([["Content-Type", "application/x-www-form-urlencoded; charset=latin-1"]], [b"a=%E9&b=\xe9"]),
        ([["Content-Type", "application/x-www-form-urlencoded"]], [b"a=\xff"]),
        ([["Content-Type", "text/plain"]], [b"x"]),
        ([["Content-Type", "application/x-www-form-urlencoded"]], [b"a=1&b=%C3%A9&a=2", b"&c="]),
        ([["Content-Type", "application/x-www-form-urlencoded; charset=utf-8"]], [b"a=%C3%A9"]),
        ([["Content-Type", "multipart/form-data; boundary=BOUND"]], [MULTIPART]),
        ([["Content-Type", "multipart/form-data; boundary=BOUND"]], [MULTIPART[:20], MULTIPART[20:61], MULTIPART[61:]]),
        ([["Content-Type", "multipart/form-data"]], [MULTIPART]),
        ([["Content-Type", "multipart/form-data; boundary=BOUND"]], [b"--BOUND\r\nContent-Disposition: form-data\r\n\r\nx\r\n--BOUND--\r\n"]),
        ([["Content-Type", "multipart/form-data; boundary=BOUND"], ["Content-Length", "5"], ["Cookie", "k=v; k2=\"q\\073\""]], [MULTIPART]),
        ([], []),
        ([["Accept", "text/*;q=0.5, */*"], ["Date", "garbage"], ["Referer", "/rel?x"], ["Host", "h.example:8080"]], [b""]),
    ]
    for hs, chunks in bodies:
        for q in (b"", b"a=1&a=2&b=%20"):
            yield "derived", ["diff", "derived", "POST", q, hs, ["127.0.0.1", 1234], chunks]
    # a multipart form with multi-byte text in field values, names and file names, delivered in two pieces cut at every
    # position (the cut falls inside characters, inside the delimiter, between CR and LF), and bytewise: wsgi.input is read
    # by the sync helper, the http.request messages by the async one
    mb = ("--BOUND\r\nContent-Disposition: form-data; name=\"city\"\r\n\r\nZ\u00fcrich \u6771\u4eac\r\n"
          "--BOUND\r\nContent-Disposition: form-data; name=\"n\u00e9\"; filename=\"r\u00e9sum\u00e9.txt\"\r\n"
          "Content-Type: text/plain\r\n\r\n\u00e9\r\n--BOUND\r\n"
          "Content-Disposition: form-data; name=\"e\"\r\n\r\n\U0001f600\r\n--BOUND--\r\n").encode("utf-8")
    hs = [["Content-Type", "multipart/form-data; boundary=BOUND"]]
    step = 1 if tier != "quick" else 3
    for i in range(1, len(mb), step):
        yield "derived-multipart-cut", ["diff", "derived", "POST", b"", hs, ["127.0.0.1", 1234], [mb[:i], mb[i:]]]
    for i in (0, 1, 2):
        yield "derived-multipart-cut", ["diff", "derived", "POST", b"", hs, ["127.0.0.1", 1234],
                                        [mb[j:j + 1 + i] for j in range(0, len(mb), 1 + i)]]


def tree():
    root = os.path.join(util.tmpdir(), "c04site")
    if not os.path.isdir(root):
        os.makedirs(os.path.join(root, "sub"))
        for name, data in (("index.html", b"<h1>i</h1>"), ("a.txt", b"0123456789" * 3), ("page.html", b"<p>p</p>"), ("sub/index.html", b"sub"),
                           ("bin.dat", bytes(range(40))),
                           ("big.dat", bytes(i * 7 % 251 for i in range(300000)) + b"tail" * 75000)):
            with open(os.path.join(root, name), "wb") as f:
                f.write(data)
            os.utime(os.path.join(root, name), (c02.MTIME, c02.MTIME))
    return root


def program_cases(tier, rng):
    routes = [["/", "home"], ["/u/{id:int}", "user"], ["/u/{name}", "uname"], ["/f/{p:any}", "any"], ["/d/{d:date}/{x:decimal}", "dd"],
              ["/k/{u:uuid}", "uuid"]]
    for path in ("/", "/u/12", "/u/bob", "/u/", "/f/a/b", "/d/2021-03-07/1.50", "/d/2021-3-7/1", "/k/90478484-0988-45fc-91fe-757d90136892", "/nope", "", "/u/12/"):
        yield "router", ["diff", "router", routes, path]
    tables = [[["/api", "A"], ["/apix", "B"], ["", "D"]], [["", "D"], ["/api", "A"]], [["/a/b", "AB"], ["/a", "A"]]]
    for t in tables:
        for path in ("/api", "/api/", "/api/x", "/apix", "/apixy", "/a/b/c", "/a/bc", "/", "", "/other"):
            for rootp in ("", "/root"):
                yield "subpaths", ["diff", "subpaths", t, rootp, path]
    for order in ("mounts-first", "pages-first"):
        for path in ("/", "/about", "/blog/first", "/blog/first/draft", "/static", "/static/", "/static/logo.png", "/static/css/site.css",
                     "/static/favicon.ico", "/static/js/app.js", "/staticfiles", "/api", "/api/v1", "/api/v1/users/7", "/api/v1/users/x",
                     "/api/v1/teams", "/api/v2/users/7", "/api/status", "", "/static/css", "/api/v1/"):
            yield "fallback", ["diff", "fallback", order, path]
    for host in (None, "example.com", "api.example.com", "x.example.com:80", "EXAMPLE.com", "evil.com"):
        yield "hosts", ["diff", "hosts", [["example\\.com", "root"], [".*\\.example\\.com(:\\d+)?", "sub"]], host]
    etag, lm = None, None
    for kind in ("files", "pages"):
        for path in ("/a.txt", "/", "/index.html", "/page", "/page.html", "/sub", "/sub/", "/missing", "/../c04site/a.txt", "/bin.dat", "/sub/index.html"):
            for hs in ([], [["Range", "bytes=0-4"]], [["Range", "bytes=0-1,5-6"]], [["If-None-Match", "*"]], [["If-Modified-Since", "Tue, 14 Nov 2030 22:13:20 GMT"]],
                       [["If-None-Match", "\"nomatch\""]], [["Range", "bytes=99-"]], [["Range", "bytes=2-1"]],
                       # the files' modification time is set into the past (os.utime), their change time is "now":
                       # dates between the two tell a comparison with st_mtime from one with st_ctime
                       [["If-Modified-Since", formatdate(c02.MTIME + 10, usegmt=True)]],
                       [["If-Modified-Since", formatdate(c02.MTIME, usegmt=True)]],
                       [["If-Modified-Since", formatdate(c02.MTIME - 10, usegmt=True)]]):
                for method in ("GET", "HEAD"):
                    yield kind, ["diff", kind, path, hs, method]
    # a file larger than the default chunk size (256 KiB): ranges longer than a chunk, aligned and not, ending before EOF
    for hs in ([], [["Range", "bytes=0-262144"]], [["Range", "bytes=0-262143"]], [["Range", "bytes=5-300000"]], [["Range", "bytes=10-280000,290000-590000"]],
               [["Range", "bytes=262144-"]], [["Range", "bytes=-270000"]]):
        yield "files", ["diff", "files", "/big.dat", hs, "GET"]
    for r in c05.recipes(tier, rng):
        if r[0] in ("stream", "sse") and any(isinstance(i, str) and i == "RAISE" for i in r[1]):
            continue  # the producer's exception propagates on both stacks (C05/C06); no response to compare
        yield "view-" + r[0], ["diff", "view", r]
        yield "resp-" + r[0], ["resp", r]


# ---------------------------------------------------------------- application trees (model: C04/Apps.v)
# ["app", tree, method, root, path, headers]
#   tree := ["leaf", ["echo", name, status]] | ["leaf", ["fixed", recipe]]
#         | ["route", [[route text, tree], ...]] | ["mount", [[prefix, tree], ...]] | ["hosts", [[pattern, tree], ...]]

ROUTE_POOL = [("/", ["/"]), ("/u/{id:int}", ["/u/12", "/u/007"]), ("/u/{name}", ["/u/bob", "/u/12x"]), ("/f/{p:any}", ["/f/a/b", "/f/"]),
              ("/d/{d:date}/{x:decimal}", ["/d/2021-03-07/1.50", "/d/2024-02-29/10", "/d/2021-02-30/1"]),
              ("/k/{u:uuid}", ["/k/90478484-0988-45fc-91fe-757d90136892"]), ("{rest:any}", ["", "/zz", "/api/u/5"]),
              ("/api/{rest:any}", ["/api/", "/api/u/3", "/api/x/y"]), ("/api{rest:any}", ["/api", "/apix", "/api/u/12"]),
              ("/x/{a}/{b:int}", ["/x/q/1"]), ("/n/{v:decimal}", ["/n/0.50", "/n/3.000", "/n/12"])]
PREFIX_POOL = ["", "/api", "/apix", "/api/api", "/a", "/a/b", "/u", "/f", "/x"]
HOST_POOL = [(r"example\.com", ["example.com"]), (r".*\.example\.com(:\d+)?", ["api.example.com", "x.example.com:80"]), (r"(?i)x", ["X", "x"]),
             (r"", [""]), (r".*", ["anything", ""]), (r"a|ab", ["a", "ab"]), (r"example.com", ["exampleXcom"])]
HOST_VALUES = [None, "", "example.com", "api.example.com", "x.example.com:80", "EXAMPLE.com", "evil.com", "X", "ab", "example.com.evil.org"]
APP_HEADER_POOL = [["content-type", "application/json; charset=utf-8"], ["Content-Length", "12"], ["X-Custom-Header", "v1"],
                   ["accept", "text/html, */*;q=0.1"], ["Cookie", "a=1; b=2"], ["Referer", "http://example.com/x?y=1"], ["X-Empty", ""],
                   ["X-Host", "not.the.host"], ["Hosts", "nor-this"]]
PATH_TAILS = ["", "/", "x", "/x", "/u/12", "/api", "/api/u/7", "//"]


def echo(name, status=200):
    return ["leaf", ["echo", name, status]]


def leaves_of(tree):
    if tree[0] == "leaf":
        yield tree[1]
    elif tree[0] == "static":
        yield ["static"] + list(tree[1])
    else:
        for _, sub in tree[1]:
            yield from leaves_of(sub)


def app_case(tree, path, root="", host=None, headers=(), method="GET"):
    hs = [list(h) for h in headers]
    if host is not None:
        hs.append(["Host", host])
    for leaf in leaves_of(tree):
        if leaf[0] == "fixed" and leaf[1][0] == "file":      # a FileResponse reads the method and the range headers
            method = resp.method_of(leaf[1])
            hs += [[k, v] for k, v in resp.req_headers(leaf[1])]
            break
    return ["app", tree, method, root, path, hs]


def random_leaf(rng, names, recipes_pool, allow_file):
    k = rng.random()
    if k < 0.7:
        return echo("L%d" % next(names), rng.choice([200, 200, 201, 404]))
    r = rng.choice(recipes_pool)
    if r[0] == "file" and not allow_file[0]:
        return echo("L%d" % next(names))
    if r[0] == "file":
        allow_file[0] = False
    return ["leaf", ["fixed", r]]


def random_tree(rng, depth, names, recipes_pool, allow_file):
    if depth == 0 or rng.random() < 0.2:
        return random_leaf(rng, names, recipes_pool, allow_file)
    kind = rng.choice(["route", "mount", "mount", "hosts"])
    n = rng.randrange(1, 4)
    if kind == "route":
        keys = [t for t, _ in rng.sample(ROUTE_POOL, n)]
    elif kind == "mount":
        keys = rng.sample(PREFIX_POOL, n)
    else:
        keys = [t for t, _ in rng.sample(HOST_POOL, n)]
    return [kind, [[k, random_tree(rng, depth - 1, names, recipes_pool, allow_file)] for k in keys]]


def random_target(rng, tree):
    """a path and a Host value chosen to travel down the tree"""
    path, host = "", None
    while tree[0] != "leaf":
        if not tree[1]:
            break
        key, sub = rng.choice(tree[1])
        if tree[0] == "mount":
            path += key
        elif tree[0] == "route":
            samples = dict(ROUTE_POOL).get(key, [""])
            return path + rng.choice(samples), host       # a Router leaves the path as it is
        else:
            host = rng.choice(dict(HOST_POOL).get(key, [""]))
        tree = sub
    return path, host


def app_cases(tier, rng):
    import itertools
    # the tables of the differential programs, now against the model
    routes = [["/", echo("home")], ["/u/{id:int}", echo("user")], ["/u/{name}", echo("uname")], ["/f/{p:any}", echo("any")],
              ["/d/{d:date}/{x:decimal}", echo("dd")], ["/k/{u:uuid}", echo("uuid")]]
    for path in ("/", "/u/12", "/u/bob", "/u/", "/f/a/b", "/d/2021-03-07/1.50", "/d/2021-3-7/1", "/k/90478484-0988-45fc-91fe-757d90136892",
                 "/nope", "", "/u/12/", "/d/2021-02-30/1.0", "/u/00012", "/d/2020-02-29/007.2500"):
        yield "app-router", app_case(["route", routes], path)
    tables = [[["/api", "A"], ["/apix", "B"], ["", "D"]], [["", "D"], ["/api", "A"]], [["/a/b", "AB"], ["/a", "A"]], [["/api", "A"]]]
    for t in tables:
        tree = ["mount", [[p, echo(n)] for p, n in t]]
        for path in ("/api", "/api/", "/api/x", "/apix", "/apixy", "/a/b/c", "/a/bc", "/", "", "/other", "api"):
            for rootp in ("", "/root"):
                yield "app-subpaths", app_case(tree, path, rootp)
    htree = ["hosts", [["example\\.com", echo("root")], [".*\\.example\\.com(:\\d+)?", echo("sub")]]]
    for host in HOST_VALUES:
        yield "app-hosts", app_case(htree, "/", host=host)
        for name in ("host", "HOST", "hOsT"):
            if host is not None:
                yield "app-hosts", ["app", htree, "GET", "", "/p", [["X-Host", "example.com"], [name, host], ["Hosts", "example.com"]]]
    # nesting: mounts below mounts, a router below a mount, a mount below a router and below a host switch
    inner = ["route", [["/u/{id:int}", echo("user")], ["/", echo("home")], ["{rest:any}", ["mount", [["/api", echo("deep")]]]]]]
    nested = ["hosts", [["example\\.com", ["mount", [["/api", ["mount", [["/api", echo("aa")], ["", inner]]]], ["", echo("dflt", 201)]]]],
                        [".*", ["route", [["/api/{rest:any}", ["mount", [["/api", inner], ["/a", echo("never")]]]], ["/", echo("other")]]]]]]
    for host in (None, "example.com", "zz"):
        for path in ("/api/api", "/api/api/x", "/api/u/12", "/api/", "/api", "/api/zzz", "/api/api/u/3", "/", "", "/q", "/api/apix", "/apix"):
            for rootp in ("", "/root"):
                yield "app-nested", app_case(nested, path, rootp, host, method=rng.choice(["GET", "POST"]))
    # every response recipe below a mount below a host switch (the event stream's Connection header included)
    for r in c05.recipes(tier, rng):
        if r[0] in ("stream", "sse") and any(isinstance(i, str) and i == "RAISE" for i in r[1]):
            continue
        tree = ["hosts", [[".*", ["mount", [["/m", ["route", [["/r", ["leaf", ["fixed", r]]]]]]]]]]]
        yield "app-leaf-" + r[0], app_case(tree, "/m/r", "/root")
    # random trees
    pool = [r for r in c05.recipes(tier, rng)
            if not (r[0] in ("stream", "sse") and any(isinstance(i, str) and i == "RAISE" for i in r[1]))]
    n = 500 if tier == "quick" else 6000
    for _ in range(n):
        names = itertools.count()
        tree = random_tree(rng, rng.randrange(1, 4), names, pool, [True])
        for _ in range(3):
            path, host = random_target(rng, tree)
            if rng.random() < 0.4:
                path += rng.choice(PATH_TAILS)
            if rng.random() < 0.15 and path:
                path = path[:-1]
            if rng.random() < 0.3:
                host = rng.choice(HOST_VALUES)
            hs = [[rng.choice([k, k.lower(), k.upper()]), v] for k, v in rng.sample(APP_HEADER_POOL, rng.randrange(0, 4))]
            yield "app-random", app_case(tree, path, rng.choice(["", "", "/root", "/r/s"]), host, hs, rng.choice(["GET", "POST", "DELETE"]))



# ---------------------------------------------------------------- static leaves (model: C04/Static.v)
# ["app", tree, method, root, path, headers, ["static", layout, query bytes, scheme, [server name, port]]]
#   tree as above, plus the leaf ["static", [0 Files | 1 Pages, cacheability, max_age]]: the real baize.wsgi / baize.asgi
#   Files / Pages on the directory of the layout.  os.stat is answered for the regular files of the layout from fixed
#   nanosecond timestamps (c14's virtual stat), so that mtime, ctime and the float fields are the same in every run.

NS = 10 ** 9
S_BASE = 1_700_000_000
STATIC_NSEC = [500_000_000, 0, 999_999_600, 300_000_000, 999_999_400]
STATIC_GAP = [0, 100 * NS, 400_000_000, 3 * NS, 1]           # ctime - mtime
CHUNK = 4096 * 64


def _pattern(n):
    return bytes((i * 7 + 3) % 251 for i in range(n))


STATIC_LAYOUTS = {
    "main": {"index.html": b"<h1>i</h1>", "a.txt": b"0123456789" * 3, "page.html": b"<p>p</p>", "x.html": b"<x/>",
             "empty.txt": b"", "bin.dat": bytes(range(40)), "noext": b"no extension", "we ird.bin": b"\x00\x01\x02",
             "sub/index.html": b"sub", "sub/inner.html": b"<i>inner</i>", "noidx/a.txt": b"na", "d.html/index.html": b"dh",
             "both.html": b"file", "both/index.html": b"dir", "deep/d1/d2/f.txt": b"deep", "fifo": None},
    "noindex": {"a.txt": b"abc", "sub/x.html": b"x"},
    "tiny": {"a.txt": b"xy", "s": "DIR"},       # small enough for the kernel cross-check of the extraction
    "chunk": {"one.dat": _pattern(CHUNK), "index.html": b"i"},
    "chunk1": {"more.dat": _pattern(CHUNK + 1), "index.html": b"i"},
    "chunk2": {"two.dat": _pattern(2 * CHUNK), "index.html": b"i"},
}

_static = {}
_tmpl = {"tmpl": {}}


def static_world(layout):
    """the directory of a layout (built once per process), with what the model is told about it"""
    import mimetypes
    from hashlib import sha1
    from urllib.parse import quote
    key = (os.getpid(), layout)
    w = _static.get(key)
    if w is not None:
        return w
    root = os.path.join(util.tmpdir(), "w" + layout)
    files = STATIC_LAYOUTS[layout]
    os.makedirs(root, exist_ok=True)
    nodes = {root: [1, 0]}
    rows, ctypes = [], []
    for j, (name, data) in enumerate(sorted(files.items())):
        p = os.path.join(root, name)
        d = os.path.dirname(p)
        os.makedirs(d, exist_ok=True)
        while d != root:
            nodes[d] = [1, 0]
            d = os.path.dirname(d)
        if data is None:
            if not os.path.exists(p):
                os.mkfifo(p)
            nodes[p] = [2, 0]
            continue
        if data == "DIR":
            os.makedirs(p, exist_ok=True)
            nodes[p] = [1, 0]
            continue
        if not os.path.exists(p):
            with open(p, "wb") as f:
                f.write(data)
        mt = (S_BASE + 1000 * j) * NS + STATIC_NSEC[j % len(STATIC_NSEC)]
        ct = mt + STATIC_GAP[j % len(STATIC_GAP)]
        st = c14.vstat(_tmpl, p, len(data), mt - 5 * NS, mt, ct)
        c14.VFS[p] = st
        fid = j + 1
        nodes[p] = [0, fid]
        etag = sha1(("%s-%s" % (st.st_mtime, st.st_size)).encode("ascii")).hexdigest()
        rows.append([fid, data, mt, ct, etag, int(st.st_mtime), int(st.st_ctime), formatdate(int(st.st_mtime), usegmt=True)])
        ctype = mimetypes.guess_type(os.path.basename(p))[0] or "application/octet-stream"
        disp = []
        if ctype == "application/octet-stream":
            dn = os.path.basename(p)
            disp = ['attachment; filename="%s"; filename*=utf-8\'\'%s' % (dn, quote(dn))]
        ctypes.append([p, ctype, disp])
    os.stat = c14._vstat
    w = {"dir": root, "cwd": os.getcwd(), "nodes": nodes, "rows": rows, "ctypes": ctypes}
    _static[key] = w
    return w


def parse_date(text):
    """what if_modified_since reads from the text: [] for empty / not a date, else [second]"""
    from email.utils import parsedate_to_datetime
    if not text:
        return []
    try:
        return [int(parsedate_to_datetime(text).timestamp())]
    except (TypeError, ValueError, OverflowError):
        return []


def enc_world(w, headers):
    dates = [[v, parse_date(v)] for k, v in headers if k.lower() == "if-modified-since"]
    return [w["cwd"], [[p, k, fid] for p, (k, fid) in sorted(w["nodes"].items())], w["rows"], w["ctypes"], dates, c02.BOUNDARY]


STATIC_DECOYS = [["Accept", "*/*"], ["X-Range", "bytes=0-1"], ["If-Match", "*"], ["If-Unmodified-Since", "x"], ["Cookie", "a=1"]]
STATIC_HOSTS = [None, "example.com", "h:8080", "[::1]:80", "[::1", "EXAMPLE.com", "", "a b", "x/y", "u@h", "h:", "h:abc"]
STATIC_QUERIES = [b"", b"a=1&b=2", b"\xc3\xa9=1", b"\xff", b"x=%20y", b"a b", b"q=\xf0\x9f\x98\x80", b"\xed\xa0\x80", b"\xc0\xaf"]
STATIC_PATHS = ["/a.txt", "/", "/index.html", "/page", "/page.html", "/sub", "/sub/", "/sub/inner", "/sub/index.html", "/missing",
                "/missing/", "/noidx", "/noidx/", "/d.html", "/d.html/", "/empty.txt", "/bin.dat", "/noext", "/we ird.bin",
                "/both", "/both/", "/both.html", "/deep/d1/d2/f.txt", "/deep/d1", "/fifo", "/../wmain/a.txt", "/../a.txt", "/a.txt/",
                "/a.txt/x", "/./a.txt", "//a.txt", "/sub/../a.txt", "", "a.txt", "/x", "/x.html", "/index", "/sub/index", "/.."]


def static_leaf(kind, cache="public", age=600):
    return ["static", [kind, cache, age]]


def static_case(tree, path, layout="main", headers=(), method="GET", root="", query=b"", scheme="http", server=("testserver", 80)):
    return ["app", tree, method, root, path, [list(h) for h in headers], ["static", layout, query, scheme, list(server)]]


def static_trees(kind):
    """(label, tree, path prefix that leads to the static leaf, Host value it needs)"""
    leaf = static_leaf(kind)
    yield "root", leaf, "", None
    yield "router", ["route", [["/api/{id:int}", echo("user")], ["{rest:any}", leaf]]], "", None
    yield "subpaths", ["mount", [["/api", echo("A")], ["/static", leaf], ["", echo("D")]]], "/static", None
    yield "hosts", ["hosts", [["example\\.com", echo("root")], ["static\\..*", leaf]]], "", "static.example.com"
    yield "nested", ["hosts", [[".*", ["mount", [["/m", ["mount", [["/static", leaf], ["", echo("inner")]]]], ["", echo("outer", 201)]]]]]], "/m/static", None
    yield "mount-router", ["mount", [["/s", ["route", [["/never", echo("n")], ["{p:any}", leaf]]]]]], "/s", None


def cond_forms(etag, lm, msec, csec):
    """header lists exercising the 304 decision for a file with these validators"""
    bare = etag.strip('"')
    d = lambda sec: formatdate(sec, usegmt=True)
    inm = [etag, "W/" + etag, '"x", %s' % etag, 'W/"y" ,  W/%s\t, "z"' % etag, bare, "*", '"nomatch"', " * ", '"%s' % bare, "", "W/"]
    ims = [d(msec - 10), d(msec), d(msec + 1), d(csec - 1), d(csec), d(csec + 10), "garbage", "", d(msec)[:-4],
           "Tue, 14 Nov 2023 25:13:20 GMT", "Fri, 31 Dec 9999 23:59:59 GMT"]
    for v in inm:
        yield [["If-None-Match", v]]
    for v in ims:
        yield [["If-Modified-Since", v]]
    for v, m in ((etag, d(msec - 10)), ('"nomatch"', d(csec + 10)), ("", d(csec + 10)), ("W/" + etag, "garbage"), ('"nomatch"', "")):
        yield [["If-None-Match", v], ["If-Modified-Since", m]]
        yield [["If-Modified-Since", m], ["If-None-Match", v]]


def range_forms(etag, lm, size):
    rs = ["bytes=0-4", "bytes=0-1,5-6", "bytes=%d-" % (size + 69), "bytes=2-1", "bytes=-5", "lines=1-2", "bytes=0-", "bytes=1-1", "",
          "bytes=0-0,2-3,1-2", "bytes=%d-%d" % (max(size - 1, 0), size + 5), "bytes"]
    for r in rs:
        yield [["Range", r]]
    for ifr in (etag, "W/" + etag, lm, formatdate(S_BASE - 100, usegmt=True), "garbage", "", etag.strip('"')):
        yield [["Range", "bytes=1-3"], ["If-Range", ifr]]
        yield [["If-Range", ifr], ["Range", "bytes=0-1,4-5"]]
    yield [["If-Range", etag]]


def vary_names(rng, hs):
    return [[rng.choice([k, k.lower(), k.upper()]), v] for k, v in hs]


def static_cases(tier, rng):
    trees = {k: list(static_trees(k)) for k in (0, 1)}
    # (a) every path of the pool x Files/Pages x every tree shape, plain GET
    for kind in (0, 1):
        for label, tree, prefix, host in trees[kind]:
            for path in STATIC_PATHS:
                hs = [["Host", host]] if host is not None else []
                yield "static-paths", static_case(tree, prefix + path, headers=hs, root=rng.choice(["", "/root"]))
    # (b) conditional requests, Range / If-Range and HEAD on served files, as root application and below the dispatchers
    targets = {0: [("a.txt", "/a.txt"), ("empty.txt", "/empty.txt"), ("bin.dat", "/bin.dat"), ("sub/inner.html", "/sub/inner.html")],
               1: [("page.html", "/page"), ("index.html", "/"), ("sub/index.html", "/sub/"), ("a.txt", "/a.txt"), ("both.html", "/both.html")]}
    for kind in (0, 1):
        for n, (name, url) in enumerate(targets[kind]):
            etag, lm, msec, csec, size = static_validators("main", name)
            conds, ranges = list(cond_forms(etag, lm, msec, csec)), list(range_forms(etag, lm, size))
            forms = conds + ranges + [a + b for a in conds[::5] for b in ranges[::7]]
            for k, hs in enumerate(forms):
                shapes = trees[kind] if (tier == "thorough" or k % 6 == 0) else [trees[kind][(k + n) % len(trees[kind])]]
                for label, tree, prefix, host in shapes:
                    for method in (("GET", "HEAD") if (tier == "thorough" or k % 3 == 0) else ("GET",)):
                        h2 = vary_names(rng, hs + rng.sample(STATIC_DECOYS, rng.randrange(0, 3)))
                        if host is not None:
                            h2.append(["Host", host])
                        yield "static-conditional" if k < len(conds) else "static-range", \
                            static_case(tree, prefix + url, headers=h2, method=method)
    # (c) the redirect of Pages: query strings, Host header forms, schemes, server addresses, root paths
    servers = [("testserver", 80), ("testserver", 8080), ("::1", 443), ("10.0.0.1", 80)]
    for label, tree, prefix, host in trees[1]:
        for path in ("/sub", "/noidx", "/both", "/deep/d1", "/d.html"):
            for q in STATIC_QUERIES:
                if host is not None:
                    hosts = [host]
                elif tier == "thorough" or path == "/sub":
                    hosts = STATIC_HOSTS
                else:
                    hosts = STATIC_HOSTS[:3]
                for h in hosts:
                    hs = [["Host", h]] if h is not None else []
                    yield "static-redirect", static_case(tree, prefix + path, headers=hs, query=q, root=rng.choice(["", "/root", "/r s"]),
                                                         scheme=rng.choice(["http", "https"]), server=rng.choice(servers))
    # (d) other configurations and layouts: cacheability, max_age, a directory without index page
    for kind in (0, 1):
        for cache, age in (("private", 0), ("no-cache", 31536000), ("no-store", -1), ("public", 10 ** 30)):
            for path in ("/a.txt", "/sub", "/missing", "/"):
                for hs in ([], [["If-None-Match", "*"]], [["Range", "bytes=0-0"]]):
                    yield "static-config", static_case(static_leaf(kind, cache, age), path, headers=hs)
        for path in ("/", "/a.txt", "/sub", "/sub/", "/sub/x", "/index.html"):
            yield "static-layout", static_case(static_leaf(kind), path, layout="noindex")
        for path in ("/a.txt", "/s", "/s/", "/a", "/b", ""):
            for hs in ([], [["Range", "bytes=1-"]], [["If-None-Match", "*"]], [["Host", "h"]]):
                yield "static-tiny", static_case(static_leaf(kind, "public", 1), path, layout="tiny", headers=hs, method=rng.choice(["GET", "HEAD"]))
    # (e) files of exactly one chunk, one chunk + 1 byte and two chunks: whole, HEAD, ranges across the chunk border
    big = [("chunk", "one.dat", CHUNK), ("chunk1", "more.dat", CHUNK + 1), ("chunk2", "two.dat", 2 * CHUNK)]
    for layout, name, size in (big if tier == "thorough" else big[:2]):
        for hs in ([], [["Range", "bytes=%d-" % (CHUNK - 1)]], [["Range", "bytes=0-%d" % (CHUNK - 1)]], [["Range", "bytes=5-10,%d-%d" % (CHUNK - 2, CHUNK + 2)]]):
            for method in ("GET", "HEAD"):
                if method == "HEAD" and hs and tier == "quick":
                    continue
                yield "static-chunk", static_case(["mount", [["/static", static_leaf(0)]]], "/static/" + name, layout=layout, headers=hs, method=method)
    # (f) random
    n = 400 if tier == "quick" else 8000
    for _ in range(n):
        kind = rng.randrange(2)
        label, tree, prefix, host = rng.choice(trees[kind])
        name, url = rng.choice(targets[kind])
        etag, lm, msec, csec, size = static_validators("main", name)
        hs = []
        if rng.random() < 0.5:
            hs += rng.choice(list(cond_forms(etag, lm, msec, csec)))
        if rng.random() < 0.5:
            hs += rng.choice(list(range_forms(etag, lm, size)))
        hs += rng.sample(STATIC_DECOYS, rng.randrange(0, 3))
        rng.shuffle(hs)
        hs = vary_names(rng, hs)
        if host is not None and rng.random() < 0.9:
            hs.append(["Host", host])
        elif rng.random() < 0.4:
            hs.append(["Host", rng.choice([h for h in STATIC_HOSTS if h is not None])])
        path = url if rng.random() < 0.6 else rng.choice(STATIC_PATHS)
        yield "static-random", static_case(tree, prefix + path, headers=hs, method=rng.choice(["GET", "GET", "HEAD", "POST"]),
                                           root=rng.choice(["", "/root"]), query=rng.choice(STATIC_QUERIES),
                                           scheme=rng.choice(["http", "https", "ws"]), server=rng.choice([("testserver", 80), ("h2", 8443)]))


def static_validators(layout, name):
    """the validators of a file of a layout, computed as static_world does but without touching the disk
    (cases() runs in the parent process)"""
    from hashlib import sha1
    files = STATIC_LAYOUTS[layout]
    j = sorted(files).index(name)
    mt = (S_BASE + 1000 * j) * NS + STATIC_NSEC[j % len(STATIC_NSEC)]
    ct = mt + STATIC_GAP[j % len(STATIC_GAP)]
    size = len(files[name])
    etag = sha1(("%s-%s" % (c14.fl(mt), size)).encode("ascii")).hexdigest()
    return '"%s"' % etag, formatdate(int(c14.fl(mt)), usegmt=True), int(c14.fl(mt)), int(c14.fl(ct)), size


def cases(tier, rng):
    yield from req_cases(tier, rng)
    yield from derived_cases(tier, rng)
    yield from program_cases(tier, rng)
    yield from app_cases(tier, rng)
    yield from static_cases(tier, rng)


def search_cases(tier, rng, mism):
    yield from cases("thorough", rng)


def enc_tree(tree, patterns, directory=None):
    kind, arg = tree
    if kind == "static":
        k, cache, age = arg
        return ["static", [k, directory, cache, age]]
    if kind == "leaf":
        return ["leaf", ["fixed", resp.encode(arg[1])] if arg[0] == "fixed" else list(arg)]
    if kind == "hosts":
        out = []
        for pat, sub in arg:
            patterns.append(pat)
            out.append([len(patterns) - 1, enc_tree(sub, patterns, directory)])
        return ["hosts", out]
    return [kind, [[k, enc_tree(sub, patterns, directory)] for k, sub in arg]]


def route_texts(tree):
    if tree[0] in ("leaf", "static"):
        return
    for k, sub in tree[1]:
        if tree[0] == "route":
            yield k
        yield from route_texts(sub)


def enc_app(case):
    _, tree, method, root, path, headers = case[:6]
    patterns = []
    directory = static_world(case[6][1])["dir"] if len(case) == 7 else None
    t = enc_tree(tree, patterns, directory)
    texts = [""] + [v for k, v in headers if k.lower() == "host" and v != ""]
    rows = [[x, [1 if re.fullmatch(p, x) is not None else 0 for p in patterns]] for x in dict.fromkeys(texts)]
    chars = sorted({ch for r in route_texts(tree) for ch in r if ord(ch) >= 128})
    out = ["app", c08.int_limit(), [[ord(ch), c08.char_class(ch)] for ch in chars], t, method, root, path, [list(h) for h in headers], rows]
    if len(case) == 7:
        _, layout, query, scheme, server = case[6]
        out += [query, scheme, [server[0], server[1]], enc_world(static_world(layout), headers)]
    return out


def enc_case(case):
    if case[0] == "app":
        return enc_app(case)
    if case[0] == "resp":
        return ["resp", resp.encode(case[1])]
    if case[0] == "diff":
        return ["diff", repr(case[1:])]     # the model ignores the program: its answer is "same"
    return case


def ENCODE(case):
    return core.enc_line(enc_case(case))


# ---------------------------------------------------------------- running

def response_of_wsgi(app, env):
    starts, items, exc = util.call_wsgi(app, env)
    if exc is not None:
        return ["exc", type(exc).__name__, str(exc)[:80]]
    if len(starts) != 1:
        return ["starts", len(starts)]
    status, headers = starts[0]
    return [int(status.split(" ")[0]), sorted([k.lower(), v] for k, v in headers), b"".join(x for _, x in items)]


def response_of_asgi(app, scope, msgs=None):
    sent, exc = util.call_asgi(app, scope, msgs)
    if exc is not None:
        return ["exc", type(exc).__name__, str(exc)[:80]]
    if not sent or sent[0]["type"] != "http.response.start":
        return ["nostart"]
    body = b"".join(m.get("body", b"") for m in sent[1:])
    return [int(sent[0]["status"]), sorted([k.decode("latin-1").lower(), v.decode("latin-1")] for k, v in sent[0].get("headers", [])), body]


def build_program(case, iface):
    kind = case[1]
    if iface == "wsgi":
        import baize.wsgi as B
    else:
        import baize.asgi as B
    if kind == "router":
        def ep(name):
            if iface == "wsgi":
                def view(request):
                    return B.PlainTextResponse("%s:%r" % (name, sorted((k, str(v), type(v).__name__) for k, v in request.path_params.items())))
            else:
                async def view(request):
                    return B.PlainTextResponse("%s:%r" % (name, sorted((k, str(v), type(v).__name__) for k, v in request.path_params.items())))
            return B.request_response(view)
        return B.Router(*[(p, ep(n)) for p, n in case[2]])
    if kind in ("subpaths", "hosts"):
        def leaf(name):
            if iface == "wsgi":
                def view(request):
                    return B.PlainTextResponse("%s|%s|%s" % (name, request.get("SCRIPT_NAME", ""), request.get("PATH_INFO", "")))
            else:
                async def view(request):
                    return B.PlainTextResponse("%s|%s|%s" % (name, request.get("root_path", ""), request.get("path", "")))
            return B.request_response(view)
        cls = B.Subpaths if kind == "subpaths" else B.Hosts
        return cls(*[(p, leaf(n)) for p, n in case[2]])
    if kind == "fallback":
        # a request that is dispatched a second time: the usual fallback middleware relays the answer of the wrapped
        # application unless it is 404 and then hands the SAME request to a second application.  What the dispatchers
        # (Subpaths, Router) left behind in the environ / scope on the way to the first 404 is then visible.
        def view(name):
            if iface == "wsgi":
                def v(request):
                    return B.PlainTextResponse("%s|%s|%s|%r" % (name, request.get("SCRIPT_NAME", ""), request.get("PATH_INFO", ""),
                                                               sorted((k, str(x)) for k, x in request.path_params.items())))
            else:
                async def v(request):
                    return B.PlainTextResponse("%s|%s|%s|%r" % (name, request.get("root_path", ""), request.get("path", ""),
                                                               sorted((k, str(x)) for k, x in request.path_params.items())))
            return B.request_response(v)

        def first_of(first, second):
            if iface == "wsgi":
                @B.middleware
                def fallback(request, next_call):
                    response = next_call(request)
                    if response.status_code != 404:
                        return response
                    return B.NextResponse.from_app(second, request)
            else:
                @B.middleware
                async def fallback(request, next_call):
                    response = await next_call(request)
                    if response.status_code != 404:
                        return response
                    return await B.NextResponse.from_app(second, request)
            return fallback(first)
        mounts = B.Subpaths(("/static", B.Router(("/logo.png", view("logo")), ("/css/{name}", view("css")))),
                            ("/api", B.Subpaths(("/v1", B.Router(("/users/{id:int}", view("user")))))))
        pages = B.Router(("/", view("home")), ("/{page}", view("page")), ("/{section}/{page}", view("page2")))
        if case[2] == "mounts-first":
            return first_of(mounts, pages)
        return first_of(pages, mounts)
    if kind in ("files", "pages"):
        import baize.wsgi.responses as W
        import baize.asgi.responses as A
        W.random_choices = A.random_choices = lambda pop, k: list(c02.BOUNDARY[:k])
        cls = B.Files if kind == "files" else B.Pages
        return cls(tree(), cacheability="public", max_age=600)
    if kind == "view":
        recipe = case[2]
        if iface == "wsgi":
            def view(request):
                return resp.build(recipe, "wsgi")
        else:
            async def view(request):
                return resp.build(recipe, "asgi")

        @B.decorator
        def deco_w(request, next_call):
            return next_call(request)

        @B.decorator
        async def deco_a(request, next_call):
            return await next_call(request)
        return B.request_response((deco_w if iface == "wsgi" else deco_a)(view))
    raise ValueError(kind)


def value_text(v):
    import datetime
    import decimal
    import uuid
    if type(v) is str:
        return "s:" + v
    if type(v) is int:
        return "i:" + str(v)
    if type(v) is decimal.Decimal:
        t = format(v, "f")
        if "." in t:
            t = t.rstrip("0").rstrip(".")
        return "d:" + t
    if type(v) is uuid.UUID:
        return "u:" + str(v)
    if type(v) is datetime.date:
        return "t:" + v.isoformat()
    return "?:" + type(v).__name__


def echo_text(name, request, kroot, kpath, kparams):
    ps = request.get(kparams)
    params = "-" if ps is None else "".join("%s=%s;" % (k, value_text(ps[k])) for k in sorted(ps))
    headers = "".join("%s: %s\n" % (k, v) for k, v in sorted(request.headers.items()))
    return "|".join([name, request.method, request.get(kroot, ""), request.get(kpath, ""), params, headers])


def build_tree(tree, iface, directory=None):
    """the live application of a tree, on one interface"""
    if iface == "wsgi":
        import baize.wsgi as B
    else:
        import baize.asgi as B
    kind, arg = tree
    if kind == "static":
        k, cache, age = arg
        return (B.Files if k == 0 else B.Pages)(directory, cacheability=cache, max_age=age)
    if kind == "leaf":
        if arg[0] == "echo":
            _, name, status = arg
            if iface == "wsgi":
                def view(request):
                    return B.PlainTextResponse(echo_text(name, request, "SCRIPT_NAME", "PATH_INFO", "PATH_PARAMS"), status)
            else:
                async def view(request):
                    return B.PlainTextResponse(echo_text(name, request, "root_path", "path", "path_params"), status)
            return B.request_response(view)
        recipe = arg[1]
        if iface == "wsgi":
            def view(request):
                return resp.build(recipe, "wsgi")
        else:
            async def view(request):
                return resp.build(recipe, "asgi")
        return B.request_response(view)
    cls = {"route": B.Router, "mount": B.Subpaths, "hosts": B.Hosts}[kind]
    return cls(*[(k, build_tree(sub, iface, directory)) for k, sub in arg])


def canon_answer(x):
    return ["exc", x[1]] if x and x[0] == "exc" else x


def answer_of_wsgi(app, env):
    """like response_of_wsgi, but the header list stays in the order it was sent, and an HTTPException that
    reaches the server is an observation of its own"""
    from baize.exceptions import HTTPException
    starts, items, exc = util.call_wsgi(app, env)
    if exc is not None:
        if isinstance(exc, HTTPException):
            return ["http", exc.status_code] + ([repr(exc.headers), repr(exc.content)] if exc.headers or exc.content is not None else [])
        return ["exc", type(exc).__name__]
    if len(starts) != 1:
        return ["starts", len(starts)]
    status, headers = starts[0]
    return [int(status.split(" ")[0]), [[k.lower(), v] for k, v in headers], b"".join(x for _, x in items)]


def answer_of_asgi(app, scope, msgs=None):
    from baize.exceptions import HTTPException
    sent, exc = util.call_asgi(app, scope, msgs)
    if exc is not None:
        if isinstance(exc, HTTPException):
            return ["http", exc.status_code] + ([repr(exc.headers), repr(exc.content)] if exc.headers or exc.content is not None else [])
        return ["exc", type(exc).__name__]
    if not sent or sent[0]["type"] != "http.response.start":
        return ["nostart"]
    body = b"".join(m.get("body", b"") for m in sent[1:])
    return [int(sent[0]["status"]), [[k.decode("latin-1").lower(), v.decode("latin-1")] for k, v in sent[0].get("headers", [])], body]


def impl_static(case):
    _, tree, method, root, path, headers, (_, layout, query, scheme, server) = case
    import baize.wsgi.responses as W
    import baize.asgi.responses as A
    W.random_choices = A.random_choices = lambda pop, k: list(c02.BOUNDARY[:k])
    world = static_world(layout)
    try:
        app_w, app_a = build_tree(tree, "wsgi", world["dir"]), build_tree(tree, "asgi", world["dir"])
    except Exception as e:  # noqa
        return [["cfg"]]
    env, scope, msgs = render(method, query, headers, ["127.0.0.1", 9], [], path=path, root=root, scheme=scheme, server=server)
    return [answer_of_wsgi(app_w, env), answer_of_asgi(app_a, scope, msgs)]


def impl_app(case):
    if len(case) == 7:
        return impl_static(case)
    _, tree, method, root, path, headers = case
    import baize.wsgi.responses as W
    import baize.asgi.responses as A
    W.random_choices = A.random_choices = lambda pop, k: list(c02.BOUNDARY[:k])
    try:
        app_w, app_a = build_tree(tree, "wsgi"), build_tree(tree, "asgi")
    except Exception as e:  # noqa  (a Route / Subpaths that cannot be constructed)
        return [["cfg"]]
    import zlib
    if zlib.crc32(repr(case).encode("utf-8", "surrogatepass")) & 1:
        # every other case: the same application objects have answered two other requests before (what an application
        # answers is a function of the request, not of its history)
        for wpath in ("/", (path or "") + "/x"):
            e0, s0, m0 = render("GET", b"", [], ["127.0.0.1", 9], [], path=wpath, root="")
            response_of_wsgi(app_w, e0)
            response_of_asgi(app_a, s0, m0)
    env, scope, msgs = render(method, b"", headers, ["127.0.0.1", 9], [], path=path, root=root)
    return [canon_answer(response_of_wsgi(app_w, env)), canon_answer(response_of_asgi(app_a, scope, msgs))]


def request_of(case):
    """(method, path, root, headers) for a differential program"""
    kind = case[1]
    if kind == "router":
        return "GET", case[3], "", []
    if kind == "fallback":
        return "GET", case[3], "", []
    if kind == "subpaths":
        return "GET", case[4], case[3], []
    if kind == "hosts":
        return "GET", "/", "", ([["Host", case[3]]] if case[3] is not None else [])
    if kind in ("files", "pages"):
        return case[4], case[2], "", case[3]
    if kind == "view":
        r = case[2]
        return resp.method_of(r), "/", "", [[k, v] for k, v in resp.req_headers(r)]
    raise ValueError(kind)


def strip_sanctioned(case, a):
    """the one sanctioned difference: the Connection header of the ASGI event stream"""
    if case[1] == "view" and case[2][0] == "sse" and isinstance(a[0], int):
        a = [a[0], [h for h in a[1] if h[0] != "connection"], a[2]]
    return a


def impl(case):
    if case[0] == "app":
        return impl_app(case)
    if case[0] == "req":
        _, method, query, headers, client, chunks = case
        env, scope, msgs = render(method, query, headers, client, chunks)
        from baize.wsgi.requests import Request as WR
        from baize.asgi.requests import Request as AR
        w = WR(env)
        wv = [w.method, sorted([k, v] for k, v in w.headers.items()), [w.client.host, w.client.port] if w.client.host is not None else [],
              b"".join(w.stream(chunk_size=3))]
        a = AR(scope, mk_receive(msgs))

        async def abody():
            return await a.body
        av = [a.method, sorted([k, v] for k, v in a.headers.items()), [a.client.host, a.client.port] if a.client.host is not None else [],
              util.run(abody())]
        return [wv, av]
    if case[0] == "resp":
        r = case[1]
        env = util.wsgi_environ(resp.method_of(r), headers=resp.req_headers(r))
        scope = util.http_scope(resp.method_of(r), headers=[(k.encode(), v.encode("latin-1")) for k, v in resp.req_headers(r)])
        return [response_of_wsgi(resp.build(r, "wsgi"), env), response_of_asgi(resp.build(r, "asgi"), scope)]
    # differential
    if case[1] == "derived":
        _, _, method, query, headers, client, chunks = case
        env, scope, msgs = render(method, query, headers, client, chunks)
        w, a = derived_wsgi(env), derived_asgi(scope, msgs)
        bad = sorted(k for k in w if w[k] != a.get(k))
        return ["same"] if not bad else ["differ", bad[0], repr(w[bad[0]])[:200], repr(a.get(bad[0]))[:200]]
    method, path, root, headers = request_of(case)
    env, scope, msgs = render(method, b"", headers, ["127.0.0.1", 9], [], path=path, root=root)
    w = response_of_wsgi(build_program(case, "wsgi"), env)
    a = strip_sanctioned(case, response_of_asgi(build_program(case, "asgi"), scope, msgs))
    if w == a:
        return ["same"]
    what = "status" if w[0] != a[0] else ("headers" if w[1:2] != a[1:2] else "body")
    return ["differ", what, repr(w)[:300], repr(a)[:300]]


def oracle(case, obs):
    if obs and obs[0] == "driver-exception":
        return ("driver-exception-" + str(obs[1]), str(obs))
    if case[0] == "req":
        if obs[0] != obs[1]:
            i = [x != y for x, y in zip(obs[0], obs[1])].index(True)
            return ("request-view-differs-" + ("method", "headers", "client", "body")[i], "wsgi %r / asgi %r" % (obs[0][i], obs[1][i]))
        return None
    if case[0] == "app" and len(case) == 7:
        # static leaves: the same abstract request gets the same answer on both interfaces — status, header list in the
        # order it is sent, body bytes, or the same HTTPException — and it is a response or an HTTPException
        if len(obs) != 2:
            return ("static-cfg", "the tree cannot be constructed: %r" % (obs,))
        w, a = obs
        if w != a:
            if isinstance(w[0], int) and isinstance(a[0], int):
                what = "status" if w[0] != a[0] else ("headers" if w[1] != a[1] else "body")
            else:
                what = "outcome"
            return ("static-differs-" + what, "wsgi %r / asgi %r" % (w[:2], a[:2]))
        if not (isinstance(w[0], int) or (w[0] == "http" and len(w) == 2)):
            return ("static-no-answer", "both interfaces fail alike: %r" % (w,))
        return None
    if case[0] == "app":
        if len(obs) != 2:
            return None                  # the tree cannot be constructed on either interface: nothing to compare
        w, a = obs
        if not (isinstance(w[0], int) and isinstance(a[0], int)):
            if w == a:
                return ("app-no-response", "both interfaces fail alike: %r (case %r)" % (w, case[1:]))
            return ("app-differs-outcome", "wsgi %r / asgi %r" % (w, a))
        if w != a:
            a2 = [a[0], [h for h in a[1] if h != ["connection", "keep-alive"]], a[2]]
            sse = any(l[0] == "fixed" and l[1][0] == "sse" for l in leaves_of(case[1]))
            if not (sse and w == a2):
                what = "status" if w[0] != a[0] else ("headers" if w[1] != a[1] else "body")
                return ("app-differs-" + what, "wsgi %r / asgi %r" % (w, a))
        return None
    if case[0] == "resp":
        w, a = obs
        if case[1][0] == "sse" and isinstance(a[0], int):
            a = [a[0], [h for h in a[1] if h[0] != "connection"], a[2]]
        if w != a:
            what = "status" if w[0] != a[0] else ("headers" if w[1:2] != a[1:2] else "body")
            return ("response-differs-%s-%s" % (case[1][0], what), "wsgi %r / asgi %r" % (w, a))
        return None
    if obs[0] != "same":
        return ("differ-%s-%s" % (case[1], obs[1]), "%s program: %s differs: wsgi %s / asgi %s (case %r)" % (case[1], obs[1], obs[2], obs[3], case[2:5]))
    return None


def nontrivial(case, obs):
    # every case compares two implementations (static leaves: the real Files / Pages on both interfaces, and the model)
    return True


def shrink(case):
    return []


if __name__ == "__main__":
    import sys
    core.main(sys.modules[__name__])
