"""C06 — streaming responses terminate and release the producer (C06/Model.v).

Forced schedules on the real code.

WSGI (kinds 0, 1): `baize.wsgi.responses.queue` is replaced by a shim whose Queue
operations, together with a wrapped thread pool / future and the producer, stop at a
*control point* until the scheduler (the case's main thread) grants that thread its next
step.  Real threads, but only one runs at a time, so a run is a deterministic function
of the schedule; "no thread can be granted a step and not all are finished" is
observed as the state `deadlock` (no waiting for a watchdog).  The threads are created
inside impl() per case and are daemons; at the end of a case they are unwound by an
Abort exception raised at their control point.

ASGI (kinds 2, 3): the response coroutine runs as a task on a fresh event loop with a
virtual clock; receive / send / the producer await futures that the schedule resolves
one at a time, the ping timer fires when the schedule advances the clock; after every
event the loop runs until no callback is ready.

Granularity: the steps that are forced are queue put/get/empty, future
done/cancel/exception, pool start, producer next/close and the server's resume/close
(WSGI); environment events (ASGI).  The model's finer steps (flag tests and flag
assignments between two such operations) are collapsed into the preceding forced step
on the model side too (coarseW/coarseA/coarseE in Model.v); the theorems are about the
fine steps.
"""
import os
import subprocess
import sys
import threading

from . import core

PID = "C06"
MANIFEST = dict(
    text="Theorems no_deadlock / close_terminates / generator_closed_once / no_task_left / delivered_is_prefix (each for the "
         "WSGI stream, the repaired WSGI event-stream relay, the ASGI stream and the ASGI event stream; every schedule, every "
         "producer, unbounded item count), pool_exhausted (a thread pool without a free worker: the relay's job stays queued, the consumer "
         "never waits for it, a closed response ends within six consumer steps with the job cancelled, until then the stream only pings) "
         "and no_deadlock_orig_refuted (the relay as it was deadlocks: schedule as witness); "
         "the transition systems are compared with the live code under forced schedules: real relay/consumer threads stepped "
         "at their queue/future/producer operations, ASGI tasks on a virtual-time event loop with scripted receive/send/"
         "producer/timer events; all schedules of enabled choices up to a depth, random ones up to 60 steps.",
    note="Partial: real preemption inside a Python statement, GIL timing and wall-clock jitter of the ping timer are not modelled; "
         "pool exhaustion is modelled as 'the job is never picked up' (not as ten workers shared by several streams); the harness forces the queue/future/producer/close operations, the flag tests and "
         "assignments between them are collapsed into the preceding forced step (the theorems cover the fine interleavings).",
    technique="Coq proof (invariants by induction over the steps of four transition systems, ranking functions) + "
              "forced-schedule correspondence",
    ref="5/C06")

RULE = ("cases: for the kinds WSGI stream / WSGI event stream / ASGI stream / ASGI event stream, producers of 0..3 items ending "
        "in stop, exception or never, every maximal schedule of enabled choices up to depth d (enumerated by the extracted model; "
        "quick: 8/12/16/10, thorough: 8/15/20/13), completed by a fixed policy (close or disconnect at once, then whatever is "
        "enabled); random schedules of up to 60 choices (disabled ones are skipped) with producers of up to 6 items; "
        "non-trivial = the close/disconnect happened and at least one step followed it, or the producer raised")
TRUSTED = ["the shim queue/future/pool/producer and the step scheduler of harness/c06.py (they replace queue.Queue, "
           "concurrent.futures and asyncio timing by scheduler-controlled versions with the same interface)",
           "CPython's generator / async generator / asyncio.Task cancellation semantics as modelled in C06/Model.v"]
ASSUMPTIONS = ["between two forced operations a thread runs without being preempted (coarse steps); the theorems cover every "
               "interleaving of the fine steps",
               "send/receive/producer always suspend (a producer and send that never suspend starve the watcher: event-loop "
               "scheduling, not modelled)",
               "the producer's cleanup code does not suspend and does not raise"]
EXHAUSTIVE = {"quick": True, "thorough": True}
PARTIAL = ("real preemption inside a statement, GIL timing and wall-clock ping jitter are not modelled; pool exhaustion is modelled as "
           "'the relay's job is never picked up' (theorem pool_exhausted, schedules of kind 5), not as a pool of ten workers shared by several streams")

K_WS, K_WE, K_AS, K_AE = 0, 1, 2, 3
# 5: the WSGI event stream on a thread pool without a free worker (more streams open than the pool's 10 workers, the
# others idle): the relay's job is never picked up (model: coarseWsat, theorem pool_exhausted)
K_WX = 5
KIND_NAME = {0: "wsgi-stream", 1: "wsgi-sse", 2: "asgi-stream", 3: "asgi-sse", 5: "wsgi-sse-pool-exhausted"}
DEPTH = {"quick": {0: 8, 1: 12, 2: 16, 3: 10, 5: 10}, "thorough": {0: 8, 1: 15, 2: 20, 3: 13, 5: 14}}


# ------------------------------------------------------------------ cases

def _enumerate(reqs):
    """ask the extracted model for all maximal schedules of enabled choices"""
    if not os.path.exists(core.MODEL):
        return [[] for _ in reqs]
    lines = [core.enc_line([9, k, [n, e], d]) for (k, n, e, d) in reqs]
    outs = core.run_model(PID, lines)
    res = []
    for o in outs:
        try:
            res.append([list(s) for s in core.dec_line(o)])
        except Exception:
            res.append([])
    return res


def cases(tier, rng):
    depth = DEPTH["thorough" if tier == "thorough" else "quick"]
    reqs = [(k, n, e, depth[k]) for k in (0, 1, 2, 3) for n in range(4) for e in (0, 1, 2)]
    reqs += [(K_WX, n, e, depth[K_WX]) for n in (0, 2) for e in (0, 2)]
    for (k, n, e, d), scheds in zip(reqs, _enumerate(reqs)):
        for s in scheds:
            yield "exhaustive-" + KIND_NAME[k], [k, [n, e], s]
    nrand = 3000 if tier == "quick" else 40000
    for i in range(nrand):
        k = rng.choice((1, 1, 1, 3, 3, 3, 2, 0, 1, 1, 3, 3, 2, 0, K_WX))
        n = rng.randrange(0, 7)
        e = rng.randrange(3)
        ln = rng.randrange(1, 61)
        if k in (0, 1, K_WX):
            w = rng.choice(([5, 5, 1], [8, 3, 1], [3, 8, 1], [6, 6, 0]))
            s = rng.choices((0, 1, 2), weights=w, k=ln)
        else:
            w = rng.choice(([6, 6, 1, 1, 3], [6, 6, 1, 0, 3], [4, 8, 0, 1, 1], [8, 4, 1, 1, 4]))
            s = rng.choices((0, 1, 2, 3, 4), weights=w, k=ln)
        yield "random-" + KIND_NAME[k], [k, [n, e], s]


def search_cases(tier, rng, mism):
    yield from cases("thorough", rng)


# ------------------------------------------------------------------ step scheduler (threads)

class Abort(BaseException):
    pass


class ProducerError(Exception):
    pass


_ROLE = threading.local()


def _role():
    return getattr(_ROLE, "name", "?")


class Sched:
    def __init__(self):
        self.cv = threading.Condition()
        self.waiting = {}
        self.live = []
        self.finished = set()
        self.grant = None
        self.abort = False

    # --- called by the controlled threads
    def register(self, who):
        with self.cv:
            if who not in self.live:
                self.live.append(who)

    def point(self, op, enabled=None):
        who = _role()
        with self.cv:
            if self.abort:
                raise Abort()
            self.waiting[who] = (op, enabled)
            self.cv.notify_all()
            while not (self.grant is not None and self.grant[0] == who):
                if self.abort:
                    self.waiting.pop(who, None)
                    raise Abort()
                self.cv.wait(1.0)
            payload = self.grant[1]
            self.grant = None
            del self.waiting[who]
            return payload

    def finish(self, who):
        with self.cv:
            self.finished.add(who)
            self.waiting.pop(who, None)
            self.cv.notify_all()

    # --- called by the scheduler
    def quiesce(self):
        with self.cv:
            while self.grant is not None or not all(w in self.waiting or w in self.finished for w in self.live):
                self.cv.wait(1.0)

    def op(self, who):
        w = self.waiting.get(who)
        return w[0] if w else None

    def enabled(self, who):
        w = self.waiting.get(who)
        if w is None or who in self.finished:
            return False
        return True if w[1] is None else bool(w[1]())

    def give(self, who, payload=None):
        with self.cv:
            self.grant = (who, payload)
            self.cv.notify_all()
        self.quiesce()

    def stop(self):
        with self.cv:
            self.abort = True
            self.cv.notify_all()


_CUR = None   # the scheduler of the running case (one case at a time per process)


class ShimQueue:
    """queue.Queue whose every operation is one granted step"""

    def __init__(self, maxsize=0):
        import collections
        self.maxsize = maxsize
        self.items = collections.deque()

    def _full(self):
        return 0 < self.maxsize <= len(self.items)

    def put(self, item, block=True, timeout=None):
        import queue
        if block and timeout is None:
            _CUR.point("put", lambda: not self._full())
        else:
            _CUR.point("put")
            if self._full():
                raise queue.Full
        self.items.append(item)

    def put_nowait(self, item):
        return self.put(item, block=False)

    def get(self, block=True, timeout=None):
        import queue
        if block and timeout is None:
            _CUR.point("get", lambda: len(self.items) > 0)
        else:
            _CUR.point("get")      # granted on an empty queue = the timeout expired
        if self.items:
            return self.items.popleft()
        raise queue.Empty

    def get_nowait(self):
        import queue
        _CUR.point("get_nowait")
        if self.items:
            return self.items.popleft()
        raise queue.Empty

    def empty(self):
        _CUR.point("empty")
        return not self.items

    def full(self):
        _CUR.point("full")
        return self._full()

    def qsize(self):
        _CUR.point("qsize")
        return len(self.items)


class ShimFuture:
    def __init__(self):
        import concurrent.futures
        self.f = concurrent.futures.Future()

    def done(self):
        _CUR.point("done")
        return self.f.done()

    def cancelled(self):
        _CUR.point("cancelled")
        return self.f.cancelled()

    def running(self):
        _CUR.point("running")
        return self.f.running()

    def cancel(self):
        _CUR.point("cancel")
        return self.f.cancel()

    # a wait with a timeout is a step that is always enabled: granted while the future is not done = the timeout
    # expired (as for the queue operations below)
    def exception(self, timeout=None):
        import concurrent.futures
        if timeout is None:
            _CUR.point("exception", self.f.done)
        else:
            _CUR.point("exception")
            if not self.f.done():
                raise concurrent.futures.TimeoutError()
        return self.f.exception()

    def result(self, timeout=None):
        import concurrent.futures
        if timeout is None:
            _CUR.point("result", self.f.done)
        else:
            _CUR.point("result")
            if not self.f.done():
                raise concurrent.futures.TimeoutError()
        return self.f.result()

    def add_done_callback(self, fn):
        return self.f.add_done_callback(lambda f: fn(self))


class ShimPool:
    """a thread pool with a free worker: the work item is picked up when the scheduler
    grants the relay its `start` step (until then the future can be cancelled)"""

    def __init__(self, exhausted=False):
        self.futures = []
        self.exhausted = exhausted     # no free worker, ever: the job stays queued

    def submit(self, fn, *args, **kwargs):
        fut = ShimFuture()
        self.futures.append(fut)
        sched = _CUR
        sched.register("P")
        exhausted = self.exhausted

        def work():
            _ROLE.name = "P"
            try:
                sched.point("start", lambda: not exhausted and not fut.f.cancelled())
                if not fut.f.set_running_or_notify_cancel():
                    return
                try:
                    r = fn(*args, **kwargs)
                except Abort:
                    raise
                except BaseException as e:  # noqa
                    fut.f.set_exception(e)
                else:
                    fut.f.set_result(r)
            except Abort:
                pass
            finally:
                sched.finish("P")

        t = threading.Thread(target=work, name="SendEvent_P", daemon=True)
        sched.threads.append(t)
        t.start()
        return fut


class SyncProducer:
    """the user's iterable: a generator with a cleanup block, wrapped so that close()
    calls are counted; `next` (inside the body) and `close` are control points"""

    def __init__(self, n, ending, item, close_point):
        self.n, self.ending, self.item, self.close_point = n, ending, item, close_point
        self.nexts = self.cleanup = self.closes = 0
        self.begun = False
        self.gen = self._body()

    def _body(self):
        self.begun = True
        try:
            k = 0
            while True:
                _CUR.point("next")
                self.nexts += 1
                if k < self.n or self.ending == 2:
                    yield self.item(k)
                    k += 1
                elif self.ending == 0:
                    return
                else:
                    raise ProducerError("producer failed")
        finally:
            self.cleanup += 1

    def __iter__(self):
        return self

    def __next__(self):
        return next(self.gen)

    def close(self):
        if self.close_point:
            _CUR.point("close")
        self.closes += 1
        self.gen.close()

    def state(self):
        import inspect
        st = inspect.getgeneratorstate(self.gen)
        return {"GEN_CREATED": 0, "GEN_CLOSED": 2}.get(st, 1)


def _parse_chunk(kind, b):
    if b == b": ping\n\n":
        return -1
    try:
        if kind in (K_WE, K_AE, K_WX):
            assert b.startswith(b"data: ") and b.endswith(b"\n\n")
            return int(b[6:-2])
        assert b.endswith(b",")
        return int(b[:-1])
    except Exception:
        return -9


def run_wsgi(kind, n, ending, choices):
    global _CUR
    import types
    import queue as real_queue
    import baize.wsgi.responses as R

    sched = Sched()
    sched.threads = []
    _CUR = sched
    out = []
    res = {"outcome": None}
    if kind in (K_WE, K_WX):
        prod = SyncProducer(n, ending, lambda k: {"data": str(k)}, True)
        resp = R.SendEventResponse(prod, ping_interval=1000)
        resp.thread_pool = ShimPool(exhausted=(kind == K_WX))
    else:
        prod = SyncProducer(n, ending, lambda k: b"%d," % k, False)
        resp = R.StreamResponse(prod)
    shim = types.SimpleNamespace(Queue=ShimQueue, Empty=real_queue.Empty, Full=real_queue.Full,
                                 SimpleQueue=ShimQueue, LifoQueue=ShimQueue)
    saved = R.__dict__.get("queue")

    def consumer():
        _ROLE.name = "C"
        try:
            sched.point("init")
            it = iter(resp({"REQUEST_METHOD": "GET"}, lambda status, headers, exc_info=None: None))
            mode = "resume"
            while True:
                if mode == "close":
                    try:
                        it.close()
                        res["outcome"] = "closed"
                    except ProducerError:
                        res["outcome"] = "raise"
                    break
                try:
                    chunk = next(it)
                except StopIteration:
                    res["outcome"] = "return"
                    break
                except ProducerError:
                    res["outcome"] = "raise"
                    break
                out.append(_parse_chunk(kind, chunk))
                mode = sched.point("yield")
        except Abort:
            pass
        except BaseException as e:  # noqa
            res["outcome"] = ["exc", type(e).__name__, str(e)[:80]]
        finally:
            sched.finish("C")

    R.queue = shim
    ct = threading.Thread(target=consumer, name="C06_C", daemon=True)
    sched.threads.append(ct)
    sched.register("C")
    closed = False
    cnt = [0, 0, 0]
    try:
        ct.start()
        sched.quiesce()
        sched.give("C")          # up to the consumer's first control point

        def attempt(c):
            nonlocal closed
            if c == 0:
                if not sched.enabled("P"):
                    return False
                isnext = sched.op("P") == "next"
                sched.give("P")
            elif c == 1:
                if not sched.enabled("C"):
                    return False
                isnext = (kind == K_WS and sched.op("C") == "next")
                sched.give("C", "resume")
            elif c == 2:
                if sched.op("C") != "yield":
                    return False
                isnext = False
                sched.give("C", "close")
            else:
                return False
            if closed:
                cnt[2] += 1
                if isnext:
                    cnt[0] += 1
            elif c == 2:
                closed = True
            return True

        for c in choices:
            attempt(c)
        stuck = "running"
        for _ in range(200):
            if "C" in sched.finished:
                break
            if not (attempt(2) or attempt(1) or attempt(0)):
                stuck = "deadlock"
                break
        outcome = res["outcome"] if "C" in sched.finished else stuck
        left = 0
        if "P" in sched.live and "P" not in sched.finished:
            fut = resp.thread_pool.futures[0]
            if not (sched.op("P") == "start" and fut.f.cancelled()):
                left = 1
        obs = [list(out), outcome, [prod.state(), 1 if prod.begun else 0], prod.nexts, prod.cleanup, prod.closes,
               left, list(cnt), 1 if closed else 0]
    finally:
        sched.stop()
        for t in sched.threads:
            t.join(2.0)
        if saved is not None:
            R.queue = saved
        _CUR = None
    return obs


# ------------------------------------------------------------------ ASGI driver

def run_asgi(kind, n, ending, choices):
    import asyncio
    import inspect
    import baize.asgi.responses as R

    import time as _time
    loop = asyncio.new_event_loop()
    vt = [0.0]
    loop.time = lambda: vt[0]
    # the wall clock follows the virtual clock but is stepped BACK by 5000 s each time a send completes (an NTP step, a
    # VM resume): nothing in a streaming response may depend on it (timeouts are measured on the loop's monotonic clock)
    skew = [0.0]
    real_time = _time.time
    _time.time = lambda: 1700000000.0 + vt[0] + skew[0]
    closed_at = [None]
    timers = []
    real_call_at = loop.call_at

    def call_at(when, callback, *args, context=None):
        box = {"fired": False}

        def cb(*a):
            box["fired"] = True
            return callback(*a)

        h = real_call_at(when, cb, *args, context=context)
        box["h"] = h
        timers.append(box)
        return h

    loop.call_at = call_at
    pend = {}
    out = []

    async def wait_on(key):
        f = loop.create_future()
        pend[key] = f
        try:
            return await f
        finally:
            if pend.get(key) is f:
                del pend[key]

    async def receive():
        return await wait_on("recv")

    async def send(message):
        if message["type"] == "http.response.body":
            if message.get("more_body", False):
                out.append(_parse_chunk(kind, message["body"]))
            else:
                out.append(-2 if message.get("body", b"") == b"" else -9)
        await wait_on("send")

    class AsyncProducer:
        def __init__(self):
            self.nexts = self.cleanup = self.closes = 0
            self.begun = False
            self.gen = self._body()

        async def _body(self):
            self.begun = True
            try:
                k = 0
                while True:
                    await wait_on("prod")
                    self.nexts += 1
                    if k < n or ending == 2:
                        yield ({"data": str(k)} if kind == K_AE else b"%d," % k)
                        k += 1
                    elif ending == 0:
                        return
                    else:
                        raise ProducerError("producer failed")
            finally:
                self.cleanup += 1

        def __aiter__(self):
            return self

        def __anext__(self):
            return self.gen.__anext__()

        async def aclose(self):
            self.closes += 1
            await self.gen.aclose()

        def state(self):
            if hasattr(inspect, "getasyncgenstate"):
                st = inspect.getasyncgenstate(self.gen)
                return {"AGEN_CREATED": 0, "AGEN_CLOSED": 2}.get(st, 1)
            fr = self.gen.ag_frame
            return 2 if fr is None else (0 if fr.f_lasti < 0 else 1)

    prod = AsyncProducer()
    if kind == K_AE:
        resp = R.SendEventResponse(prod, ping_interval=1000)
    else:
        resp = R.StreamResponse(prod)

    def settle():
        for _ in range(200):
            loop.call_soon(loop.stop)
            loop.run_forever()
            ready = getattr(loop, "_ready", None)
            if ready is not None and not ready:
                return
        return

    def armed():
        return [b for b in timers if not b["fired"] and not b["h"].cancelled()]

    asyncio.set_event_loop(None)
    main = loop.create_task(resp({"type": "http", "method": "GET"}, receive, send))
    closed = False
    cnt = [0, 0, 0]
    try:
        settle()

        def attempt(c):
            nonlocal closed
            if c in (0, 1, 2, 3):
                key = ("send", "prod", "recv", "recv")[c]
                f = pend.get(key)
                if f is None or f.done():
                    return False
                if c == 2:
                    f.set_result({"type": "http.request", "body": b"", "more_body": False})
                elif c == 3:
                    f.set_result({"type": "http.disconnect"})
                    if closed_at[0] is None:
                        closed_at[0] = vt[0]
                else:
                    if c == 0:
                        skew[0] -= 5000.0
                    f.set_result(None)
            elif c == 4:
                a = armed()
                if not a:
                    return False
                b = min(a, key=lambda x: x["h"].when())
                vt[0] = max(vt[0], b["h"].when()) + 0.001
            else:
                return False
            settle()
            if closed:
                cnt[2] += 1
                if c == 1:
                    cnt[0] += 1
                if c == 4:
                    cnt[1] += 1
            elif c == 3:
                closed = True
            return True

        for c in choices:
            attempt(c)
        stuck = "running"
        for _ in range(200):
            if main.done():
                break
            if not (attempt(3) or attempt(0) or attempt(1) or attempt(4)):
                stuck = "deadlock"
                break
        settle()
        if main.done():
            if main.cancelled():
                outcome = ["exc", "CancelledError", ""]
            else:
                e = main.exception()
                if e is None:
                    outcome = "return"
                elif isinstance(e, ProducerError):
                    outcome = "raise"
                else:
                    outcome = ["exc", type(e).__name__, str(e)[:80]]
            # "no later than one ping interval after the disconnect" on the loop's clock (ping_interval = 1000 virtual s)
            if closed_at[0] is not None and vt[0] - closed_at[0] > 1010.0 and isinstance(outcome, str):
                outcome = ["exc", "LateReturn", "returned %.0f virtual seconds after the disconnect, the ping interval is 1000" % (vt[0] - closed_at[0])]
        else:
            outcome = stuck
        left = len([t for t in asyncio.all_tasks(loop) if not t.done() and t is not main])
        obs = [list(out), outcome, [prod.state(), 1 if prod.begun else 0], prod.nexts, prod.cleanup, prod.closes,
               left, list(cnt), 1 if closed else 0]
    finally:
        _time.time = real_time
        try:
            for t in asyncio.all_tasks(loop):
                t.cancel()
            settle()
            for f in list(pend.values()):
                if not f.done():
                    f.cancel()
            settle()
            loop.run_until_complete(loop.shutdown_asyncgens())
        except BaseException:  # noqa
            pass
        loop.close()
    return obs


def impl(case):
    kind, (n, ending), choices = case[0], case[1], case[2]
    if kind in (K_WS, K_WE, K_WX):
        return run_wsgi(kind, n, ending, choices)
    if kind in (K_AS, K_AE):
        return run_asgi(kind, n, ending, choices)
    return ["badkind"]


# ------------------------------------------------------------------ the property on the observations

# steps that may still follow the close / disconnect (coarse steps; from the ranking
# functions of close_terminates: the fine-step bounds are larger)
MAX_AFTER = {K_WS: 1, K_WE: 14, K_AS: 6, K_AE: 10, K_WX: 14}
MAX_PROD_AFTER = {K_WS: 0, K_WE: 1, K_AS: 1, K_AE: 3, K_WX: 0}


def oracle(case, obs):
    kind, (n, ending) = case[0], case[1]
    name = KIND_NAME.get(kind, "?")
    if obs and obs[0] == "driver-exception":
        if obs[1] == "Hung":
            return ("hang-" + name, "the case did not finish: %s" % obs[2])
        return ("driver-" + name + "-" + str(obs[1]), "driver raised %s: %s" % (obs[1], obs[2]))
    out, outcome, (gst, begun), nexts, cleanup, closes, left, (pa, ta, na) = obs[:8]
    was_closed = bool(obs[8]) if len(obs) > 8 else True
    if outcome == "deadlock":
        return ("deadlock-" + name, "no thread/task can take a step and the response has not returned; delivered %r, "
                "generator state %d, producer answers %d, unfinished relay/tasks %d" % (out, gst, nexts, left))
    if outcome == "running":
        return ("does-not-terminate-" + name, "the response did not return within 200 steps after the close/disconnect")
    if isinstance(outcome, list):
        return ("foreign-exception-" + name + "-" + str(outcome[1]), "the response raised %s: %s, not the producer's exception"
                % (outcome[1], outcome[2]))
    if outcome == "raise" and not (ending == 1 and nexts == n + 1):
        return ("spurious-raise-" + name, "the producer's exception surfaced although the producer did not raise")
    if kind in (K_WS, K_AS) and ending == 1 and nexts == n + 1 and outcome != "raise":
        return ("exception-lost-" + name, "the producer raised but the response ended with %s" % outcome)
    if gst == 1:
        return ("generator-left-open-" + name, "the response ended (%s) and the producer generator is still suspended; "
                "cleanup ran %d times" % (outcome, cleanup))
    if cleanup != (1 if begun else 0):
        return ("cleanup-count-" + name, "the generator's cleanup block ran %d times (body entered: %d)" % (cleanup, begun))
    if left != 0:
        return ("task-left-" + name, "%d relay thread/task(s) still pending or blocked after the response ended" % left)
    items = [x for x in out if x >= 0]
    if items != list(range(len(items))) or any(x < -2 for x in out):
        return ("delivery-" + name, "delivered items %r are not 0,1,2,... in order" % (out,))
    if len(items) > nexts or (ending != 2 and len(items) > n):
        return ("delivery-" + name, "more items delivered (%r) than produced (%d)" % (out, nexts))
    # a stream that ended by itself (WSGI: the iterable was exhausted, not closed; ASGI: the final body was sent) has
    # delivered EVERYTHING the producer yielded before it stopped
    if ending == 0 and outcome == "return" and not was_closed and items != list(range(n)):
        return ("loss-at-end-" + name, "the stream ended normally having delivered %r of the %d items the producer yielded" % (items, n))
    if -2 in out and (out.index(-2) != len(out) - 1 or outcome != "return"):
        return ("final-body-" + name, "final body in the wrong place: %r outcome %s" % (out, outcome))
    if kind in (K_AS, K_AE) and outcome == "return" and (not out or out[-1] != -2):
        return ("final-body-" + name, "returned without the final body: %r" % (out,))
    if pa > MAX_PROD_AFTER[kind]:
        return ("late-" + name, "%d producer steps were needed after the close/disconnect" % pa)
    if ta > 1:
        return ("late-" + name, "%d ping intervals passed after the disconnect" % ta)
    if na > MAX_AFTER[kind]:
        return ("late-" + name, "%d steps after the close/disconnect" % na)
    return None


def nontrivial(case, obs):
    if not obs or obs[0] == "driver-exception":
        return False
    return obs[7][2] > 0 or obs[1] == "raise"


def shrink(case):
    kind, (n, ending), s = case[0], case[1], case[2]
    for i in range(len(s)):
        yield [kind, [n, ending], s[:i] + s[i + 1:]]
    if n > 0:
        yield [kind, [n - 1, ending], s]


if __name__ == "__main__":
    core.main(sys.modules[__name__])
